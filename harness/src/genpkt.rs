//! Structure-aware generator of *library* packet values (v3 and v5 codecs).
//!
//! Presence of every optional field / property is driven by successive bits of `mask`, so a
//! caller can enumerate presence combinations (pairwise coverage) or pass random bits.
use std::num::{NonZeroU16, NonZeroU32};
use std::sync::OnceLock;

use ntex_bytes::{ByteString, Bytes};
use ntex_mqtt::v3::codec as c3;
use ntex_mqtt::v5::codec as c5;

use crate::pool::Rng;

#[derive(Clone, Debug)]
pub enum Item3 {
    Packet(c3::Packet),
    Publish(c3::Publish, Vec<u8>),
}

#[derive(Clone, Debug)]
pub enum Item5 {
    Packet(c5::Packet),
    Publish(c5::Publish, Vec<u8>),
}

#[derive(Clone, Copy, Debug)]
pub struct GenCfg {
    /// allow boundary string lengths 16383/16384/65535
    pub big_strings: bool,
    /// maximum PUBLISH payload size
    pub max_payload: usize,
    /// maximum number of user properties
    pub max_user_props: usize,
}

impl GenCfg {
    pub const SMALL: GenCfg = GenCfg { big_strings: false, max_payload: 300, max_user_props: 3 };
    pub const FULL: GenCfg = GenCfg { big_strings: true, max_payload: 20_000, max_user_props: 6 };
}

pub struct Bits(pub u64, pub u32);
impl Bits {
    pub fn new(mask: u64) -> Self {
        Bits(mask, 0)
    }
    /// next presence bit (cycles after 64)
    pub fn next(&mut self) -> bool {
        let b = (self.0 >> (self.1 % 64)) & 1 == 1;
        self.1 += 1;
        b
    }
    pub fn used(&self) -> u32 {
        self.1
    }
}

pub const V3_KINDS: [&str; 14] = [
    "CONNECT", "CONNACK", "PUBLISH", "PUBACK", "PUBREC", "PUBREL", "PUBCOMP", "SUBSCRIBE", "SUBACK",
    "UNSUBSCRIBE", "UNSUBACK", "PINGREQ", "PINGRESP", "DISCONNECT",
];
pub const V5_KINDS: [&str; 15] = [
    "CONNECT", "CONNACK", "PUBLISH", "PUBACK", "PUBREC", "PUBREL", "PUBCOMP", "SUBSCRIBE", "SUBACK",
    "UNSUBSCRIBE", "UNSUBACK", "PINGREQ", "PINGRESP", "DISCONNECT", "AUTH",
];

fn discriminants<T: TryFrom<u8> + Copy>() -> Vec<T> {
    (0..=255u8).filter_map(|b| T::try_from(b).ok()).collect()
}

macro_rules! enum_list {
    ($name:ident, $t:ty) => {
        pub fn $name() -> &'static [$t] {
            static L: OnceLock<Vec<$t>> = OnceLock::new();
            L.get_or_init(discriminants::<$t>)
        }
    };
}
enum_list!(qos_list, c5::QoS);
enum_list!(v3_connack_list, c3::ConnectAckReason);
enum_list!(v5_connack_list, c5::ConnectAckReason);
enum_list!(v5_puback_list, c5::PublishAckReason);
enum_list!(v5_puback2_list, c5::PublishAck2Reason);
enum_list!(v5_suback_list, c5::SubscribeAckReason);
enum_list!(v5_unsuback_list, c5::UnsubscribeAckReason);
enum_list!(v5_disconnect_list, c5::DisconnectReasonCode);
enum_list!(v5_auth_list, c5::AuthReasonCode);
enum_list!(v5_retain_handling_list, c5::RetainHandling);

/// byte length for a string/binary field
pub fn pick_len(rng: &mut Rng, cfg: &GenCfg) -> usize {
    let r = rng.below(100);
    if r < 62 {
        rng.usize(13)
    } else if r < 86 {
        *rng.pick(&[0usize, 1, 2, 126, 127, 128, 129, 255, 256])
    } else if r < 92 {
        rng.usize(1200)
    } else if cfg.big_strings {
        if r < 98 { *rng.pick(&[16382usize, 16383, 16384, 16385]) } else { *rng.pick(&[65534usize, 65535]) }
    } else {
        rng.usize(40)
    }
}

/// UTF-8 string of exactly `len` bytes; mostly ASCII, sometimes multi-byte characters.
pub fn utf8(rng: &mut Rng, len: usize, topic_like: bool) -> String {
    let mut s = String::with_capacity(len);
    let fancy = rng.chance(1, 5);
    while s.len() < len {
        let left = len - s.len();
        if fancy && left >= 4 && rng.chance(1, 6) {
            s.push(*rng.pick(&['é', 'ß', '日', '本', '😀', 'Ω', '\u{7ff}', '\u{800}', '\u{ffff}', '\u{10000}']));
            if s.len() > len {
                s.pop();
            }
        } else if topic_like && rng.chance(1, 7) {
            s.push('/');
        } else {
            s.push((b'a' + rng.below(26) as u8) as char);
        }
    }
    debug_assert_eq!(s.len(), len);
    s
}

fn bstr(rng: &mut Rng, cfg: &GenCfg, topic_like: bool) -> ByteString {
    let n = pick_len(rng, cfg);
    ByteString::from(utf8(rng, n, topic_like))
}

fn bin(rng: &mut Rng, cfg: &GenCfg) -> Bytes {
    let n = pick_len(rng, cfg);
    Bytes::from(rng.bytes(n))
}

fn nz16(rng: &mut Rng) -> NonZeroU16 {
    let v = match rng.below(10) {
        0 => 1,
        1 => 65535,
        2 => 256,
        3 => 255,
        _ => rng.range(1, 65535) as u16,
    };
    NonZeroU16::new(v).unwrap()
}

fn any_u16(rng: &mut Rng) -> u16 {
    match rng.below(8) {
        0 => 0,
        1 => 65535,
        2 => 1,
        _ => rng.below(65536) as u16,
    }
}

fn any_u32(rng: &mut Rng) -> u32 {
    match rng.below(8) {
        0 => 0,
        1 => u32::MAX,
        2 => 1,
        3 => 65536,
        _ => rng.next() as u32,
    }
}

fn nz32(rng: &mut Rng) -> NonZeroU32 {
    NonZeroU32::new(any_u32(rng).max(1)).unwrap()
}

/// value representable as a Variable Byte Integer, biased to the encoding boundaries
pub fn varint_value(rng: &mut Rng) -> u32 {
    match rng.below(12) {
        0 => 1,
        1 => 127,
        2 => 128,
        3 => 16383,
        4 => 16384,
        5 => 2_097_151,
        6 => 2_097_152,
        7 => 268_435_455,
        _ => rng.range(1, 268_435_455) as u32,
    }
}

fn user_props(rng: &mut Rng, cfg: &GenCfg, present: bool) -> c5::UserProperties {
    if !present {
        return Vec::new();
    }
    let n = 1 + rng.usize(cfg.max_user_props.max(1));
    (0..n).map(|_| (bstr(rng, cfg, false), bstr(rng, cfg, false))).collect()
}

pub fn payload_size(rng: &mut Rng, cfg: &GenCfg) -> usize {
    let r = rng.below(100);
    let n = if r < 50 {
        rng.usize(40)
    } else if r < 75 {
        // around the 1 -> 2 byte Remaining Length boundary (header is a few bytes)
        90 + rng.usize(60)
    } else if r < 90 {
        rng.usize(2000)
    } else {
        // around the 2 -> 3 byte boundary
        16_300 + rng.usize(120)
    };
    n.min(cfg.max_payload)
}

// ------------------------------------------------------------------------------------ v3

pub fn gen_v3(rng: &mut Rng, kind: usize, mask: u64, cfg: &GenCfg) -> Item3 {
    let mut b = Bits::new(mask);
    let qos = |rng: &mut Rng| *rng.pick(qos_list());
    match kind {
        0 => {
            let will = b.next().then(|| c3::LastWill {
                qos: qos(rng),
                retain: rng.bool(),
                topic: bstr(rng, cfg, true),
                message: bin(rng, cfg),
            });
            let username = b.next().then(|| bstr(rng, cfg, false));
            let password = b.next().then(|| bin(rng, cfg));
            let clean_session = b.next();
            let mut client_id = bstr(rng, cfg, false);
            if client_id.is_empty() && !clean_session {
                // [MQTT-3.1.3-7] a zero-byte ClientId requires CleanSession = 1
                client_id = ByteString::from_static("c");
            }
            Item3::Packet(c3::Packet::Connect(Box::new(c3::Connect {
                clean_session,
                keep_alive: any_u16(rng),
                last_will: will,
                client_id,
                username,
                password,
            })))
        }
        1 => Item3::Packet(c3::Packet::ConnectAck(c3::ConnectAck {
            // code 6 (`Reserved` in the library) is not a return code MQTT 3.1.1 defines: not generated
            return_code: *rng.pick(&v3_connack_list()[..6]),
            session_present: b.next(),
        })),
        2 => {
            let q = qos(rng);
            let n = payload_size(rng, cfg);
            Item3::Publish(
                c3::Publish {
                    dup: b.next(),
                    retain: b.next(),
                    qos: q,
                    topic: bstr(rng, cfg, true),
                    packet_id: (u8::from(q) > 0).then(|| nz16(rng)),
                    payload_size: n as u32,
                },
                rng.bytes(n),
            )
        }
        3 => Item3::Packet(c3::Packet::PublishAck { packet_id: nz16(rng) }),
        4 => Item3::Packet(c3::Packet::PublishReceived { packet_id: nz16(rng) }),
        5 => Item3::Packet(c3::Packet::PublishRelease { packet_id: nz16(rng) }),
        6 => Item3::Packet(c3::Packet::PublishComplete { packet_id: nz16(rng) }),
        7 => {
            let n = 1 + rng.usize(4);
            Item3::Packet(c3::Packet::Subscribe {
                packet_id: nz16(rng),
                topic_filters: (0..n).map(|_| (bstr(rng, cfg, true), qos(rng))).collect(),
            })
        }
        8 => {
            let n = 1 + rng.usize(5);
            Item3::Packet(c3::Packet::SubscribeAck {
                packet_id: nz16(rng),
                status: (0..n)
                    .map(|_| {
                        if rng.chance(1, 4) {
                            c3::SubscribeReturnCode::Failure
                        } else {
                            c3::SubscribeReturnCode::Success(qos(rng))
                        }
                    })
                    .collect(),
            })
        }
        9 => {
            let n = 1 + rng.usize(4);
            Item3::Packet(c3::Packet::Unsubscribe {
                packet_id: nz16(rng),
                topic_filters: (0..n).map(|_| bstr(rng, cfg, true)).collect(),
            })
        }
        10 => Item3::Packet(c3::Packet::UnsubscribeAck { packet_id: nz16(rng) }),
        11 => Item3::Packet(c3::Packet::PingRequest),
        12 => Item3::Packet(c3::Packet::PingResponse),
        _ => Item3::Packet(c3::Packet::Disconnect),
    }
}

/// number of presence bits `gen_v3` consumes for `kind`
pub fn v3_mask_bits(kind: usize) -> u32 {
    match kind {
        0 => 4,
        1 => 1,
        2 => 2,
        _ => 0,
    }
}

// ------------------------------------------------------------------------------------ v5

fn ack5(rng: &mut Rng, b: &mut Bits, cfg: &GenCfg) -> c5::PublishAck {
    c5::PublishAck {
        packet_id: nz16(rng),
        reason_code: *rng.pick(v5_puback_list()),
        properties: user_props(rng, cfg, b.next()),
        reason_string: b.next().then(|| bstr(rng, cfg, false)),
    }
}

fn ack52(rng: &mut Rng, b: &mut Bits, cfg: &GenCfg) -> c5::PublishAck2 {
    c5::PublishAck2 {
        packet_id: nz16(rng),
        reason_code: *rng.pick(v5_puback2_list()),
        properties: user_props(rng, cfg, b.next()),
        reason_string: b.next().then(|| bstr(rng, cfg, false)),
    }
}

pub fn gen_publish_props(rng: &mut Rng, b: &mut Bits, cfg: &GenCfg) -> c5::PublishProperties {
    c5::PublishProperties {
        topic_alias: b.next().then(|| nz16(rng)),
        correlation_data: b.next().then(|| bin(rng, cfg)),
        message_expiry_interval: b.next().then(|| nz32(rng)),
        content_type: b.next().then(|| bstr(rng, cfg, false)),
        user_properties: user_props(rng, cfg, b.next()),
        is_utf8_payload: b.next(),
        response_topic: b.next().then(|| bstr(rng, cfg, true)),
        subscription_ids: if b.next() {
            (0..1 + rng.usize(3)).map(|_| NonZeroU32::new(varint_value(rng)).unwrap()).collect()
        } else {
            Vec::new()
        },
    }
}

pub fn gen_v5(rng: &mut Rng, kind: usize, mask: u64, cfg: &GenCfg) -> Item5 {
    let mut b = Bits::new(mask);
    let qos = |rng: &mut Rng| *rng.pick(qos_list());
    match kind {
        0 => {
            let last_will = b.next().then(|| c5::LastWill {
                qos: qos(rng),
                retain: rng.bool(),
                topic: bstr(rng, cfg, true),
                message: bin(rng, cfg),
                will_delay_interval_sec: b.next().then(|| any_u32(rng)),
                correlation_data: b.next().then(|| bin(rng, cfg)),
                message_expiry_interval: b.next().then(|| nz32(rng)),
                content_type: b.next().then(|| bstr(rng, cfg, false)),
                user_properties: user_props(rng, cfg, b.next()),
                is_utf8_payload: b.next().then(|| rng.bool()),
                response_topic: b.next().then(|| bstr(rng, cfg, true)),
            });
            Item5::Packet(c5::Packet::Connect(Box::new(c5::Connect {
                clean_start: b.next(),
                keep_alive: any_u16(rng),
                session_expiry_interval_secs: if b.next() { any_u32(rng) } else { 0 },
                auth_method: b.next().then(|| bstr(rng, cfg, false)),
                auth_data: b.next().then(|| bin(rng, cfg)),
                request_problem_info: !b.next(),
                request_response_info: b.next(),
                receive_max: b.next().then(|| nz16(rng)),
                topic_alias_max: if b.next() { any_u16(rng) } else { 0 },
                user_properties: user_props(rng, cfg, b.next()),
                max_packet_size: b.next().then(|| nz32(rng)),
                last_will,
                client_id: bstr(rng, cfg, false),
                username: b.next().then(|| bstr(rng, cfg, false)),
                password: b.next().then(|| bin(rng, cfg)),
            })))
        }
        1 => Item5::Packet(c5::Packet::ConnectAck(Box::new(c5::ConnectAck {
            session_present: b.next(),
            reason_code: *rng.pick(v5_connack_list()),
            session_expiry_interval_secs: b.next().then(|| any_u32(rng)),
            receive_max: if b.next() { nz16(rng) } else { NonZeroU16::new(65535).unwrap() },
            max_qos: if b.next() { *rng.pick(&qos_list()[..2]) } else { qos_list()[2] },
            max_packet_size: b.next().then(|| any_u32(rng).max(1)),
            assigned_client_id: b.next().then(|| bstr(rng, cfg, false)),
            topic_alias_max: if b.next() { any_u16(rng) } else { 0 },
            retain_available: !b.next(),
            wildcard_subscription_available: !b.next(),
            subscription_identifiers_available: !b.next(),
            shared_subscription_available: !b.next(),
            server_keepalive_sec: b.next().then(|| any_u16(rng)),
            response_info: b.next().then(|| bstr(rng, cfg, false)),
            server_reference: b.next().then(|| bstr(rng, cfg, false)),
            auth_method: b.next().then(|| bstr(rng, cfg, false)),
            auth_data: b.next().then(|| bin(rng, cfg)),
            reason_string: b.next().then(|| bstr(rng, cfg, false)),
            user_properties: user_props(rng, cfg, b.next()),
        }))),
        2 => {
            let q = qos(rng);
            let n = payload_size(rng, cfg);
            let dup = b.next();
            let retain = b.next();
            Item5::Publish(
                c5::Publish {
                    dup,
                    retain,
                    qos: q,
                    packet_id: (u8::from(q) > 0).then(|| nz16(rng)),
                    topic: bstr(rng, cfg, true),
                    payload_size: n as u32,
                    properties: gen_publish_props(rng, &mut b, cfg),
                },
                rng.bytes(n),
            )
        }
        3 => Item5::Packet(c5::Packet::PublishAck(ack5(rng, &mut b, cfg))),
        4 => Item5::Packet(c5::Packet::PublishReceived(ack5(rng, &mut b, cfg))),
        5 => Item5::Packet(c5::Packet::PublishRelease(ack52(rng, &mut b, cfg))),
        6 => Item5::Packet(c5::Packet::PublishComplete(ack52(rng, &mut b, cfg))),
        7 => {
            let n = 1 + rng.usize(4);
            Item5::Packet(c5::Packet::Subscribe(c5::Subscribe {
                packet_id: nz16(rng),
                id: b.next().then(|| NonZeroU32::new(varint_value(rng)).unwrap()),
                user_properties: user_props(rng, cfg, b.next()),
                topic_filters: (0..n)
                    .map(|_| {
                        (
                            bstr(rng, cfg, true),
                            c5::SubscriptionOptions {
                                qos: qos(rng),
                                no_local: rng.bool(),
                                retain_as_published: rng.bool(),
                                retain_handling: *rng.pick(v5_retain_handling_list()),
                            },
                        )
                    })
                    .collect(),
            }))
        }
        8 => {
            let n = 1 + rng.usize(5);
            Item5::Packet(c5::Packet::SubscribeAck(c5::SubscribeAck {
                packet_id: nz16(rng),
                properties: user_props(rng, cfg, b.next()),
                reason_string: b.next().then(|| bstr(rng, cfg, false)),
                status: (0..n).map(|_| *rng.pick(v5_suback_list())).collect(),
            }))
        }
        9 => {
            let n = 1 + rng.usize(4);
            Item5::Packet(c5::Packet::Unsubscribe(c5::Unsubscribe {
                packet_id: nz16(rng),
                user_properties: user_props(rng, cfg, b.next()),
                topic_filters: (0..n).map(|_| bstr(rng, cfg, true)).collect(),
            }))
        }
        10 => {
            let n = 1 + rng.usize(5);
            Item5::Packet(c5::Packet::UnsubscribeAck(c5::UnsubscribeAck {
                packet_id: nz16(rng),
                properties: user_props(rng, cfg, b.next()),
                reason_string: b.next().then(|| bstr(rng, cfg, false)),
                status: (0..n).map(|_| *rng.pick(v5_unsuback_list())).collect(),
            }))
        }
        11 => Item5::Packet(c5::Packet::PingRequest),
        12 => Item5::Packet(c5::Packet::PingResponse),
        13 => Item5::Packet(c5::Packet::Disconnect(c5::Disconnect {
            reason_code: *rng.pick(v5_disconnect_list()),
            session_expiry_interval_secs: b.next().then(|| any_u32(rng)),
            server_reference: b.next().then(|| bstr(rng, cfg, false)),
            reason_string: b.next().then(|| bstr(rng, cfg, false)),
            user_properties: user_props(rng, cfg, b.next()),
        })),
        _ => Item5::Packet(c5::Packet::Auth(c5::Auth {
            reason_code: *rng.pick(v5_auth_list()),
            auth_method: b.next().then(|| bstr(rng, cfg, false)),
            auth_data: b.next().then(|| bin(rng, cfg)),
            reason_string: b.next().then(|| bstr(rng, cfg, false)),
            user_properties: user_props(rng, cfg, b.next()),
        })),
    }
}

pub fn v5_mask_bits(kind: usize) -> u32 {
    match kind {
        0 => 21,
        1 => 18,
        2 => 10,
        3..=6 => 2,
        7 => 2,
        8 => 2,
        9 => 1,
        10 => 2,
        13 => 4,
        14 => 4,
        _ => 0,
    }
}
