//! mqtt-verif: runtime monitors for the ntex-mqtt properties C01..C20 (see /verif/DESIGN.md).
#![allow(dead_code, unused_imports, clippy::too_many_arguments, clippy::type_complexity, clippy::collapsible_if)]
mod app;
mod conn;
mod explore;
mod genpkt;
mod libcodec;
mod map;
mod pool;
mod props;
mod refcodec;
mod report;
mod rt;
mod sink;
mod universal;

use report::{Opts, Tier};

fn usage() -> ! {
    eprintln!(
        "usage: mqtt-verif <C01..C20|selftest> [--tier quick|thorough] [--seed N] [--replay FILE] [--verbose] [-- extra...]"
    );
    std::process::exit(2)
}

fn main() {
    let args: Vec<String> = std::env::args().skip(1).collect();
    if args.is_empty() {
        usage();
    }
    let prop = args[0].clone();
    let mut tier = match std::env::var("VERIF_TIER").as_deref() {
        Ok("thorough") => Tier::Thorough,
        _ => Tier::Quick,
    };
    let mut seed: u64 =
        std::env::var("VERIF_SEED").ok().and_then(|s| s.trim().parse().ok()).unwrap_or(1);
    let mut replay = None;
    let mut extra = Vec::new();
    let mut i = 1;
    while i < args.len() {
        match args[i].as_str() {
            "--tier" => {
                i += 1;
                tier = match args.get(i).map(String::as_str) {
                    Some("quick") => Tier::Quick,
                    Some("thorough") => Tier::Thorough,
                    _ => usage(),
                };
            }
            "--seed" => {
                i += 1;
                seed = args.get(i).and_then(|s| s.parse().ok()).unwrap_or_else(|| usage());
            }
            "--replay" => {
                i += 1;
                replay = Some(std::path::PathBuf::from(args.get(i).unwrap_or_else(|| usage())));
            }
            "--verbose" => pool::set_verbose(true),
            "--" => {
                extra.extend(args[i + 1..].iter().cloned());
                break;
            }
            other => extra.push(other.to_string()),
        }
        i += 1;
    }
    // generic replay: a replay file written by Report::finish names the tier, the seed and the
    // case (parallel loop number, index); checks with a replay routine of their own use the rest
    let mut generic_only = false;
    if let Some(p) = &replay {
        if let Ok(txt) = std::fs::read_to_string(p) {
            if let Ok(v) = serde_json::from_str::<serde_json::Value>(&txt) {
                if let Some(s) = v["seed"].as_u64() {
                    seed = s;
                }
                match v["tier"].as_str() {
                    Some("thorough") => tier = Tier::Thorough,
                    Some("quick") => tier = Tier::Quick,
                    _ => {}
                }
                let c = &v["replay"]["_case"];
                if let (Some(ph), Some(ix)) = (c["phase"].as_u64(), c["index"].as_u64()) {
                    pool::set_replay_only(ph, ix);
                    println!("replaying case {ix} of parallel loop {ph} (seed {seed}, tier {})", tier.name());
                    // findings of the scenario-independent monitors and of the stuck-step monitor
                    // carry nothing but the case: the check runs as usual, restricted to it
                    generic_only = v["replay"]["monitor"].as_str() == Some("universal") || v["replay"]["stuck_step"].as_bool() == Some(true);
                }
            }
        }
    }
    let scale =
        std::env::var("VERIF_SCALE").ok().and_then(|s| s.parse::<f64>().ok()).unwrap_or(1.0);
    let opts = Opts {
        prop: prop.clone(),
        tier,
        seed,
        replay: if generic_only { None } else { replay },
        hooks: cfg!(feature = "hooks"),
        build: option_env!("VERIF_BUILD").unwrap_or("verif").to_string(),
        scale,
        extra,
        cross: None,
    };
    pool::install_panic_hook();

    // the reference codec is the trusted base of most oracles: refuse to judge anything if it
    // does not pass its own self test (exit 2 = inconclusive, never a VIOLATION)
    // (under an interpreter the self test alone takes a quarter of an hour; the sanitizer stage is
    // started by ./check right after a native run of the same binary source has passed it)
    let skip_selftest = std::env::var("VERIF_SANITIZER").as_deref() == Ok("miri") && prop != "selftest";
    match if skip_selftest { Ok(0) } else { refcodec::selftest() } {
        Ok(n) => {
            if prop == "selftest" {
                println!("reference codec self test: {n} checks passed");
                std::process::exit(0);
            }
        }
        Err(e) => {
            println!("INCONCLUSIVE: reference codec self test failed: {e}");
            std::process::exit(2);
        }
    }
    let code = props::run(&opts);
    std::process::exit(code);
}
