//! Instrumented application: event log, gates, scripted handler behaviour.
//!
//! Everything the user would plug into ntex-mqtt (handshake, publish, protocol and control
//! services, sink users) is replaced by code that logs what it sees and behaves as scripted by
//! the controller. The log is the boundary history the monitors read.
use std::cell::{Cell, RefCell};
use std::collections::{HashMap, VecDeque};
use std::future::Future;
use std::pin::Pin;
use std::rc::Rc;
use std::task::{Context, Poll, Waker};

use crate::refcodec::{Packet as R, Prop};

#[derive(Debug, Clone, PartialEq, Eq)]
pub enum StopClass {
    Protocol,
    Error,
    PeerGone,
}

#[derive(Debug, Clone, PartialEq, Eq)]
pub enum Outcome {
    Ok,
    /// plain application error
    Err,
    /// v5: error that the application maps to a negative acknowledgement with this reason code
    Nack(u8),
    /// v5: success path returning an explicit reason code
    AckCode(u8),
}

#[derive(Debug, Clone, PartialEq, Eq)]
pub enum ProtoAnswer {
    Ack,
    Disconnect,
    /// v5: disconnect_with(reason code)
    DisconnectWith(u8),
    /// the handler itself closes the sink (close() / v5 close_with_reason(code)) and then acks
    CloseSinkThenAck(Option<u8>),
    Err,
}

#[derive(Debug, Clone, PartialEq, Eq)]
pub enum ControlAnswer {
    None,
    /// v5: the control service returns its own DISCONNECT with this reason code
    OwnDisconnect(u8),
    Err,
}

#[derive(Debug, Clone, PartialEq, Eq)]
pub enum ReadMode {
    /// read_all() before waiting on the gate
    Eager,
    /// read() chunk by chunk, each read logged
    Chunks,
    /// read() one chunk per gate release (gate id = call, sub-gates)
    Lazy,
    /// never touch the payload
    Abandon,
    /// wait for one controller step (gate `PubRead`), then read_all()
    LateAll,
    /// take the payload out of the message and read it chunk by chunk in a separate task that
    /// outlives the handler
    Detached,
    /// like `Detached`, but the task starts reading only when the controller opens its gate
    /// (`PubRead`, call * 1000 + 999) - possibly after the connection has gone
    DetachedLate,
}

#[derive(Debug, Clone)]
pub struct PubPlan {
    pub read: ReadMode,
    /// None = complete immediately with `outcome`; Some = wait for the gate (its value is the outcome)
    pub gated: bool,
    pub outcome: Outcome,
}

impl Default for PubPlan {
    fn default() -> Self {
        PubPlan { read: ReadMode::Eager, gated: false, outcome: Outcome::Ok }
    }
}

#[derive(Debug, Clone)]
pub struct ProtoPlan {
    pub gated: bool,
    pub answer: ProtoAnswer,
}

impl Default for ProtoPlan {
    fn default() -> Self {
        ProtoPlan { gated: false, answer: ProtoAnswer::Ack }
    }
}

#[derive(Debug, Clone)]
pub struct ControlPlan {
    pub gated: bool,
    pub answer: ControlAnswer,
}

impl Default for ControlPlan {
    fn default() -> Self {
        ControlPlan { gated: false, answer: ControlAnswer::None }
    }
}

#[derive(Debug, Clone, PartialEq, Eq)]
pub enum SinkRes {
    Ok,
    /// QoS 2 first phase completed (PUBREC received)
    Received,
    /// v5 acks with their content
    Ack { code: u8, props: Vec<Prop> },
    SubAck { codes: Vec<u8>, props: Vec<Prop> },
    Ready(bool),
    ErrDisconnected,
    ErrIdInUse(u16),
    ErrEncode(String),
    ErrUnexpectedRelease,
    ErrStreamingCancelled,
    /// the future was dropped by the controller
    Dropped,
}

impl SinkRes {
    pub fn is_ok(&self) -> bool {
        matches!(
            self,
            SinkRes::Ok | SinkRes::Received | SinkRes::Ack { .. } | SinkRes::SubAck { .. } | SinkRes::Ready(true)
        )
    }
}

#[derive(Debug, Clone, PartialEq, Eq)]
pub enum Ev {
    /// a complete packet the endpoint wrote (parsed on the peer side by the reference decoder)
    Wire(R),
    /// the peer-side byte stream no longer parses
    WireGarbage(String),
    /// the peer wrote this (description only)
    PeerSent(String),
    HandshakeEnter,
    HandshakeExit(String),
    PubEnter { call: u32, topic: String, route: String, qos: u8, dup: bool, retain: bool, pid: Option<u16>, props: Vec<Prop>, size: u32 },
    PubRead { call: u32, res: Result<usize, String> },
    PubPayload { call: u32, bytes: Vec<u8> },
    PubExit { call: u32, outcome: Outcome },
    PubDropped { call: u32 },
    ProtoEnter { call: u32, kind: &'static str, pid: Option<u16> },
    ProtoExit { call: u32, answer: ProtoAnswer },
    ProtoDropped { call: u32 },
    CtlEnter { call: u32, what: String, stop: Option<StopClass>, detail: String },
    CtlExit { call: u32 },
    CtlDropped { call: u32 },
    SinkCall { op: u32, n: u32, what: String },
    SinkRet { op: u32, n: u32, res: SinkRes },
    /// the publish-ack callback (`publish_ack_cb`) was invoked
    AckCb { pid: u16, disconnected: bool },
    /// the connection task (server service call / client dispatcher) completed
    ConnDone(String),
    Note(String),
}

pub type Log = Vec<(u64, Ev)>;

#[derive(Default)]
struct GateInner {
    value: RefCell<Option<Outcome>>,
    waker: RefCell<Option<Waker>>,
    dropped: Cell<bool>,
}

/// one-shot gate a handler waits on; the controller opens it with an outcome
#[derive(Clone, Default)]
pub struct Gate(Rc<GateInner>);

impl Gate {
    pub fn open(&self, o: Outcome) {
        *self.0.value.borrow_mut() = Some(o);
        if let Some(w) = self.0.waker.borrow_mut().take() {
            w.wake();
        }
    }
    pub fn is_open(&self) -> bool {
        self.0.value.borrow().is_some()
    }
    pub fn wait(&self) -> GateWait {
        GateWait(self.0.clone())
    }
}

pub struct GateWait(Rc<GateInner>);

impl Future for GateWait {
    type Output = Outcome;
    fn poll(self: Pin<&mut Self>, cx: &mut Context<'_>) -> Poll<Outcome> {
        if let Some(v) = self.0.value.borrow().clone() {
            Poll::Ready(v)
        } else {
            *self.0.waker.borrow_mut() = Some(cx.waker().clone());
            Poll::Pending
        }
    }
}

impl Drop for GateWait {
    fn drop(&mut self) {
        self.0.dropped.set(true);
    }
}

/// scripted readiness of a user-supplied service (`Service::ready`)
#[derive(Debug, Clone, Copy, PartialEq, Eq)]
pub enum ReadyMode {
    /// ready at once (default)
    Ready,
    /// readiness fails with the application's error
    Fail,
    /// not ready until the controller changes the mode
    Wait,
}

pub const SVC_PUB: usize = 0;
pub const SVC_PROTO: usize = 1;
pub const SVC_CTL: usize = 2;

/// something a handler does with the sink *inside* its own invocation and awaits before it answers
#[derive(Debug, Clone, Copy, PartialEq, Eq)]
pub enum InnerOp {
    /// sink.publish(..).send_at_least_once(..).await
    SendQ1,
    /// sink.ready().await
    Ready,
}

#[derive(Debug, Clone, Copy, PartialEq, Eq, Hash, PartialOrd, Ord)]
pub enum GateKind {
    Pub,
    PubRead,
    Proto,
    Ctl,
    Handshake,
}

pub struct App {
    pub name: String,
    seq: Cell<u64>,
    log: Rc<RefCell<Log>>,
    calls: Cell<u32>,
    /// gates of handlers that are currently waiting, in creation order
    gates: RefCell<Vec<((GateKind, u32), Gate)>>,
    pub pub_plans: RefCell<VecDeque<PubPlan>>,
    pub pub_default: RefCell<PubPlan>,
    pub proto_plans: RefCell<VecDeque<ProtoPlan>>,
    pub proto_default: RefCell<ProtoPlan>,
    pub ctl_plans: RefCell<VecDeque<ControlPlan>>,
    pub ctl_default: RefCell<ControlPlan>,
    /// plan for Control::Stop specifically (falls back to ctl_default)
    pub stop_plan: RefCell<Option<ControlPlan>>,
    pub sink: RefCell<Option<crate::sink::Sink>>,
    pub done: Cell<bool>,
    /// number of publish handlers currently executing (between Enter and Exit/Dropped)
    pub pubs_running: Cell<u32>,
    pub pubs_running_max: Cell<u32>,
    /// sum of packet sizes of running publish handlers
    pub pub_bytes_running: Cell<u64>,
    pub pub_bytes_running_max: Cell<u64>,
    pub extra: RefCell<HashMap<String, String>>,
    /// every packet the scripted peer wrote with `Peer::send`, with the sequence number of its
    /// `PeerSent` event (universal monitors read the structured form)
    pub peer_pkts: RefCell<Vec<(u64, R)>>,
    /// the peer wrote bytes that are not (whole) logged packets: fragments, garbage, mutants
    pub raw_writes: Cell<bool>,
    /// the universal monitors have judged this connection already
    pub judged: Cell<bool>,
    /// scripted readiness of the publish / protocol / control services
    pub ready_mode: [Cell<ReadyMode>; 3],
    ready_gate: [RefCell<Gate>; 3],
    /// how often each service's `ready()` was asked / answered not-ready-yet
    pub ready_calls: [Cell<u32>; 3],
    /// inner operations the next publish / protocol handler invocations perform (front = next)
    pub pub_inner: RefCell<VecDeque<Option<InnerOp>>>,
    pub proto_inner: RefCell<VecDeque<Option<InnerOp>>>,
    /// MQTT 5: diagnostics every acknowledgement produced by the handlers carries
    /// (reason string, user properties)
    pub ack_decor: RefCell<Option<(Option<String>, Vec<(String, String)>)>>,
    /// the control service takes its time with every "write back-pressure enabled" notification:
    /// it stays pending until the controller opens its gate
    pub wr_on_gated: Cell<bool>,
    /// a planned refusal (`Outcome::Nack`) is applied to QoS 1/2 publishes only
    pub refusals_need_an_ack: Cell<bool>,
}

impl App {
    pub fn new(name: &str) -> Rc<App> {
        let app = Self::new_inner(name);
        // only the log (plain data) is kept for post-mortems: holding the App itself would
        // keep library objects alive beyond their runtime
        LAST_LOG.with(|l| *l.borrow_mut() = Some(app.log.clone()));
        app
    }

    /// log tail of the most recently created app on this thread (post-mortem of aborted scenarios)
    pub fn last_log_tail(max: usize) -> Vec<String> {
        LAST_LOG.with(|l| l.borrow().as_ref().map(|log| render_log(&log.borrow(), max)).unwrap_or_default())
    }

    fn new_inner(name: &str) -> Rc<App> {
        Rc::new(App {
            name: name.to_string(),
            seq: Cell::new(0),
            log: Rc::new(RefCell::new(Vec::new())),
            calls: Cell::new(0),
            gates: RefCell::new(Vec::new()),
            pub_plans: RefCell::new(VecDeque::new()),
            pub_default: RefCell::new(PubPlan::default()),
            proto_plans: RefCell::new(VecDeque::new()),
            proto_default: RefCell::new(ProtoPlan::default()),
            ctl_plans: RefCell::new(VecDeque::new()),
            ctl_default: RefCell::new(ControlPlan::default()),
            stop_plan: RefCell::new(None),
            sink: RefCell::new(None),
            done: Cell::new(false),
            pubs_running: Cell::new(0),
            pubs_running_max: Cell::new(0),
            pub_bytes_running: Cell::new(0),
            pub_bytes_running_max: Cell::new(0),
            extra: RefCell::new(HashMap::new()),
            peer_pkts: RefCell::new(Vec::new()),
            raw_writes: Cell::new(false),
            judged: Cell::new(false),
            ready_mode: [Cell::new(ReadyMode::Ready), Cell::new(ReadyMode::Ready), Cell::new(ReadyMode::Ready)],
            ready_gate: [RefCell::new(Gate::default()), RefCell::new(Gate::default()), RefCell::new(Gate::default())],
            ready_calls: [Cell::new(0), Cell::new(0), Cell::new(0)],
            pub_inner: RefCell::new(VecDeque::new()),
            proto_inner: RefCell::new(VecDeque::new()),
            ack_decor: RefCell::new(None),
            wr_on_gated: Cell::new(false),
            refusals_need_an_ack: Cell::new(false),
        })
    }

    pub fn log(&self, ev: Ev) -> u64 {
        let s = self.seq.get() + 1;
        self.seq.set(s);
        self.log.borrow_mut().push((s, ev));
        s
    }

    /// the scripted peer writes packet `p` now (possibly in fragments): log it in readable and in
    /// structured form
    pub fn log_peer(&self, p: &R) -> u64 {
        let seq = self.log(Ev::PeerSent(crate::map::brief(p)));
        self.peer_pkts.borrow_mut().push((seq, p.clone()));
        seq
    }

    /// change the scripted readiness of service `which` (SVC_PUB / SVC_PROTO / SVC_CTL); a
    /// `ready()` call that is waiting re-evaluates
    pub fn set_ready(&self, which: usize, mode: ReadyMode) {
        self.ready_mode[which].set(mode);
        let g = self.ready_gate[which].replace(Gate::default());
        g.open(Outcome::Ok);
    }

    /// body of `Service::ready` of the instrumented services: Ok(true) ready, Ok(false) failed
    pub async fn service_ready(&self, which: usize) -> bool {
        self.ready_calls[which].set(self.ready_calls[which].get() + 1);
        loop {
            match self.ready_mode[which].get() {
                ReadyMode::Ready => return true,
                ReadyMode::Fail => {
                    self.log(Ev::Note(format!("readiness of service {which} fails")));
                    return false;
                }
                ReadyMode::Wait => {
                    let g = self.ready_gate[which].borrow().clone();
                    g.wait().await;
                }
            }
        }
    }

    pub fn next_call(&self) -> u32 {
        let c = self.calls.get() + 1;
        self.calls.set(c);
        c
    }

    pub fn events(&self) -> std::cell::Ref<'_, Log> {
        self.log.borrow()
    }

    pub fn snapshot(&self) -> Log {
        self.log.borrow().clone()
    }

    pub fn len(&self) -> usize {
        self.log.borrow().len()
    }

    /// read mode of the plan the next publish handler will take
    pub fn peek_pub_read(&self) -> ReadMode {
        self.pub_plans.borrow().front().map(|p| p.read.clone()).unwrap_or_else(|| self.pub_default.borrow().read.clone())
    }

    pub fn take_pub_plan(&self) -> PubPlan {
        self.pub_plans.borrow_mut().pop_front().unwrap_or_else(|| self.pub_default.borrow().clone())
    }
    pub fn take_proto_plan(&self) -> ProtoPlan {
        self.proto_plans.borrow_mut().pop_front().unwrap_or_else(|| self.proto_default.borrow().clone())
    }
    pub fn take_ctl_plan(&self, is_stop: bool) -> ControlPlan {
        if is_stop {
            if let Some(p) = self.stop_plan.borrow().clone() {
                return p;
            }
        }
        self.ctl_plans.borrow_mut().pop_front().unwrap_or_else(|| self.ctl_default.borrow().clone())
    }

    /// create a gate for handler invocation `call`
    pub fn gate(&self, kind: GateKind, call: u32) -> Gate {
        let g = Gate::default();
        self.gates.borrow_mut().push(((kind, call), g.clone()));
        g
    }

    /// gates that some handler is waiting on right now (not yet opened, waiter alive)
    pub fn pending_gates(&self) -> Vec<(GateKind, u32)> {
        self.gates
            .borrow()
            .iter()
            .filter(|(_, g)| !g.is_open() && !g.0.dropped.get())
            .map(|(k, _)| *k)
            .collect()
    }

    pub fn open_gate(&self, key: (GateKind, u32), o: Outcome) -> bool {
        let g = self.gates.borrow().iter().find(|(k, g)| *k == key && !g.is_open()).map(|(_, g)| g.clone());
        match g {
            Some(g) => {
                g.open(o);
                true
            }
            None => false,
        }
    }

    /// open every pending gate (used at the end of scenarios); returns how many
    pub fn open_all(&self, o: Outcome) -> usize {
        let gs: Vec<Gate> = self.gates.borrow().iter().filter(|(_, g)| !g.is_open()).map(|(_, g)| g.clone()).collect();
        for g in &gs {
            g.open(o.clone());
        }
        gs.len()
    }

    pub fn pub_enter(&self, size: u64) {
        let n = self.pubs_running.get() + 1;
        self.pubs_running.set(n);
        if n > self.pubs_running_max.get() {
            self.pubs_running_max.set(n);
        }
        let b = self.pub_bytes_running.get() + size;
        self.pub_bytes_running.set(b);
        if b > self.pub_bytes_running_max.get() {
            self.pub_bytes_running_max.set(b);
        }
    }

    pub fn pub_leave(&self, size: u64) {
        self.pubs_running.set(self.pubs_running.get().saturating_sub(1));
        self.pub_bytes_running.set(self.pub_bytes_running.get().saturating_sub(size));
    }

    // ------------------------------------------------------------ log queries

    pub fn wire(&self) -> Vec<(u64, R)> {
        self.log.borrow().iter().filter_map(|(s, e)| if let Ev::Wire(p) = e { Some((*s, p.clone())) } else { None }).collect()
    }

    pub fn stops(&self) -> Vec<(u64, StopClass, String)> {
        self.log
            .borrow()
            .iter()
            .filter_map(|(s, e)| match e {
                Ev::CtlEnter { stop: Some(c), detail, .. } => Some((*s, c.clone(), detail.clone())),
                _ => None,
            })
            .collect()
    }

    pub fn count(&self, f: impl Fn(&Ev) -> bool) -> usize {
        self.log.borrow().iter().filter(|(_, e)| f(e)).count()
    }

    /// compact rendering of the log for witnesses
    pub fn render(&self, max: usize) -> Vec<String> {
        render_log(&self.log.borrow(), max)
    }

    /// hash of the ordered boundary events with payload bytes abstracted (trace signature)
    pub fn trace_signature(&self) -> u64 {
        let mut h: u64 = 0x9e3779b97f4a7c15;
        for (_, e) in self.log.borrow().iter() {
            let s = match e {
                Ev::Wire(p) => format!("W{}", p.name()),
                Ev::PeerSent(s) => format!("P{}", s.split('(').next().unwrap_or("")),
                Ev::PubEnter { qos, pid, .. } => format!("PE{qos}{pid:?}"),
                Ev::PubExit { outcome, .. } => format!("PX{outcome:?}"),
                Ev::PubDropped { .. } => "PD".into(),
                Ev::PubRead { res, .. } => format!("PR{}", res.is_ok()),
                Ev::PubPayload { .. } => "PP".into(),
                Ev::ProtoEnter { kind, pid, .. } => format!("QE{kind}{pid:?}"),
                Ev::ProtoExit { answer, .. } => format!("QX{answer:?}"),
                Ev::ProtoDropped { .. } => "QD".into(),
                Ev::CtlEnter { what, stop, .. } => format!("CE{what}{stop:?}"),
                Ev::CtlExit { .. } => "CX".into(),
                Ev::CtlDropped { .. } => "CD".into(),
                Ev::SinkCall { what, .. } => format!("SC{}", what.split(' ').next().unwrap_or("")),
                Ev::SinkRet { res, .. } => format!("SR{}", format!("{res:?}").split(['(', '{', ' ']).next().unwrap_or("")),
                Ev::AckCb { disconnected, .. } => format!("CB{disconnected}"),
                Ev::ConnDone(_) => "DONE".into(),
                Ev::WireGarbage(_) => "GARBAGE".into(),
                Ev::HandshakeEnter => "HE".into(),
                Ev::HandshakeExit(s) => format!("HX{s}"),
                Ev::Note(_) => continue,
            };
            h = crate::pool::mix(h, crate::pool::hash_str(&s));
        }
        h
    }
}

thread_local! {
    static LAST_LOG: RefCell<Option<Rc<RefCell<Log>>>> = const { RefCell::new(None) };
}

/// logs `Dropped` when a handler future is cancelled instead of running to completion
pub struct DropGuard {
    app: Rc<App>,
    kind: GateKind,
    call: u32,
    size: u64,
    armed: bool,
}

impl DropGuard {
    pub fn new(app: &Rc<App>, kind: GateKind, call: u32, size: u64) -> Self {
        if kind == GateKind::Pub {
            app.pub_enter(size);
        }
        DropGuard { app: app.clone(), kind, call, size, armed: true }
    }
    pub fn disarm(mut self) {
        self.armed = false;
        if self.kind == GateKind::Pub {
            self.app.pub_leave(self.size);
        }
    }
}

impl Drop for DropGuard {
    fn drop(&mut self) {
        if self.armed {
            match self.kind {
                GateKind::Pub => {
                    self.app.pub_leave(self.size);
                    self.app.log(Ev::PubDropped { call: self.call });
                }
                GateKind::Proto => {
                    self.app.log(Ev::ProtoDropped { call: self.call });
                }
                GateKind::Ctl => {
                    self.app.log(Ev::CtlDropped { call: self.call });
                }
                _ => {}
            }
        }
    }
}

#[derive(Debug, Clone)]
pub enum TestErr {
    Plain,
    Nack(u8),
    Init,
}

impl From<()> for TestErr {
    fn from(_: ()) -> Self {
        TestErr::Init
    }
}

impl TryFrom<TestErr> for ntex_mqtt::v5::PublishAck {
    type Error = TestErr;
    fn try_from(e: TestErr) -> Result<Self, TestErr> {
        match e {
            TestErr::Nack(code) => match ntex_mqtt::v5::codec::PublishAckReason::try_from(code) {
                Ok(c) => Ok(ntex_mqtt::v5::PublishAck::new(c)),
                Err(_) => Err(TestErr::Plain),
            },
            other => Err(other),
        }
    }
}

pub fn render_log(log: &Log, max: usize) -> Vec<String> {
    let skip = log.len().saturating_sub(max);
    log.iter()
        .skip(skip)
        .map(|(s, e)| {
            let t = match e {
                Ev::Wire(p) => format!("<- {}", crate::map::brief(p)),
                Ev::PubPayload { call, bytes } => format!("PubPayload call={call} {}B", bytes.len()),
                other => {
                    let mut s = format!("{other:?}");
                    if s.len() > 220 {
                        let cut = s.char_indices().take(220).last().map(|x| x.0).unwrap_or(0);
                        s.truncate(cut);
                        s.push('…');
                    }
                    s
                }
            };
            format!("{s:>4} {t}")
        })
        .collect()
}
