//! Verdict bookkeeping: evidence files, replay files, known findings, exit codes.
//!
//! exit 0  = nothing violated on everything explored and the minimum-observation thresholds met
//! exit 1  = at least one violation whose signature is not an *open* known finding
//!           (each printed as `VIOLATION property=<id> replay=<path>`)
//! exit 2  = inconclusive / infrastructure problem (never prints VIOLATION)
use std::collections::{BTreeMap, HashMap, HashSet};
use std::path::PathBuf;
use std::sync::Mutex;
use std::sync::atomic::{AtomicU64, Ordering};
use std::time::Instant;

use serde_json::{Value, json};

use crate::pool::hash_str;

pub const VERIF_DIR: &str = "/verif";

#[derive(Clone, Copy, PartialEq, Eq, Debug)]
pub enum Tier {
    Quick,
    Thorough,
}

impl Tier {
    pub fn name(self) -> &'static str {
        match self {
            Tier::Quick => "quick",
            Tier::Thorough => "thorough",
        }
    }
    pub fn pick<T>(self, quick: T, thorough: T) -> T {
        match self {
            Tier::Quick => quick,
            Tier::Thorough => thorough,
        }
    }
}

#[derive(Clone, Debug)]
pub struct Violation {
    /// stable identity used for de-duplication and for matching known findings
    pub signature: String,
    /// human description of what was observed
    pub what: String,
    /// everything needed to re-execute the scenario
    pub replay: Value,
}

pub struct Opts {
    pub prop: String,
    pub tier: Tier,
    pub seed: u64,
    pub replay: Option<PathBuf>,
    pub hooks: bool,
    pub build: String,
    /// scale factor for workloads (VERIF_SCALE, default 1.0)
    pub scale: f64,
    pub extra: Vec<String>,
    /// cross mode: this run executes the workload of check `cross` only to let the universal
    /// monitors judge property `prop` on it (the workload's own oracle is not reported)
    pub cross: Option<String>,
}

/// what the cross-mode runs of this process did (merged into the evidence of the main run)
static CROSS_RUNS: Mutex<Vec<Value>> = Mutex::new(Vec::new());

pub struct Report {
    pub prop: String,
    pub tier: Tier,
    pub seed: u64,
    pub level: &'static str,
    pub rule: String,
    pub t0: Instant,
    pub hooks: bool,
    pub build: String,
    pub cross: Option<String>,
    evaluations: AtomicU64,
    /// violations that cost a whole step budget each (live-locks)
    expensive: AtomicU64,
    distinct: Mutex<HashSet<u64>>,
    samples: Mutex<Vec<Value>>,
    counters: Mutex<BTreeMap<String, u64>>,
    maxima: Mutex<BTreeMap<String, u64>>,
    sets: Mutex<BTreeMap<String, HashSet<String>>>,
    violations: Mutex<HashMap<String, (Violation, u64)>>,
    inconclusive: Mutex<Vec<String>>,
    notes: Mutex<Vec<String>>,
    assumptions: Mutex<Vec<String>>,
    exhaustive: Mutex<Option<bool>>,
    extra: Mutex<BTreeMap<String, Value>>,
    /// minimum-observation thresholds: (counter name, minimum)
    thresholds: Mutex<Vec<(String, u64)>>,
}

impl Report {
    pub fn new(opts: &Opts, level: &'static str, rule: &str) -> Self {
        // the evidence schema only knows these levels
        assert!(matches!(level, "exploration" | "fault_enumeration" | "model_checking" | "proof" | "translation_validation" | "other"), "unknown level {level}");
        *crate::pool::RUNNING.lock().unwrap() = Some((opts.prop.clone(), opts.tier.name().to_string(), opts.seed, opts.cross.is_some()));
        Report {
            prop: opts.prop.clone(),
            tier: opts.tier,
            seed: opts.seed,
            level,
            rule: rule.to_string(),
            t0: Instant::now(),
            hooks: opts.hooks,
            build: opts.build.clone(),
            cross: opts.cross.clone(),
            evaluations: AtomicU64::new(0),
            expensive: AtomicU64::new(0),
            distinct: Mutex::new(HashSet::new()),
            samples: Mutex::new(Vec::new()),
            counters: Mutex::new(BTreeMap::new()),
            maxima: Mutex::new(BTreeMap::new()),
            sets: Mutex::new(BTreeMap::new()),
            violations: Mutex::new(HashMap::new()),
            inconclusive: Mutex::new(Vec::new()),
            notes: Mutex::new(Vec::new()),
            assumptions: Mutex::new(Vec::new()),
            exhaustive: Mutex::new(None),
            extra: Mutex::new(BTreeMap::new()),
            thresholds: Mutex::new(Vec::new()),
        }
    }

    pub fn eval(&self) {
        self.evaluations.fetch_add(1, Ordering::Relaxed);
    }
    pub fn evals(&self, n: u64) {
        self.evaluations.fetch_add(n, Ordering::Relaxed);
    }
    pub fn evaluations(&self) -> u64 {
        self.evaluations.load(Ordering::Relaxed)
    }
    /// register a distinct non-trivial case by its hash
    pub fn distinct(&self, h: u64) {
        self.distinct.lock().unwrap().insert(h);
    }
    pub fn distinct_many(&self, hs: impl IntoIterator<Item = u64>) {
        let mut g = self.distinct.lock().unwrap();
        for h in hs {
            g.insert(h);
        }
    }
    pub fn distinct_count(&self) -> usize {
        self.distinct.lock().unwrap().len()
    }
    /// keep up to `cap` samples
    pub fn sample(&self, cap: usize, f: impl FnOnce() -> Value) {
        let mut g = self.samples.lock().unwrap();
        if g.len() < cap {
            g.push(f());
        }
    }
    pub fn count(&self, name: &str, n: u64) {
        *self.counters.lock().unwrap().entry(name.to_string()).or_insert(0) += n;
    }
    pub fn merge_counts(&self, m: &BTreeMap<String, u64>) {
        let mut g = self.counters.lock().unwrap();
        for (k, v) in m {
            *g.entry(k.clone()).or_insert(0) += *v;
        }
    }
    pub fn counter(&self, name: &str) -> u64 {
        self.counters.lock().unwrap().get(name).copied().unwrap_or(0)
    }
    pub fn max(&self, name: &str, v: u64) {
        let mut g = self.maxima.lock().unwrap();
        let e = g.entry(name.to_string()).or_insert(0);
        if v > *e {
            *e = v;
        }
    }
    /// add a member to a named set of distinct observations (kept as strings, capped)
    pub fn observe(&self, set: &str, member: &str) {
        let mut g = self.sets.lock().unwrap();
        let s = g.entry(set.to_string()).or_default();
        if s.len() < 4096 {
            s.insert(member.to_string());
        }
    }
    pub fn violation(&self, mut v: Violation) {
        if self.cross.is_some() {
            // cross mode: only the universal monitors of the target property are reported
            self.count("cross_workload_own_oracle_violations(ignored here)", 1);
            return;
        }
        // which case of which parallel loop produced it (generic replay: `--replay` re-runs that case)
        let (phase, index) = crate::pool::current_case();
        if phase != u64::MAX {
            if let Value::Object(m) = &mut v.replay {
                m.insert("_case".into(), json!({"phase": phase, "index": index}));
            } else {
                v.replay = json!({"input": v.replay, "_case": {"phase": phase, "index": index}});
            }
        }
        // a panic raised by the harness's own code (its location is a path inside this crate, the
        // library's frames are named by symbol) says nothing about the property: inconclusive
        if v.signature.contains("panic@src/") {
            self.inconclusive(format!("harness error: {} — {}", v.signature, v.what));
            return;
        }
        if v.signature.contains("live-lock") && self.expensive.fetch_add(1, Ordering::Relaxed) + 1 >= 32 && !crate::pool::gave_up() {
            crate::pool::give_up();
            self.note("exploration stopped early: 32 scenarios ran into the step budget (live-lock); the verdict does not depend on the rest");
        }
        let mut g = self.violations.lock().unwrap();
        match g.get_mut(&v.signature) {
            Some(e) => e.1 += 1,
            None => {
                g.insert(v.signature.clone(), (v, 1));
            }
        }
    }
    pub fn violation_count(&self) -> usize {
        self.violations.lock().unwrap().len()
    }
    pub fn inconclusive(&self, why: impl Into<String>) {
        let mut g = self.inconclusive.lock().unwrap();
        if g.len() < 200 {
            g.push(why.into());
        } else {
            self.count("inconclusive_overflow", 1);
        }
    }
    pub fn note(&self, s: impl Into<String>) {
        self.notes.lock().unwrap().push(s.into());
    }
    pub fn assume(&self, s: impl Into<String>) {
        self.assumptions.lock().unwrap().push(s.into());
    }
    pub fn set_exhaustive(&self, e: bool) {
        *self.exhaustive.lock().unwrap() = Some(e);
    }
    pub fn extra(&self, k: &str, v: Value) {
        self.extra.lock().unwrap().insert(k.to_string(), v);
    }
    /// the run is inconclusive (exit 2) unless counter `name` reaches `min`
    pub fn require(&self, name: &str, min: u64) {
        if self.cross.is_some() {
            return;
        }
        self.thresholds.lock().unwrap().push((name.to_string(), min));
    }

    /// Write evidence + replay files, print verdict lines, return the process exit code.
    pub fn finish(self) -> i32 {
        let wall = self.t0.elapsed().as_secs_f64();
        if let Some(m) = &self.cross {
            let inc = self.inconclusive.lock().unwrap().len();
            CROSS_RUNS.lock().unwrap().push(json!({
                "workload_of": m, "scenarios": self.evaluations.load(Ordering::Relaxed),
                "distinct": self.distinct.lock().unwrap().len(), "inconclusive": inc,
                "wall_s": (wall * 10.0).round() / 10.0,
            }));
            return 0;
        }
        // universal monitors (harness/src/universal.rs): findings for this property become
        // violations; findings for other properties are only counted (their own checks report them)
        let mut other_props: BTreeMap<String, u64> = BTreeMap::new();
        for f in crate::universal::take_found() {
            if f.prop == self.prop {
                let v = Violation {
                    signature: f.signature.clone(),
                    what: f.what.clone(),
                    replay: json!({"log": f.log, "_case": {"phase": f.phase, "index": f.index}, "monitor": "universal"}),
                };
                let mut g = self.violations.lock().unwrap();
                match g.get_mut(&v.signature) {
                    Some(e) => e.1 += 1,
                    None => {
                        g.insert(v.signature.clone(), (v, 1));
                    }
                }
            } else {
                *other_props.entry(f.prop.to_string()).or_insert(0) += 1;
            }
        }
        let ucounts = crate::universal::take_counts();
        let cross_runs: Vec<Value> = std::mem::take(&mut *CROSS_RUNS.lock().unwrap());
        if !ucounts.is_empty() {
            self.extra("universal_monitors", json!({
                "what": "scenario-independent rules evaluated on every connection of every scenario (own workload and cross workloads)",
                "counters": ucounts,
                "cross_workloads": cross_runs,
                "findings_attributed_to_other_properties(info)": other_props,
            }));
        }
        let known = KnownFindings::load();
        let violations = self.violations.into_inner().unwrap();
        let mut unlisted = Vec::new();
        let mut listed = Vec::new();
        let mut vio_json = Vec::new();
        let replay_dir = PathBuf::from(VERIF_DIR).join("out/replay");
        let _ = std::fs::create_dir_all(&replay_dir);
        let mut sigs: Vec<&String> = violations.keys().collect();
        sigs.sort();
        for sig in sigs {
            let (v, n) = &violations[sig];
            let path =
                replay_dir.join(format!("{}-{:016x}.json", self.prop, hash_str(&v.signature)));
            let body = json!({
                "property": self.prop, "seed": self.seed, "tier": self.tier.name(),
                "signature": v.signature, "what": v.what, "occurrences": n, "replay": v.replay,
            });
            let _ = std::fs::write(&path, serde_json::to_string_pretty(&body).unwrap());
            let status = known.status(&self.prop, &v.signature);
            vio_json.push(json!({"signature": v.signature, "what": v.what, "occurrences": n,
                "known_finding": status == Some("open"), "replay": path.to_string_lossy()}));
            if status == Some("open") {
                listed.push((v.clone(), path));
            } else {
                unlisted.push((v.clone(), path, status.map(str::to_string)));
            }
        }

        let evaluations = self.evaluations.load(Ordering::Relaxed);
        let distinct = self.distinct.into_inner().unwrap().len() as u64;
        let counters = self.counters.into_inner().unwrap();
        let inconclusive = self.inconclusive.into_inner().unwrap();
        let mut short: Vec<String> = Vec::new();
        for (name, min) in self.thresholds.into_inner().unwrap() {
            let have = counters.get(&name).copied().unwrap_or(0);
            if have < min {
                short.push(format!("observed {name}={have} < required {min}"));
            }
        }
        if evaluations == 0 {
            short.push("no scenario was executed".into());
        }
        let sets = self.sets.into_inner().unwrap();
        let mut sets_json = serde_json::Map::new();
        for (k, s) in &sets {
            let mut v: Vec<&String> = s.iter().collect();
            v.sort();
            let shown: Vec<&String> = v.iter().take(64).copied().collect();
            sets_json.insert(k.clone(), json!({"count": s.len(), "members": shown}));
        }
        let mut coverage = serde_json::Map::new();
        coverage.insert("evaluations".into(), json!(evaluations));
        coverage.insert("distinct_nontrivial".into(), json!(distinct));
        coverage.insert("rule".into(), json!(self.rule));
        coverage.insert("samples".into(), json!(self.samples.into_inner().unwrap()));
        if let Some(e) = self.exhaustive.into_inner().unwrap() {
            coverage.insert("exhaustive".into(), json!(e));
        }
        coverage.insert("counters".into(), json!(counters));
        coverage.insert("maxima".into(), json!(self.maxima.into_inner().unwrap()));
        coverage.insert("observed_sets".into(), Value::Object(sets_json));
        coverage.insert("inconclusive".into(), json!(inconclusive.len()));
        coverage.insert("inconclusive_reasons".into(), json!(inconclusive.iter().take(20).collect::<Vec<_>>()));
        coverage.insert("thresholds_missed".into(), json!(short));
        coverage.insert("hooks".into(), json!(self.hooks));
        coverage.insert("build".into(), json!(self.build));
        coverage.insert("violations_detail".into(), json!(vio_json));
        coverage.insert("notes".into(), json!(self.notes.into_inner().unwrap()));
        for (k, v) in self.extra.into_inner().unwrap() {
            coverage.insert(k, v);
        }
        let evidence = json!({
            "property_id": self.prop,
            "tier": self.tier.name(),
            "seed": self.seed,
            "level": self.level,
            "coverage": Value::Object(coverage),
            "assumptions": self.assumptions.into_inner().unwrap(),
            "wall_s": (wall * 1000.0).round() / 1000.0,
            "violations": unlisted.len(),
            "known_findings_reproduced": listed.len(),
        });
        // sanitizer stages run a sample of the same check: their result goes to out/sanit, the
        // minimum-observation thresholds of the full run do not apply to them
        let sanitizer = std::env::var("VERIF_SANITIZER").ok().or_else(|| crate::pool::replay_only().map(|_| "replay".to_string()));
        let edir = match &sanitizer {
            Some(_) => PathBuf::from(VERIF_DIR).join("out/sanit"),
            None => PathBuf::from(VERIF_DIR).join("evidence"),
        };
        let _ = std::fs::create_dir_all(&edir);
        let fname = match &sanitizer {
            Some(t) => format!("{}-{}-{}", self.prop, t, crate::pool::stride().1),
            None => self.prop.clone(),
        };
        if sanitizer.is_some() {
            short.clear();
        }
        let epath = edir.join(format!("{fname}.json"));
        let tmp = edir.join(format!(".{fname}.json.tmp"));
        std::fs::write(&tmp, serde_json::to_string_pretty(&evidence).unwrap()).unwrap();
        std::fs::rename(&tmp, &epath).unwrap();

        for (v, _p) in &listed {
            println!("KNOWN-FINDING: property={} {}", self.prop, known.what(&self.prop, &v.signature).unwrap_or(v.what.clone()));
        }
        for (v, p, status) in &unlisted {
            if status.as_deref() == Some("fixed") {
                println!("note: signature of a finding recorded as fixed has returned: {}", v.signature);
            }
            println!("VIOLATION property={} replay={}", self.prop, p.display());
            println!("  signature: {}", v.signature);
            println!("  what: {}", v.what);
            if crate::pool::replay_only().is_some() {
                if let Some(log) = v.replay.get("log").and_then(|l| l.as_array()) {
                    for l in log {
                        println!("    {}", l.as_str().unwrap_or(""));
                    }
                }
            }
        }
        println!(
            "{} {}: evaluations={} distinct={} violations={} known_findings={} inconclusive={} wall={:.1}s",
            self.prop,
            self.tier.name(),
            evaluations,
            distinct,
            unlisted.len(),
            listed.len(),
            inconclusive.len(),
            wall
        );
        if !unlisted.is_empty() {
            1
        } else if !short.is_empty() {
            for s in &short {
                println!("INCONCLUSIVE: {s}");
            }
            2
        } else {
            0
        }
    }
}

pub struct KnownFindings {
    entries: Vec<(String, String, String, String)>, // property, signature, status, what
}

impl KnownFindings {
    pub fn load() -> Self {
        let p = PathBuf::from(VERIF_DIR).join("known_findings.json");
        let mut entries = Vec::new();
        if let Ok(s) = std::fs::read_to_string(&p) {
            if let Ok(v) = serde_json::from_str::<Value>(&s) {
                if let Some(arr) = v.get("findings").and_then(Value::as_array) {
                    for e in arr {
                        let g = |k: &str| e.get(k).and_then(Value::as_str).unwrap_or("").to_string();
                        entries.push((g("property"), g("signature"), g("status"), g("what_fails")));
                    }
                }
            }
        }
        KnownFindings { entries }
    }
    pub fn status(&self, prop: &str, sig: &str) -> Option<&str> {
        // an open entry wins over a fixed one with the same signature (should not happen)
        let mut st = None;
        for (p, s, status, _) in &self.entries {
            if p == prop && s == sig {
                if status == "open" {
                    return Some("open");
                }
                st = Some(status.as_str());
            }
        }
        st
    }
    pub fn what(&self, prop: &str, sig: &str) -> Option<String> {
        self.entries
            .iter()
            .find(|(p, s, st, _)| p == prop && s == sig && st == "open")
            .map(|e| format!("[{}] {}", e.1, e.3))
    }
}
