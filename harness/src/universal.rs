//! Universal monitors: oracles that are sound for *every* connection-level scenario, whatever
//! the workload was built for.
//!
//! Each connection-level check drives its own kind of scenario and judges it with its own
//! oracle. The monitors here are the scenario-independent core of several of those oracles,
//! written so that they need no knowledge of what the scenario intended: they read only the
//! boundary log (packets the scripted peer wrote, packets the endpoint wrote, handler enter /
//! exit events, control messages) and the connection's configuration. `Conn::finish()` runs all
//! of them on every connection of every scenario; a finding is attributed to the property the
//! rule belongs to. A check for property P therefore sees its rule evaluated
//!   * on its own workload (a second, independent implementation of the core rule), and
//!   * in *cross mode* on the workloads of all the other connection-level checks (`props::run`),
//!     which is where combinations live that P's own generator does not produce (P's rule under
//!     Q's workload).
//!
//! Soundness discipline: every rule is a *lower bound* or a *necessary condition* that holds for
//! any correct endpoint regardless of what the peer or the application did; where a rule needs a
//! premise (structured peer packets only, awaiting send APIs only, ...) the premise is checked
//! from the log and the rule is skipped (and counted as skipped) when it does not hold.
use std::cell::RefCell;
use std::collections::{BTreeMap, HashMap};
use std::sync::Mutex;

use crate::app::{App, Ev, Outcome, ProtoAnswer};
use crate::conn::{Conn, ConnCfg, Role};
use crate::refcodec::{Packet as R, Prop};

#[derive(Clone, Debug)]
pub struct Finding {
    pub prop: &'static str,
    pub signature: String,
    pub what: String,
    pub log: Vec<String>,
    pub phase: u64,
    pub index: u64,
}

thread_local! {
    static FOUND: RefCell<Vec<Finding>> = const { RefCell::new(Vec::new()) };
    static COUNTS: RefCell<BTreeMap<String, u64>> = const { RefCell::new(BTreeMap::new()) };
}

static ALL_FOUND: Mutex<Vec<Finding>> = Mutex::new(Vec::new());
static ALL_COUNTS: Mutex<BTreeMap<String, u64>> = Mutex::new(BTreeMap::new());

fn count(name: &str, n: u64) {
    if n > 0 {
        COUNTS.with(|c| *c.borrow_mut().entry(name.to_string()).or_insert(0) += n);
    }
}

fn maxc(name: &str, v: u64) {
    COUNTS.with(|c| {
        let mut g = c.borrow_mut();
        let e = g.entry(format!("max:{name}")).or_insert(0);
        if v > *e {
            *e = v;
        }
    });
}

/// forget what the previous scenario on this thread left behind (it may have been aborted)
pub fn reset_thread() {
    FOUND.with(|f| f.borrow_mut().clear());
}

/// called by the worker pool after every case: move this thread's findings to the global list
pub fn flush_case(phase: u64, index: u64) {
    let found: Vec<Finding> = FOUND.with(|f| std::mem::take(&mut *f.borrow_mut()));
    if !found.is_empty() {
        let mut g = ALL_FOUND.lock().unwrap();
        for mut x in found {
            x.phase = phase;
            x.index = index;
            if g.len() < 20_000 {
                g.push(x);
            }
        }
    }
    let counts: BTreeMap<String, u64> = COUNTS.with(|c| std::mem::take(&mut *c.borrow_mut()));
    if !counts.is_empty() {
        let mut g = ALL_COUNTS.lock().unwrap();
        for (k, v) in counts {
            if let Some(name) = k.strip_prefix("max:") {
                let e = g.entry(format!("max:{name}")).or_insert(0);
                if v > *e {
                    *e = v;
                }
            } else {
                *g.entry(k).or_insert(0) += v;
            }
        }
    }
}

/// findings collected so far (all properties)
pub fn take_found() -> Vec<Finding> {
    std::mem::take(&mut *ALL_FOUND.lock().unwrap())
}

pub fn take_counts() -> BTreeMap<String, u64> {
    std::mem::take(&mut *ALL_COUNTS.lock().unwrap())
}

/// send window in force on this connection (None: unknown / unlimited — rule skipped)
pub fn send_cap(cfg: &ConnCfg) -> Option<u64> {
    let configured = cfg.max_send as u64;
    let cap = match cfg.role {
        Role::V3Server => cfg.hs.max_send.map(u64::from).unwrap_or(configured),
        Role::V5Server => {
            let own = cfg.hs.max_send.map(u64::from).unwrap_or(configured);
            match cfg.peer_receive_max {
                Some(r) => own.min(r as u64),
                None => own,
            }
        }
        Role::V3Client => configured,
        Role::V5Client => {
            let rm = cfg.connack_props.iter().find_map(|p| if let Prop::U16(0x21, v) = p { Some(*v as u64) } else { None });
            match rm {
                Some(r) => configured.min(r),
                None => configured,
            }
        }
    };
    if cap == 0 { None } else { Some(cap) }
}

enum T<'a> {
    /// the peer wrote this packet
    In(&'a R),
    /// the endpoint wrote this packet
    Out(&'a R),
    Ev(&'a Ev),
}

fn success_code(code: &Option<u8>) -> bool {
    code.unwrap_or(0) < 0x80
}

/// Run every universal monitor over one finished (or finishing) connection.
pub fn judge(c: &Conn) {
    let app: &App = &c.app;
    let role = c.role;
    let v5 = role.is_v5();
    let log = app.events();
    let peer_pkts = app.peer_pkts.borrow();
    let raw = app.raw_writes.get();
    let noblock = crate::sink::NOBLOCK_USED.with(|c| c.get());
    let mut found: Vec<(&'static str, String, String)> = Vec::new();
    count("connections_judged", 1);

    // merged timeline in log order
    let mut by_seq: HashMap<u64, &R> = HashMap::new();
    for (s, p) in peer_pkts.iter() {
        by_seq.insert(*s, p);
    }
    let mut tl: Vec<T> = Vec::with_capacity(log.len());
    for (s, e) in log.iter() {
        match e {
            Ev::Wire(p) => tl.push(T::Out(p)),
            Ev::PeerSent(_) => {
                if let Some(p) = by_seq.get(s) {
                    tl.push(T::In(p));
                }
            }
            other => tl.push(T::Ev(other)),
        }
    }

    // ------------------------------------------------------------------ C08: the stream parses
    if let Some(g) = &c.peer.garbage {
        found.push(("C08", "byte stream written by the endpoint does not parse as MQTT packets".into(), format!("reference stream decoder: {g}")));
    }
    count("u08_streams_parsed", 1);
    count("u08_packets_parsed", c.peer.packets_read as u64);

    // ------------------------------------------------------------------ C15: DISCONNECT once, last
    if v5 {
        let mut n = 0;
        let mut after = 0;
        for t in &tl {
            if let T::Out(p) = t {
                if n > 0 {
                    after += 1;
                }
                if matches!(p, R::Disconnect { .. }) {
                    n += 1;
                }
            }
        }
        if n > 0 {
            count("u15_connections_with_own_disconnect", 1);
        }
        if n > 1 {
            found.push(("C15", "more than one DISCONNECT written on one connection".into(), format!("{n} DISCONNECT packets")));
        } else if after > 0 {
            found.push(("C15", "packet written after the endpoint's own DISCONNECT".into(), format!("{after} packet(s) after DISCONNECT")));
        }
    }

    // ------------------------------------------------------------------ C07: Stop at most once
    {
        let stops = log.iter().filter(|(_, e)| matches!(e, Ev::CtlEnter { stop: Some(_), .. })).count();
        if stops > 0 {
            count("u07_connections_with_stop", 1);
        }
        if stops > 1 {
            found.push(("C07", "control service received more than one Stop notification".into(), format!("{stops} Stop notifications")));
        }
    }

    // ------------------------------------------------------------------ C19: nothing before the handshake accepted
    if role.is_server() {
        let mut accepted = false;
        let mut early = None;
        for t in &tl {
            match t {
                T::Ev(Ev::HandshakeExit(s)) if s == "accept" => accepted = true,
                T::Ev(Ev::PubEnter { .. }) if !accepted => early = Some("publish handler"),
                T::Ev(Ev::ProtoEnter { .. }) if !accepted => early = Some("protocol handler"),
                _ => {}
            }
        }
        count("u19_server_connections", 1);
        if let Some(h) = early {
            found.push(("C19", format!("{h} invoked before the handshake service accepted a CONNECT"), String::new()));
        }
    }

    // ------------------------------------------------------------------ C05: window (peer-side lower bound)
    match send_cap(&c.cfg) {
        Some(cap) if !noblock && !raw => {
            let mut out: u64 = 0;
            let mut max_out: u64 = 0;
            let mut samples = 0u64;
            // ids the peer has been sent and not finally acknowledged (multiset by id)
            let mut open: HashMap<u16, u32> = HashMap::new();
            for t in &tl {
                match t {
                    T::Out(R::Publish { qos, pid: Some(id), .. }) if *qos > 0 => {
                        *open.entry(*id).or_insert(0) += 1;
                        out += 1;
                        samples += 1;
                        if out > max_out {
                            max_out = out;
                        }
                    }
                    T::In(R::PubAck { pid, .. }) | T::In(R::PubComp { pid, .. }) => {
                        if let Some(n) = open.get_mut(pid) {
                            if *n > 0 {
                                *n -= 1;
                                out -= 1;
                            }
                        }
                    }
                    T::In(R::PubRec { pid, code, .. }) if !success_code(code) => {
                        if let Some(n) = open.get_mut(pid) {
                            if *n > 0 {
                                *n -= 1;
                                out -= 1;
                            }
                        }
                    }
                    _ => {}
                }
            }
            count("u05_window_samples", samples);
            maxc("u05_outstanding_seen", max_out);
            if max_out > cap {
                found.push(("C05", format!("window exceeded: {max_out} unacknowledged QoS>0 PUBLISH at the peer, limit {cap}"), String::new()));
            }
        }
        _ => count("u05_skipped(no-block API, raw peer bytes or unlimited)", 1),
    }

    // ------------------------------------------------------------------ C14: PUBREL only after PUBREC, once per PUBLISH
    {
        let mut recs: HashMap<u16, i64> = HashMap::new();
        let mut pubs: HashMap<u16, i64> = HashMap::new();
        let mut rels = 0u64;
        for t in &tl {
            match t {
                T::Out(R::Publish { qos: 2, pid: Some(id), .. }) => *pubs.entry(*id).or_insert(0) += 1,
                T::In(R::PubRec { pid, code, .. }) if success_code(code) => *recs.entry(*pid).or_insert(0) += 1,
                T::Out(R::PubRel { pid, .. }) => {
                    rels += 1;
                    let p = pubs.entry(*pid).or_insert(0);
                    *p -= 1;
                    if *p < 0 {
                        found.push(("C14", "more PUBREL packets than exactly-once PUBLISH packets written for one packet identifier".into(), format!("id {pid}")));
                        *p = 0;
                    }
                    if !raw {
                        let r = recs.entry(*pid).or_insert(0);
                        *r -= 1;
                        if *r < 0 {
                            found.push(("C14", "PUBREL written although the peer has not sent a (successful) PUBREC for that packet identifier".into(), format!("id {pid}")));
                            *r = 0;
                        }
                    }
                }
                _ => {}
            }
        }
        count("u14_pubrel_checked", rels);
    }

    // ------------------------------------------------------------------ C11: an identifier in use is not delivered again
    // Lower bound of "in use": a QoS 1 identifier at least until its handler has ended (the
    // PUBACK cannot be produced earlier); a QoS 2 identifier at least until its handler has ended
    // *and* the exchange was completed (the peer's PUBREL / the endpoint's PUBCOMP or failing
    // PUBREC has been seen) - with unstructured peer bytes only the first half is used.
    {
        // id -> (call, qos, handler ended, a PUBREL was accepted while this QoS 1 exchange was open)
        let mut in_use: HashMap<u16, (u32, u8, bool, bool)> = HashMap::new();
        // PUBRELs the peer has sent per id (logged when they are written, possibly long before
        // the endpoint gets to them) and exchanges completed per id
        let mut rel_seen: HashMap<u16, u32> = HashMap::new();
        let mut rel_used: HashMap<u16, u32> = HashMap::new();
        // running PUBREL handlers: call -> id
        let mut rel_calls: HashMap<u32, u16> = HashMap::new();
        let mut checked = 0u64;
        macro_rules! settle_q2 {
            ($id:expr) => {{
                let id: u16 = $id;
                if in_use.get(&id).is_some_and(|e| e.1 == 2 && e.2) && rel_seen.get(&id).copied().unwrap_or(0) > rel_used.get(&id).copied().unwrap_or(0) {
                    in_use.remove(&id);
                    *rel_used.entry(id).or_insert(0) += 1;
                }
            }};
        }
        for t in &tl {
            match t {
                T::Ev(Ev::PubEnter { call, pid: Some(id), qos, .. }) if *qos > 0 => {
                    checked += 1;
                    if let Some((_, q, ended, stray)) = in_use.get(id) {
                        found.push((
                            "C11",
                            if *stray {
                                // known finding (DESIGN.md §10.2): the library keeps one set of identifiers for
                                // all kinds of exchanges, a PUBREL releases whatever exchange holds the identifier
                                "publish delivered while its identifier is held by a QoS 1 exchange that a PUBREL of the peer had released".to_string()
                            } else {
                                format!("publish delivered to a handler while its packet identifier is still in use (QoS {q} exchange, handler {})", if *ended { "ended, exchange not completed" } else { "still running" })
                            },
                            format!("id {id}"),
                        ));
                    }
                    in_use.insert(*id, (*call, *qos, false, false));
                }
                T::Ev(Ev::PubExit { call, .. }) | T::Ev(Ev::PubDropped { call }) => {
                    let id = in_use.iter().find_map(|(id, (c, _, _, _))| (c == call).then_some(*id));
                    if let Some(id) = id {
                        let e = in_use.get_mut(&id).unwrap();
                        if e.1 == 1 || raw {
                            in_use.remove(&id);
                        } else {
                            e.2 = true;
                            settle_q2!(id);
                        }
                    }
                }
                T::In(R::PubRel { pid, .. }) => {
                    *rel_seen.entry(*pid).or_insert(0) += 1;
                    settle_q2!(*pid);
                }
                // the endpoint accepted a PUBREL (the identifier is not always logged): every open
                // QoS 1 exchange may have been the one it released
                T::Ev(Ev::ProtoEnter { call, kind, pid }) if *kind == "pubrel" => {
                    match pid {
                        Some(id) => {
                            rel_calls.insert(*call, *id);
                            if let Some(e) = in_use.get_mut(id) {
                                if e.1 == 1 {
                                    e.3 = true;
                                }
                            }
                        }
                        None => {
                            for e in in_use.values_mut() {
                                if e.1 == 1 {
                                    e.3 = true;
                                }
                            }
                        }
                    }
                }
                // the PUBREL handler has returned: the PUBCOMP is produced (it may be written
                // later, behind earlier responses), the QoS 2 exchange is over
                T::Ev(Ev::ProtoExit { call, .. }) => {
                    if let Some(id) = rel_calls.remove(call) {
                        if in_use.get(&id).is_some_and(|e| e.1 == 2) {
                            in_use.remove(&id);
                            let u = rel_used.entry(id).or_insert(0);
                            if *u < rel_seen.get(&id).copied().unwrap_or(0) {
                                *u += 1;
                            }
                        }
                    }
                }
                T::Out(R::PubComp { pid, .. }) => {
                    if in_use.get(pid).is_some_and(|e| e.1 == 2) {
                        in_use.remove(pid);
                        let u = rel_used.entry(*pid).or_insert(0);
                        if *u < rel_seen.get(pid).copied().unwrap_or(0) {
                            *u += 1;
                        }
                    }
                }
                T::Out(R::PubRec { pid, code, .. }) if !success_code(code) => {
                    in_use.remove(pid);
                }
                T::Out(R::PubAck { pid, .. }) => {
                    if in_use.get(pid).is_some_and(|e| e.1 == 1) {
                        in_use.remove(pid);
                    }
                }
                _ => {}
            }
        }
        count("u11_deliveries_checked", checked);
    }

    // ------------------------------------------------------------------ C12: handler concurrency within the configured maximum (MQTT 3.1.1)
    // The in-flight limiter of the v3 roles bounds the number of requests being handled; the
    // publish handlers running at once are a lower bound of that number.
    if matches!(role, Role::V3Server | Role::V3Client) && c.cfg.inflight_middleware && c.cfg.max_receive > 0 {
        let seen = app.pubs_running_max.get() as u64;
        count("u12_connections_checked", 1);
        maxc("u12_handlers_running_at_once", seen);
        if seen > c.cfg.max_receive as u64 {
            found.push(("C12", format!("more publish handlers executing at once than max_receive ({seen} > {})", c.cfg.max_receive), String::new()));
        }
    }

    // ------------------------------------------------------------------ C03: success ack only after the handler succeeded; handler at most once per PUBLISH
    {
        // successful handler exits per packet id, not yet used up by an acknowledgement
        let mut call_pid: HashMap<u32, Option<u16>> = HashMap::new();
        let mut ok_exits: HashMap<u16, i64> = HashMap::new();
        let mut sent: HashMap<Option<u16>, i64> = HashMap::new();
        let mut acks = 0u64;
        let mut enters = 0u64;
        for t in &tl {
            match t {
                T::In(R::Publish { pid, .. }) => *sent.entry(*pid).or_insert(0) += 1,
                T::Ev(Ev::PubEnter { call, pid, .. }) => {
                    call_pid.insert(*call, *pid);
                    enters += 1;
                    if !raw {
                        let s = sent.entry(*pid).or_insert(0);
                        *s -= 1;
                        if *s < 0 {
                            found.push(("C03", "publish handler invoked more often than the peer sent a PUBLISH with that packet identifier".into(), format!("id {pid:?}")));
                            *s = 0;
                        }
                    }
                }
                T::Ev(Ev::PubExit { call, outcome }) => {
                    let ok = match outcome {
                        Outcome::Ok => true,
                        Outcome::AckCode(c) => !v5 || *c < 0x80,
                        Outcome::Nack(c) => v5 && *c < 0x80,
                        Outcome::Err => false,
                    };
                    if ok {
                        if let Some(Some(id)) = call_pid.get(call) {
                            *ok_exits.entry(*id).or_insert(0) += 1;
                        }
                    }
                }
                T::Out(R::PubAck { pid, code, .. }) | T::Out(R::PubRec { pid, code, .. }) if success_code(code) => {
                    acks += 1;
                    let e = ok_exits.entry(*pid).or_insert(0);
                    *e -= 1;
                    if *e < 0 {
                        found.push(("C03", "success acknowledgement written although no publish handler has completed successfully for that packet identifier".into(), format!("id {pid}")));
                        *e = 0;
                    }
                }
                _ => {}
            }
        }
        count("u03_success_acks_checked", acks);
        count("u03_handler_entries_checked", enters);
    }

    // ------------------------------------------------------------------ C04: responses in request order
    if !raw {
        #[derive(PartialEq, Eq, Hash, Clone, Copy, Debug)]
        enum K {
            Pub(u16),
            Rel(u16),
            Sub(u16),
            Unsub(u16),
            Ping,
        }
        let mut reqs: HashMap<K, std::collections::VecDeque<usize>> = HashMap::new();
        let mut n_req = 0usize;
        let mut last: Option<(usize, K)> = None;
        let mut checked = 0u64;
        let mut refusals = 0u64;
        let mut bad: Option<String> = None;
        for t in &tl {
            match t {
                T::In(p) => {
                    let k = match p {
                        R::Publish { qos, pid: Some(id), .. } if *qos > 0 => Some(K::Pub(*id)),
                        R::PubRel { pid, .. } => Some(K::Rel(*pid)),
                        R::Subscribe { pid, .. } => Some(K::Sub(*pid)),
                        R::Unsubscribe { pid, .. } => Some(K::Unsub(*pid)),
                        R::PingReq => Some(K::Ping),
                        _ => None,
                    };
                    if let Some(k) = k {
                        reqs.entry(k).or_default().push_back(n_req);
                        n_req += 1;
                    }
                }
                T::Out(p) => {
                    let k = match p {
                        R::PubAck { pid, .. } | R::PubRec { pid, .. } => Some(K::Pub(*pid)),
                        R::PubComp { pid, .. } => Some(K::Rel(*pid)),
                        R::SubAck { pid, .. } => Some(K::Sub(*pid)),
                        R::UnsubAck { pid, .. } => Some(K::Unsub(*pid)),
                        R::PingResp => Some(K::Ping),
                        _ => None,
                    };
                    // refusals the dispatcher produces itself (MQTT 5: packet identifier in use /
                    // not found) are not handler responses: they answer the *latest* request with
                    // that identifier and take no part in the ordering rule
                    let refusal = match p {
                        R::PubAck { code, .. } | R::PubRec { code, .. } => *code == Some(0x91),
                        R::PubComp { code, .. } => *code == Some(0x92),
                        R::SubAck { codes, .. } | R::UnsubAck { codes, .. } => !codes.is_empty() && codes.iter().all(|c| *c == 0x91),
                        _ => false,
                    };
                    if let (Some(k), true) = (k, refusal) {
                        reqs.get_mut(&k).and_then(|q| q.pop_back());
                        refusals += 1;
                    } else if let Some(k) = k {
                        if let Some(idx) = reqs.get_mut(&k).and_then(|q| q.pop_front()) {
                            checked += 1;
                            if let Some((li, lk)) = last {
                                if idx < li && bad.is_none() {
                                    bad = Some(format!("response to request #{idx} ({k:?}) written after the response to request #{li} ({lk:?})"));
                                }
                            }
                            if last.is_none_or(|(li, _)| idx > li) {
                                last = Some((idx, k));
                            }
                        }
                    }
                }
                _ => {}
            }
        }
        count("u04_responses_order_checked", checked);
        count("u04_refusals_set_aside", refusals);
        if let Some(b) = bad {
            found.push(("C04", "responses written in an order different from the order of their requests".into(), b));
        }
    } else {
        count("u04_skipped(raw peer bytes)", 1);
    }

    if !found.is_empty() {
        let rendered = app.render(60);
        FOUND.with(|f| {
            let mut g = f.borrow_mut();
            for (prop, class, what) in found {
                g.push(Finding {
                    prop,
                    signature: format!("U/{}: {}", role.name(), crate::pool::abstract_numbers(&class)),
                    what: if what.is_empty() { class.clone() } else { format!("{class} — {what}") },
                    log: rendered.clone(),
                    phase: u64::MAX,
                    index: 0,
                });
            }
        });
    }
}
