//! Version-neutral wrapper around `v3::MqttSink` / `v5::MqttSink` and controller-owned
//! application operations ("ops").
//!
//! An op is a future created from the sink API. It is owned by the controller (so that it can be
//! dropped at any instant, also between being woken and being polled) and polled by a tiny
//! driver task (so that wake-ups make it progress the way a real application task would).
use std::cell::{Cell, RefCell};
use std::collections::VecDeque;
use std::future::Future;
use std::pin::Pin;
use std::rc::Rc;
use std::task::{Context, Poll, Waker};

use ntex_bytes::{ByteString, Bytes};
use ntex_mqtt::error::SendPacketError;
use ntex_mqtt::{v3, v5};

use crate::app::{App, Ev, SinkRes};
use crate::map;
use crate::refcodec::Prop;

pub type BoxFut<T> = Pin<Box<dyn Future<Output = T>>>;

#[derive(Clone)]
pub enum Sink {
    V3(v3::MqttSink),
    V5(v5::MqttSink),
}

#[derive(Clone, Debug, Default)]
pub struct PubSpec {
    pub topic: String,
    pub payload: Vec<u8>,
    pub pid: Option<u16>,
    pub retain: bool,
    pub dup: bool,
    /// v5 only
    pub alias: Option<u16>,
    pub user_props: Vec<(String, String)>,
    pub content_type: Option<String>,
}

impl PubSpec {
    pub fn new(topic: &str, payload: Vec<u8>) -> Self {
        PubSpec { topic: topic.to_string(), payload, ..Default::default() }
    }
    pub fn pid(mut self, p: Option<u16>) -> Self {
        self.pid = p;
        self
    }
}

fn err(e: SendPacketError) -> SinkRes {
    match e {
        SendPacketError::Disconnected => SinkRes::ErrDisconnected,
        SendPacketError::PacketIdInUse(id) => SinkRes::ErrIdInUse(id.get()),
        SendPacketError::Encode(e) => SinkRes::ErrEncode(format!("{e:?}")),
        SendPacketError::UnexpectedRelease => SinkRes::ErrUnexpectedRelease,
        SendPacketError::StreamingCancelled => SinkRes::ErrStreamingCancelled,
    }
}

fn user_props(up: &v5::codec::UserProperties) -> Vec<Prop> {
    up.iter().map(|(k, v)| Prop::Pair(map::pid::USER_PROPERTY, k.to_string(), v.to_string())).collect()
}

fn ack5(a: &v5::codec::PublishAck) -> SinkRes {
    let mut props = user_props(&a.properties);
    if let Some(r) = &a.reason_string {
        props.push(Prop::Str(map::pid::REASON_STRING, r.to_string()));
    }
    SinkRes::Ack { code: u8::from(a.reason_code), props }
}

/// what to do with a QoS 2 receipt once PUBREC has arrived
#[derive(Debug, Clone, Copy, PartialEq, Eq)]
pub enum ReceiptCmd {
    Release,
    Drop,
}

/// commands for a streaming-payload writer
#[derive(Debug, Clone, PartialEq, Eq)]
pub enum StreamCmd {
    Chunk(Vec<u8>),
    /// drop the StreamingPayload handle
    DropHandle,
}

/// tiny single-threaded channel
pub struct Chan<T> {
    q: RefCell<VecDeque<T>>,
    w: RefCell<Option<Waker>>,
}

impl<T> Chan<T> {
    pub fn new() -> Rc<Self> {
        Rc::new(Chan { q: RefCell::new(VecDeque::new()), w: RefCell::new(None) })
    }
    pub fn push(&self, v: T) {
        self.q.borrow_mut().push_back(v);
        if let Some(w) = self.w.borrow_mut().take() {
            w.wake();
        }
    }
    pub fn recv(self: &Rc<Self>) -> ChanRecv<T> {
        ChanRecv(self.clone())
    }
}

pub struct ChanRecv<T>(Rc<Chan<T>>);
impl<T> Future for ChanRecv<T> {
    type Output = T;
    fn poll(self: Pin<&mut Self>, cx: &mut Context<'_>) -> Poll<T> {
        if let Some(v) = self.0.q.borrow_mut().pop_front() {
            Poll::Ready(v)
        } else {
            *self.0.w.borrow_mut() = Some(cx.waker().clone());
            Poll::Pending
        }
    }
}

macro_rules! both {
    ($self:expr, $s:ident => $e:expr) => {
        match $self {
            Sink::V3($s) => $e,
            Sink::V5($s) => $e,
        }
    };
}

impl Sink {
    pub fn is_v5(&self) -> bool {
        matches!(self, Sink::V5(_))
    }
    pub fn credit(&self) -> usize {
        both!(self, s => s.credit())
    }
    pub fn is_ready(&self) -> bool {
        both!(self, s => s.is_ready())
    }
    pub fn is_open(&self) -> bool {
        both!(self, s => s.is_open())
    }
    pub fn close(&self) {
        both!(self, s => s.close())
    }
    pub fn force_close(&self) {
        both!(self, s => s.force_close())
    }
    /// v5 only (v3: plain close)
    pub fn close_with_reason(&self, code: u8) {
        match self {
            Sink::V3(s) => s.close(),
            Sink::V5(s) => s.close_with_reason(v5::codec::Disconnect::new(
                v5::codec::DisconnectReasonCode::try_from(code).expect("valid disconnect reason"),
            )),
        }
    }
    /// v5 only (v3: plain close)
    pub fn close_with_no_reason(&self) {
        match self {
            Sink::V3(s) => s.close(),
            Sink::V5(s) => s.close_with_no_reason(),
        }
    }

    fn pb3(s: &v3::MqttSink, spec: &PubSpec) -> v3::PublishBuilder {
        let mut b = s.publish(ByteString::from(spec.topic.as_str()));
        if let Some(id) = spec.pid {
            b = b.packet_id(id);
        }
        if spec.retain {
            b = b.retain();
        }
        if spec.dup {
            b = b.dup(true);
        }
        b
    }

    fn pb5(s: &v5::MqttSink, spec: &PubSpec) -> v5::PublishBuilder {
        let mut b = s.publish(ByteString::from(spec.topic.as_str()));
        if let Some(id) = spec.pid {
            b = b.packet_id(id);
        }
        if spec.retain {
            b = b.retain(true);
        }
        if spec.dup {
            b = b.dup(true);
        }
        let spec = spec.clone();
        b.properties(move |p| {
            p.topic_alias = spec.alias.and_then(std::num::NonZeroU16::new);
            p.content_type = spec.content_type.as_deref().map(ByteString::from);
            for (k, v) in &spec.user_props {
                p.user_properties.push((ByteString::from(k.as_str()), ByteString::from(v.as_str())));
            }
        })
    }

    /// size the library reports for this publish (builder `size()`), with the QoS the send will use
    pub fn reported_publish_size(&self, spec: &PubSpec, qos: u8) -> u32 {
        match self {
            Sink::V3(s) => {
                let pkt = v3::codec::Publish {
                    dup: spec.dup,
                    retain: spec.retain,
                    qos: v3::QoS::try_from(qos).unwrap(),
                    topic: ByteString::from(spec.topic.as_str()),
                    packet_id: if qos > 0 { std::num::NonZeroU16::new(spec.pid.unwrap_or(1)) } else { None },
                    payload_size: 0,
                };
                s.publish_pkt(pkt).size(spec.payload.len())
            }
            Sink::V5(s) => {
                let mut b = Self::pb5(s, spec);
                // builder created through publish() has QoS 0; emulate publish_pkt with the final QoS
                let mut props = v5::codec::PublishProperties::default();
                b.set_properties(|p| props = p.clone());
                let pkt = v5::codec::Publish {
                    dup: spec.dup,
                    retain: spec.retain,
                    qos: v5::QoS::try_from(qos).unwrap(),
                    topic: ByteString::from(spec.topic.as_str()),
                    packet_id: if qos > 0 { std::num::NonZeroU16::new(spec.pid.unwrap_or(1)) } else { None },
                    payload_size: 0,
                    properties: props,
                };
                s.publish_pkt(pkt).size(spec.payload.len())
            }
        }
    }

    pub fn send_qos0(&self, spec: &PubSpec) -> SinkRes {
        let payload = Bytes::copy_from_slice(&spec.payload);
        let r = match self {
            Sink::V3(s) => Self::pb3(s, spec).send_at_most_once(payload),
            Sink::V5(s) => Self::pb5(s, spec).send_at_most_once(payload),
        };
        match r {
            Ok(()) => SinkRes::Ok,
            Err(e) => err(e),
        }
    }

    /// register the publish-ack callback; every invocation is logged as `Ev::AckCb`
    pub fn set_ack_cb(&self, app: &Rc<App>) {
        let app = app.clone();
        match self {
            Sink::V3(s) => s.publish_ack_cb(move |pid, disconnected| {
                app.log(Ev::AckCb { pid: pid.get(), disconnected });
            }),
            Sink::V5(s) => s.publish_ack_cb(move |ack, disconnected| {
                app.log(Ev::AckCb { pid: ack.packet_id.get(), disconnected });
            }),
        }
    }

    /// non-blocking QoS 1 send (the result comes through the ack callback). The library
    /// requires `is_ready()`; returns None when it is not.
    pub fn send_qos1_noblock(&self, spec: &PubSpec) -> Option<SinkRes> {
        if !self.is_ready() {
            return None;
        }
        let payload = Bytes::copy_from_slice(&spec.payload);
        NOBLOCK_USED.with(|c| c.set(true));
        let r = match self {
            Sink::V3(s) => Self::pb3(s, spec).send_at_least_once_no_block(payload),
            Sink::V5(s) => Self::pb5(s, spec).send_at_least_once_no_block(payload),
        };
        Some(match r {
            Ok(()) => SinkRes::Ok,
            Err(e) => err(e),
        })
    }

    /// the library future for a QoS 1 send (created now — eager parts run now)
    pub fn send_qos1(&self, spec: &PubSpec) -> BoxFut<SinkRes> {
        let payload = Bytes::copy_from_slice(&spec.payload);
        match self {
            Sink::V3(s) => {
                let f = Self::pb3(s, spec).send_at_least_once(payload);
                Box::pin(async move {
                    match f.await {
                        Ok(()) => SinkRes::Ok,
                        Err(e) => err(e),
                    }
                })
            }
            Sink::V5(s) => {
                let f = Self::pb5(s, spec).send_at_least_once(payload);
                Box::pin(async move {
                    match f.await {
                        Ok(a) => ack5(&a),
                        Err(e) => err(e),
                    }
                })
            }
        }
    }

    /// QoS 2: PUBLISH .. PUBREC, then wait for the controller's command, then release or drop.
    /// `phase` is called with the result of each phase (so the caller can log it).
    pub fn send_qos2(
        &self,
        spec: &PubSpec,
        cmd: Rc<Chan<ReceiptCmd>>,
        phase: Rc<dyn Fn(&'static str, SinkRes)>,
    ) -> BoxFut<SinkRes> {
        let payload = Bytes::copy_from_slice(&spec.payload);
        match self {
            Sink::V3(s) => {
                let f = Self::pb3(s, spec).send_exactly_once(payload);
                Box::pin(async move {
                    match f.await {
                        Ok(receipt) => {
                            phase("received", SinkRes::Received);
                            match cmd.recv().await {
                                ReceiptCmd::Release => {
                                    phase("release-call", SinkRes::Ok);
                                    match receipt.release().await {
                                        Ok(()) => SinkRes::Ok,
                                        Err(e) => err(e),
                                    }
                                }
                                ReceiptCmd::Drop => {
                                    drop(receipt);
                                    SinkRes::Dropped
                                }
                            }
                        }
                        Err(e) => err(e),
                    }
                })
            }
            Sink::V5(s) => {
                let f = Self::pb5(s, spec).send_exactly_once(payload);
                Box::pin(async move {
                    match f.await {
                        Ok(receipt) => {
                            phase("received", ack5(receipt.packet()));
                            match cmd.recv().await {
                                ReceiptCmd::Release => {
                                    phase("release-call", SinkRes::Ok);
                                    match receipt.release().await {
                                        Ok(()) => SinkRes::Ok,
                                        Err(e) => err(e),
                                    }
                                }
                                ReceiptCmd::Drop => {
                                    drop(receipt);
                                    SinkRes::Dropped
                                }
                            }
                        }
                        Err(e) => err(e),
                    }
                })
            }
        }
    }

    pub fn subscribe(&self, pid: Option<u16>, filters: &[(&str, u8)]) -> BoxFut<SinkRes> {
        match self {
            Sink::V3(s) => {
                let mut b = s.subscribe();
                if let Some(p) = pid {
                    b = b.packet_id(p);
                }
                for (f, q) in filters {
                    b = b.topic_filter(ByteString::from(*f), v3::QoS::try_from(*q).unwrap());
                }
                Box::pin(async move {
                    match b.send().await {
                        Ok(codes) => SinkRes::SubAck {
                            codes: codes
                                .iter()
                                .map(|c| match c {
                                    v3::codec::SubscribeReturnCode::Success(q) => u8::from(*q),
                                    v3::codec::SubscribeReturnCode::Failure => 0x80,
                                })
                                .collect(),
                            props: vec![],
                        },
                        Err(e) => err(e),
                    }
                })
            }
            Sink::V5(s) => {
                let mut b = s.subscribe(None);
                if let Some(p) = pid {
                    b = b.packet_id(p);
                }
                for (f, q) in filters {
                    b = b.topic_filter(
                        ByteString::from(*f),
                        v5::codec::SubscriptionOptions { qos: v5::QoS::try_from(*q).unwrap(), ..Default::default() },
                    );
                }
                Box::pin(async move {
                    match b.send().await {
                        Ok(a) => {
                            let mut props = user_props(&a.properties);
                            if let Some(r) = &a.reason_string {
                                props.push(Prop::Str(map::pid::REASON_STRING, r.to_string()));
                            }
                            SinkRes::SubAck { codes: a.status.iter().map(|c| u8::from(*c)).collect(), props }
                        }
                        Err(e) => err(e),
                    }
                })
            }
        }
    }

    pub fn reported_subscribe_size(&self, filters: &[(&str, u8)]) -> u32 {
        match self {
            Sink::V3(s) => {
                let mut b = s.subscribe();
                for (f, q) in filters {
                    b = b.topic_filter(ByteString::from(*f), v3::QoS::try_from(*q).unwrap());
                }
                b.size()
            }
            Sink::V5(s) => {
                let mut b = s.subscribe(None);
                for (f, q) in filters {
                    b = b.topic_filter(
                        ByteString::from(*f),
                        v5::codec::SubscriptionOptions { qos: v5::QoS::try_from(*q).unwrap(), ..Default::default() },
                    );
                }
                b.size()
            }
        }
    }

    pub fn unsubscribe(&self, pid: Option<u16>, filters: &[&str]) -> BoxFut<SinkRes> {
        match self {
            Sink::V3(s) => {
                let mut b = s.unsubscribe();
                if let Some(p) = pid {
                    b = b.packet_id(p);
                }
                for f in filters {
                    b = b.topic_filter(ByteString::from(*f));
                }
                Box::pin(async move {
                    match b.send().await {
                        Ok(()) => SinkRes::Ok,
                        Err(e) => err(e),
                    }
                })
            }
            Sink::V5(s) => {
                let mut b = s.unsubscribe();
                if let Some(p) = pid {
                    b = b.packet_id(p);
                }
                for f in filters {
                    b = b.topic_filter(ByteString::from(*f));
                }
                Box::pin(async move {
                    match b.send().await {
                        Ok(a) => {
                            let mut props = user_props(&a.properties);
                            if let Some(r) = &a.reason_string {
                                props.push(Prop::Str(map::pid::REASON_STRING, r.to_string()));
                            }
                            SinkRes::SubAck { codes: a.status.iter().map(|c| u8::from(*c)).collect(), props }
                        }
                        Err(e) => err(e),
                    }
                })
            }
        }
    }

    pub fn reported_unsubscribe_size(&self, filters: &[&str]) -> u32 {
        match self {
            Sink::V3(s) => {
                let mut b = s.unsubscribe();
                for f in filters {
                    b = b.topic_filter(ByteString::from(*f));
                }
                b.size()
            }
            Sink::V5(s) => {
                let mut b = s.unsubscribe();
                for f in filters {
                    b = b.topic_filter(ByteString::from(*f));
                }
                b.size()
            }
        }
    }

    /// `ready()` borrows the sink, so the library future is created at the first poll
    pub fn ready(&self) -> BoxFut<SinkRes> {
        match self.clone() {
            Sink::V3(s) => Box::pin(async move { SinkRes::Ready(s.ready().await) }),
            Sink::V5(s) => Box::pin(async move { SinkRes::Ready(s.ready().await) }),
        }
    }

    /// streamed QoS 1 send: returns (ack future, writer future). The writer executes the
    /// commands it receives on `cmds`; each chunk result is reported through `chunk_res`.
    pub fn stream_qos1(
        &self,
        spec: &PubSpec,
        declared: u32,
        cmds: Rc<Chan<StreamCmd>>,
        chunk_res: Rc<dyn Fn(usize, SinkRes)>,
    ) -> (BoxFut<SinkRes>, BoxFut<SinkRes>) {
        match self {
            Sink::V3(s) => {
                let (f, st) = Self::pb3(s, spec).stream_at_least_once(declared);
                let ack: BoxFut<SinkRes> = Box::pin(async move {
                    match f.await {
                        Ok(()) => SinkRes::Ok,
                        Err(e) => err(e),
                    }
                });
                let wr: BoxFut<SinkRes> = Box::pin(async move {
                    loop {
                        match cmds.recv().await {
                            StreamCmd::Chunk(b) => {
                                let n = b.len();
                                match st.send(Bytes::from(b)).await {
                                    Ok(()) => chunk_res(n, SinkRes::Ok),
                                    Err(e) => chunk_res(n, err(e)),
                                }
                            }
                            StreamCmd::DropHandle => {
                                drop(st);
                                return SinkRes::Dropped;
                            }
                        }
                    }
                });
                (ack, wr)
            }
            Sink::V5(s) => {
                let (f, st) = Self::pb5(s, spec).stream_at_least_once(declared);
                let ack: BoxFut<SinkRes> = Box::pin(async move {
                    match f.await {
                        Ok(a) => ack5(&a),
                        Err(e) => err(e),
                    }
                });
                let wr: BoxFut<SinkRes> = Box::pin(async move {
                    loop {
                        match cmds.recv().await {
                            StreamCmd::Chunk(b) => {
                                let n = b.len();
                                match st.send(Bytes::from(b)).await {
                                    Ok(()) => chunk_res(n, SinkRes::Ok),
                                    Err(e) => chunk_res(n, err(e)),
                                }
                            }
                            StreamCmd::DropHandle => {
                                drop(st);
                                return SinkRes::Dropped;
                            }
                        }
                    }
                });
                (ack, wr)
            }
        }
    }

    /// streamed QoS 0 send: Err = the synchronous failure; Ok = writer future
    pub fn stream_qos0(
        &self,
        spec: &PubSpec,
        declared: u32,
        cmds: Rc<Chan<StreamCmd>>,
        chunk_res: Rc<dyn Fn(usize, SinkRes)>,
    ) -> Result<BoxFut<SinkRes>, SinkRes> {
        match self {
            Sink::V3(s) => {
                let st = Self::pb3(s, spec).stream_at_most_once(declared).map_err(err)?;
                Ok(Box::pin(async move {
                    loop {
                        match cmds.recv().await {
                            StreamCmd::Chunk(b) => {
                                let n = b.len();
                                match st.send(Bytes::from(b)).await {
                                    Ok(()) => chunk_res(n, SinkRes::Ok),
                                    Err(e) => chunk_res(n, err(e)),
                                }
                            }
                            StreamCmd::DropHandle => {
                                drop(st);
                                return SinkRes::Dropped;
                            }
                        }
                    }
                }))
            }
            Sink::V5(s) => {
                let st = Self::pb5(s, spec).stream_at_most_once(declared).map_err(err)?;
                Ok(Box::pin(async move {
                    loop {
                        match cmds.recv().await {
                            StreamCmd::Chunk(b) => {
                                let n = b.len();
                                match st.send(Bytes::from(b)).await {
                                    Ok(()) => chunk_res(n, SinkRes::Ok),
                                    Err(e) => chunk_res(n, err(e)),
                                }
                            }
                            StreamCmd::DropHandle => {
                                drop(st);
                                return SinkRes::Dropped;
                            }
                        }
                    }
                }))
            }
        }
    }
}

// ------------------------------------------------------------------------------------ ops

/// A controller-owned future polled by a driver task.
pub struct Op {
    pub id: u32,
    pub what: String,
    inner: Rc<RefCell<Option<BoxFut<SinkRes>>>>,
    result: Rc<RefCell<Option<SinkRes>>>,
    started: bool,
    app: Rc<App>,
}

struct Driver {
    inner: Rc<RefCell<Option<BoxFut<SinkRes>>>>,
    result: Rc<RefCell<Option<SinkRes>>>,
    app: Rc<App>,
    id: u32,
}

impl Future for Driver {
    type Output = ();
    fn poll(self: Pin<&mut Self>, cx: &mut Context<'_>) -> Poll<()> {
        let mut slot = self.inner.borrow_mut();
        if std::env::var("VERIF_DEBUG_OPS").is_ok() {
            let st = self.app.sink.borrow().as_ref().map(|s| format!("open={} ready={} credit={}", s.is_open(), s.is_ready(), s.credit()));
            self.app.log(Ev::Note(format!("driver of op {} polled ({st:?})", self.id)));
        }
        match slot.as_mut() {
            None => Poll::Ready(()),
            Some(f) => match f.as_mut().poll(cx) {
                Poll::Ready(r) => {
                    *slot = None;
                    drop(slot);
                    self.app.log(Ev::SinkRet { op: self.id, n: 0, res: r.clone() });
                    *self.result.borrow_mut() = Some(r);
                    Poll::Ready(())
                }
                Poll::Pending => Poll::Pending,
            },
        }
    }
}

impl Op {
    /// wrap a library future; logs `SinkCall` now and `SinkRet` when it completes
    pub fn new(app: &Rc<App>, id: u32, what: &str, fut: BoxFut<SinkRes>) -> Op {
        app.log(Ev::SinkCall { op: id, n: 0, what: what.to_string() });
        Op {
            id,
            what: what.to_string(),
            inner: Rc::new(RefCell::new(Some(fut))),
            result: Rc::new(RefCell::new(None)),
            started: false,
            app: app.clone(),
        }
    }

    /// hand the future to a driver task (first poll happens when that task runs)
    pub fn start(&mut self) {
        if !self.started {
            self.started = true;
            let d = Driver { inner: self.inner.clone(), result: self.result.clone(), app: self.app.clone(), id: self.id };
            let _ = ntex_util::spawn(d);
        }
    }

    pub fn started(&self) -> bool {
        self.started
    }

    /// drop the future right now (cancellation)
    pub fn cancel(&mut self) -> bool {
        let f = self.inner.borrow_mut().take();
        if f.is_some() {
            drop(f);
            self.app.log(Ev::SinkRet { op: self.id, n: 0, res: SinkRes::Dropped });
            *self.result.borrow_mut() = Some(SinkRes::Dropped);
            true
        } else {
            false
        }
    }

    pub fn result(&self) -> Option<SinkRes> {
        self.result.borrow().clone()
    }

    pub fn is_done(&self) -> bool {
        self.result.borrow().is_some()
    }
}

impl Drop for Op {
    /// the controller is done with this operation: drop the library future too, so that a
    /// sender that is still parked does not keep itself (and the connection objects) alive
    /// through the waker it left in the sink's waiter list
    fn drop(&mut self) {
        let f = self.inner.borrow_mut().take();
        drop(f);
    }
}

thread_local! {
    static OP_IDS: Cell<u32> = const { Cell::new(0) };
    /// a non-awaiting send API was used in the scenario running on this thread
    pub static NOBLOCK_USED: Cell<bool> = const { Cell::new(false) };
}

pub fn reset_op_ids() {
    OP_IDS.with(|c| c.set(0));
    NOBLOCK_USED.with(|c| c.set(false));
}

pub fn next_op_id() -> u32 {
    OP_IDS.with(|c| {
        let v = c.get() + 1;
        c.set(v);
        v
    })
}
