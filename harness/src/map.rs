//! Field-by-field mapping from the library's packet values to the reference model, and the
//! semantic normal form in which two descriptions of a packet are compared.
//!
//! This is the only code (besides the generators) that names the library's codec types.
//! The property identifiers below are written from MQTT 5 §2.2.2.2, not taken from /repo.
use ntex_mqtt::v3::codec as c3;
use ntex_mqtt::v5::codec as c5;

use crate::refcodec::{Packet as R, Prop, Will};

pub mod pid {
    pub const PAYLOAD_FORMAT: u8 = 0x01;
    pub const MESSAGE_EXPIRY: u8 = 0x02;
    pub const CONTENT_TYPE: u8 = 0x03;
    pub const RESPONSE_TOPIC: u8 = 0x08;
    pub const CORRELATION_DATA: u8 = 0x09;
    pub const SUBSCRIPTION_ID: u8 = 0x0B;
    pub const SESSION_EXPIRY: u8 = 0x11;
    pub const ASSIGNED_CLIENT_ID: u8 = 0x12;
    pub const SERVER_KEEP_ALIVE: u8 = 0x13;
    pub const AUTH_METHOD: u8 = 0x15;
    pub const AUTH_DATA: u8 = 0x16;
    pub const REQUEST_PROBLEM_INFO: u8 = 0x17;
    pub const WILL_DELAY: u8 = 0x18;
    pub const REQUEST_RESPONSE_INFO: u8 = 0x19;
    pub const RESPONSE_INFO: u8 = 0x1A;
    pub const SERVER_REFERENCE: u8 = 0x1C;
    pub const REASON_STRING: u8 = 0x1F;
    pub const RECEIVE_MAXIMUM: u8 = 0x21;
    pub const TOPIC_ALIAS_MAXIMUM: u8 = 0x22;
    pub const TOPIC_ALIAS: u8 = 0x23;
    pub const MAXIMUM_QOS: u8 = 0x24;
    pub const RETAIN_AVAILABLE: u8 = 0x25;
    pub const USER_PROPERTY: u8 = 0x26;
    pub const MAXIMUM_PACKET_SIZE: u8 = 0x27;
    pub const WILDCARD_SUB_AVAILABLE: u8 = 0x28;
    pub const SUB_ID_AVAILABLE: u8 = 0x29;
    pub const SHARED_SUB_AVAILABLE: u8 = 0x2A;
}
use pid::*;

fn s(b: &ntex_bytes::ByteString) -> String {
    b.as_str().to_string()
}
fn v(b: &ntex_bytes::Bytes) -> Vec<u8> {
    b.as_ref().to_vec()
}
fn users(out: &mut Vec<Prop>, up: &c5::UserProperties) {
    for (k, val) in up {
        out.push(Prop::Pair(USER_PROPERTY, s(k), s(val)));
    }
}
fn opt_str(out: &mut Vec<Prop>, id: u8, x: &Option<ntex_bytes::ByteString>) {
    if let Some(x) = x {
        out.push(Prop::Str(id, s(x)));
    }
}
fn opt_bin(out: &mut Vec<Prop>, id: u8, x: &Option<ntex_bytes::Bytes>) {
    if let Some(x) = x {
        out.push(Prop::Bin(id, v(x)));
    }
}

// ------------------------------------------------------------------------------- v3

pub fn v3_packet(p: &c3::Packet) -> R {
    match p {
        c3::Packet::Connect(c) => R::Connect {
            level: 4,
            clean: c.clean_session,
            keep_alive: c.keep_alive,
            props: vec![],
            client_id: s(&c.client_id),
            will: c.last_will.as_ref().map(|w| Will {
                qos: u8::from(w.qos),
                retain: w.retain,
                props: vec![],
                topic: s(&w.topic),
                payload: v(&w.message),
            }),
            username: c.username.as_ref().map(s),
            password: c.password.as_ref().map(v),
        },
        c3::Packet::ConnectAck(a) => R::ConnAck {
            session_present: a.session_present,
            code: u8::from(a.return_code),
            props: vec![],
        },
        c3::Packet::PublishAck { packet_id } => {
            R::PubAck { pid: packet_id.get(), code: None, props: None }
        }
        c3::Packet::PublishReceived { packet_id } => {
            R::PubRec { pid: packet_id.get(), code: None, props: None }
        }
        c3::Packet::PublishRelease { packet_id } => {
            R::PubRel { pid: packet_id.get(), code: None, props: None }
        }
        c3::Packet::PublishComplete { packet_id } => {
            R::PubComp { pid: packet_id.get(), code: None, props: None }
        }
        c3::Packet::Subscribe { packet_id, topic_filters } => R::Subscribe {
            pid: packet_id.get(),
            props: vec![],
            filters: topic_filters.iter().map(|(f, q)| (s(f), u8::from(*q))).collect(),
        },
        c3::Packet::SubscribeAck { packet_id, status } => R::SubAck {
            pid: packet_id.get(),
            props: vec![],
            codes: status
                .iter()
                .map(|c| match c {
                    c3::SubscribeReturnCode::Success(q) => u8::from(*q),
                    c3::SubscribeReturnCode::Failure => 0x80,
                })
                .collect(),
        },
        c3::Packet::Unsubscribe { packet_id, topic_filters } => R::Unsubscribe {
            pid: packet_id.get(),
            props: vec![],
            filters: topic_filters.iter().map(s).collect(),
        },
        c3::Packet::UnsubscribeAck { packet_id } => {
            R::UnsubAck { pid: packet_id.get(), props: vec![], codes: vec![] }
        }
        c3::Packet::PingRequest => R::PingReq,
        c3::Packet::PingResponse => R::PingResp,
        c3::Packet::Disconnect => R::Disconnect { code: None, props: None },
    }
}

pub fn v3_publish(p: &c3::Publish, payload: &[u8]) -> R {
    R::Publish {
        dup: p.dup,
        qos: u8::from(p.qos),
        retain: p.retain,
        topic: s(&p.topic),
        pid: p.packet_id.map(|x| x.get()),
        props: vec![],
        payload: payload.to_vec(),
    }
}

// ------------------------------------------------------------------------------- v5

pub fn v5_will(w: &c5::LastWill) -> Will {
    let mut props = Vec::new();
    if let Some(x) = w.will_delay_interval_sec {
        props.push(Prop::U32(WILL_DELAY, x));
    }
    if let Some(x) = w.is_utf8_payload {
        props.push(Prop::Byte(PAYLOAD_FORMAT, u8::from(x)));
    }
    if let Some(x) = w.message_expiry_interval {
        props.push(Prop::U32(MESSAGE_EXPIRY, x.get()));
    }
    opt_str(&mut props, CONTENT_TYPE, &w.content_type);
    opt_str(&mut props, RESPONSE_TOPIC, &w.response_topic);
    opt_bin(&mut props, CORRELATION_DATA, &w.correlation_data);
    users(&mut props, &w.user_properties);
    Will { qos: u8::from(w.qos), retain: w.retain, props, topic: s(&w.topic), payload: v(&w.message) }
}

pub fn v5_publish_props(pp: &c5::PublishProperties) -> Vec<Prop> {
    let mut props = Vec::new();
    if let Some(a) = pp.topic_alias {
        props.push(Prop::U16(TOPIC_ALIAS, a.get()));
    }
    opt_bin(&mut props, CORRELATION_DATA, &pp.correlation_data);
    if let Some(x) = pp.message_expiry_interval {
        props.push(Prop::U32(MESSAGE_EXPIRY, x.get()));
    }
    opt_str(&mut props, CONTENT_TYPE, &pp.content_type);
    if pp.is_utf8_payload {
        props.push(Prop::Byte(PAYLOAD_FORMAT, 1));
    }
    opt_str(&mut props, RESPONSE_TOPIC, &pp.response_topic);
    for id in &pp.subscription_ids {
        props.push(Prop::VarInt(SUBSCRIPTION_ID, id.get()));
    }
    users(&mut props, &pp.user_properties);
    props
}

pub fn v5_publish(p: &c5::Publish, payload: &[u8]) -> R {
    R::Publish {
        dup: p.dup,
        qos: u8::from(p.qos),
        retain: p.retain,
        topic: s(&p.topic),
        pid: p.packet_id.map(|x| x.get()),
        props: v5_publish_props(&p.properties),
        payload: payload.to_vec(),
    }
}

fn ack_props(up: &c5::UserProperties, reason: &Option<ntex_bytes::ByteString>) -> Vec<Prop> {
    let mut props = Vec::new();
    users(&mut props, up);
    opt_str(&mut props, REASON_STRING, reason);
    props
}

pub fn v5_packet(p: &c5::Packet) -> R {
    match p {
        c5::Packet::Connect(c) => {
            let mut props = Vec::new();
            if c.session_expiry_interval_secs != 0 {
                props.push(Prop::U32(SESSION_EXPIRY, c.session_expiry_interval_secs));
            }
            opt_str(&mut props, AUTH_METHOD, &c.auth_method);
            opt_bin(&mut props, AUTH_DATA, &c.auth_data);
            if !c.request_problem_info {
                props.push(Prop::Byte(REQUEST_PROBLEM_INFO, 0));
            }
            if c.request_response_info {
                props.push(Prop::Byte(REQUEST_RESPONSE_INFO, 1));
            }
            if let Some(x) = c.receive_max {
                props.push(Prop::U16(RECEIVE_MAXIMUM, x.get()));
            }
            if let Some(x) = c.max_packet_size {
                props.push(Prop::U32(MAXIMUM_PACKET_SIZE, x.get()));
            }
            if c.topic_alias_max != 0 {
                props.push(Prop::U16(TOPIC_ALIAS_MAXIMUM, c.topic_alias_max));
            }
            users(&mut props, &c.user_properties);
            R::Connect {
                level: 5,
                clean: c.clean_start,
                keep_alive: c.keep_alive,
                props,
                client_id: s(&c.client_id),
                will: c.last_will.as_ref().map(v5_will),
                username: c.username.as_ref().map(s),
                password: c.password.as_ref().map(v),
            }
        }
        c5::Packet::ConnectAck(a) => {
            let mut props = Vec::new();
            if let Some(x) = a.session_expiry_interval_secs {
                props.push(Prop::U32(SESSION_EXPIRY, x));
            }
            if a.receive_max.get() != 65535 {
                props.push(Prop::U16(RECEIVE_MAXIMUM, a.receive_max.get()));
            }
            if u8::from(a.max_qos) < 2 {
                props.push(Prop::Byte(MAXIMUM_QOS, u8::from(a.max_qos)));
            }
            if !a.retain_available {
                props.push(Prop::Byte(RETAIN_AVAILABLE, 0));
            }
            if let Some(x) = a.max_packet_size {
                props.push(Prop::U32(MAXIMUM_PACKET_SIZE, x));
            }
            opt_str(&mut props, ASSIGNED_CLIENT_ID, &a.assigned_client_id);
            if a.topic_alias_max != 0 {
                props.push(Prop::U16(TOPIC_ALIAS_MAXIMUM, a.topic_alias_max));
            }
            if !a.wildcard_subscription_available {
                props.push(Prop::Byte(WILDCARD_SUB_AVAILABLE, 0));
            }
            if !a.subscription_identifiers_available {
                props.push(Prop::Byte(SUB_ID_AVAILABLE, 0));
            }
            if !a.shared_subscription_available {
                props.push(Prop::Byte(SHARED_SUB_AVAILABLE, 0));
            }
            if let Some(x) = a.server_keepalive_sec {
                props.push(Prop::U16(SERVER_KEEP_ALIVE, x));
            }
            opt_str(&mut props, RESPONSE_INFO, &a.response_info);
            opt_str(&mut props, SERVER_REFERENCE, &a.server_reference);
            opt_str(&mut props, AUTH_METHOD, &a.auth_method);
            opt_bin(&mut props, AUTH_DATA, &a.auth_data);
            users(&mut props, &a.user_properties);
            opt_str(&mut props, REASON_STRING, &a.reason_string);
            R::ConnAck { session_present: a.session_present, code: u8::from(a.reason_code), props }
        }
        c5::Packet::PublishAck(a) => R::PubAck {
            pid: a.packet_id.get(),
            code: Some(u8::from(a.reason_code)),
            props: Some(ack_props(&a.properties, &a.reason_string)),
        },
        c5::Packet::PublishReceived(a) => R::PubRec {
            pid: a.packet_id.get(),
            code: Some(u8::from(a.reason_code)),
            props: Some(ack_props(&a.properties, &a.reason_string)),
        },
        c5::Packet::PublishRelease(a) => R::PubRel {
            pid: a.packet_id.get(),
            code: Some(u8::from(a.reason_code)),
            props: Some(ack_props(&a.properties, &a.reason_string)),
        },
        c5::Packet::PublishComplete(a) => R::PubComp {
            pid: a.packet_id.get(),
            code: Some(u8::from(a.reason_code)),
            props: Some(ack_props(&a.properties, &a.reason_string)),
        },
        c5::Packet::Subscribe(x) => {
            let mut props = Vec::new();
            if let Some(id) = x.id {
                props.push(Prop::VarInt(SUBSCRIPTION_ID, id.get()));
            }
            users(&mut props, &x.user_properties);
            R::Subscribe {
                pid: x.packet_id.get(),
                props,
                filters: x
                    .topic_filters
                    .iter()
                    .map(|(f, o)| {
                        (
                            s(f),
                            u8::from(o.qos)
                                | (u8::from(o.no_local) << 2)
                                | (u8::from(o.retain_as_published) << 3)
                                | (u8::from(o.retain_handling) << 4),
                        )
                    })
                    .collect(),
            }
        }
        c5::Packet::SubscribeAck(a) => R::SubAck {
            pid: a.packet_id.get(),
            props: ack_props(&a.properties, &a.reason_string),
            codes: a.status.iter().map(|c| u8::from(*c)).collect(),
        },
        c5::Packet::Unsubscribe(x) => {
            let mut props = Vec::new();
            users(&mut props, &x.user_properties);
            R::Unsubscribe {
                pid: x.packet_id.get(),
                props,
                filters: x.topic_filters.iter().map(s).collect(),
            }
        }
        c5::Packet::UnsubscribeAck(a) => R::UnsubAck {
            pid: a.packet_id.get(),
            props: ack_props(&a.properties, &a.reason_string),
            codes: a.status.iter().map(|c| u8::from(*c)).collect(),
        },
        c5::Packet::PingRequest => R::PingReq,
        c5::Packet::PingResponse => R::PingResp,
        c5::Packet::Disconnect(d) => {
            let mut props = Vec::new();
            if let Some(x) = d.session_expiry_interval_secs {
                props.push(Prop::U32(SESSION_EXPIRY, x));
            }
            opt_str(&mut props, SERVER_REFERENCE, &d.server_reference);
            users(&mut props, &d.user_properties);
            opt_str(&mut props, REASON_STRING, &d.reason_string);
            R::Disconnect { code: Some(u8::from(d.reason_code)), props: Some(props) }
        }
        c5::Packet::Auth(a) => {
            let mut props = Vec::new();
            opt_str(&mut props, AUTH_METHOD, &a.auth_method);
            opt_bin(&mut props, AUTH_DATA, &a.auth_data);
            users(&mut props, &a.user_properties);
            opt_str(&mut props, REASON_STRING, &a.reason_string);
            R::Auth { code: Some(u8::from(a.reason_code)), props: Some(props) }
        }
    }
}

// ------------------------------------------------------------------------------- normal form

/// `true` when a property carries the value MQTT 5 defines as the meaning of its absence in the
/// given packet (type nibble), so that "present with default" and "absent" compare equal.
fn is_default(type_nibble: u8, p: &Prop) -> bool {
    match (type_nibble, p) {
        (1, Prop::U32(SESSION_EXPIRY, 0)) => true,
        (1, Prop::Byte(REQUEST_PROBLEM_INFO, 1)) => true,
        (1, Prop::Byte(REQUEST_RESPONSE_INFO, 0)) => true,
        (1 | 2, Prop::U16(RECEIVE_MAXIMUM, 65535)) => true,
        (1 | 2, Prop::U16(TOPIC_ALIAS_MAXIMUM, 0)) => true,
        (2, Prop::Byte(RETAIN_AVAILABLE, 1)) => true,
        (2, Prop::Byte(WILDCARD_SUB_AVAILABLE, 1)) => true,
        (2, Prop::Byte(SUB_ID_AVAILABLE, 1)) => true,
        (2, Prop::Byte(SHARED_SUB_AVAILABLE, 1)) => true,
        (3, Prop::Byte(PAYLOAD_FORMAT, 0)) => true,
        _ => false,
    }
}

fn norm_props(type_nibble: u8, props: &[Prop]) -> Vec<Prop> {
    let mut out: Vec<Prop> =
        props.iter().filter(|p| !is_default(type_nibble, p)).cloned().collect();
    // stable: order among equal identifiers (user properties, subscription ids) is kept
    out.sort_by_key(Prop::id);
    out
}

/// Semantic normal form: property order between different identifiers is irrelevant, a property
/// equal to its spec default equals its absence, and the MQTT 5 short forms of acks /
/// DISCONNECT / AUTH equal their long forms (reason 0x00, no properties).
pub fn normalize(ver5: bool, p: &R) -> R {
    let t = p.type_nibble();
    let ack = |code: &Option<u8>, props: &Option<Vec<Prop>>| {
        if ver5 {
            (Some(code.unwrap_or(0)), Some(norm_props(t, props.as_deref().unwrap_or(&[]))))
        } else {
            (None, None)
        }
    };
    match p {
        R::Connect { level, clean, keep_alive, props, client_id, will, username, password } => {
            R::Connect {
                level: *level,
                clean: *clean,
                keep_alive: *keep_alive,
                props: norm_props(t, props),
                client_id: client_id.clone(),
                will: will.as_ref().map(|w| Will {
                    qos: w.qos,
                    retain: w.retain,
                    props: norm_props(0, &w.props),
                    topic: w.topic.clone(),
                    payload: w.payload.clone(),
                }),
                username: username.clone(),
                password: password.clone(),
            }
        }
        R::ConnAck { session_present, code, props } => R::ConnAck {
            session_present: *session_present,
            code: *code,
            props: norm_props(t, props),
        },
        R::Publish { dup, qos, retain, topic, pid, props, payload } => R::Publish {
            dup: *dup,
            qos: *qos,
            retain: *retain,
            topic: topic.clone(),
            pid: *pid,
            props: norm_props(t, props),
            payload: payload.clone(),
        },
        R::PubAck { pid, code, props } => {
            let (code, props) = ack(code, props);
            R::PubAck { pid: *pid, code, props }
        }
        R::PubRec { pid, code, props } => {
            let (code, props) = ack(code, props);
            R::PubRec { pid: *pid, code, props }
        }
        R::PubRel { pid, code, props } => {
            let (code, props) = ack(code, props);
            R::PubRel { pid: *pid, code, props }
        }
        R::PubComp { pid, code, props } => {
            let (code, props) = ack(code, props);
            R::PubComp { pid: *pid, code, props }
        }
        R::Subscribe { pid, props, filters } => {
            R::Subscribe { pid: *pid, props: norm_props(t, props), filters: filters.clone() }
        }
        R::SubAck { pid, props, codes } => {
            R::SubAck { pid: *pid, props: norm_props(t, props), codes: codes.clone() }
        }
        R::Unsubscribe { pid, props, filters } => {
            R::Unsubscribe { pid: *pid, props: norm_props(t, props), filters: filters.clone() }
        }
        R::UnsubAck { pid, props, codes } => {
            R::UnsubAck { pid: *pid, props: norm_props(t, props), codes: codes.clone() }
        }
        R::PingReq => R::PingReq,
        R::PingResp => R::PingResp,
        R::Disconnect { code, props } => {
            let (code, props) = ack(code, props);
            R::Disconnect { code, props }
        }
        R::Auth { code, props } => {
            let (code, props) = ack(code, props);
            R::Auth { code, props }
        }
    }
}

/// One-line rendering for samples / witnesses (payloads and long strings abbreviated).
pub fn brief(p: &R) -> String {
    fn sh(s: &str) -> String {
        if s.len() > 24 { format!("{}…({}B)", &s.chars().take(12).collect::<String>(), s.len()) } else { s.to_string() }
    }
    fn pr(props: &[Prop]) -> String {
        let v: Vec<String> = props
            .iter()
            .map(|p| match p {
                Prop::Byte(i, x) => format!("{i:#04x}={x}"),
                Prop::U16(i, x) => format!("{i:#04x}={x}"),
                Prop::U32(i, x) => format!("{i:#04x}={x}"),
                Prop::VarInt(i, x) => format!("{i:#04x}=v{x}"),
                Prop::Str(i, x) => format!("{i:#04x}={:?}", sh(x)),
                Prop::Bin(i, x) => format!("{i:#04x}=<{}B>", x.len()),
                Prop::Pair(i, k, v) => format!("{i:#04x}=({:?},{:?})", sh(k), sh(v)),
            })
            .collect();
        format!("[{}]", v.join(","))
    }
    match p {
        R::Connect { level, clean, keep_alive, props, client_id, will, username, password } => format!(
            "CONNECT(l{level} clean={clean} ka={keep_alive} id={:?} will={} user={} pass={} props={})",
            sh(client_id),
            will.as_ref().map(|w| format!("(q{} r{} {:?} <{}B> {})", w.qos, w.retain, sh(&w.topic), w.payload.len(), pr(&w.props))).unwrap_or("-".into()),
            username.as_ref().map(|u| format!("{:?}", sh(u))).unwrap_or("-".into()),
            password.as_ref().map(|u| format!("<{}B>", u.len())).unwrap_or("-".into()),
            pr(props)
        ),
        R::ConnAck { session_present, code, props } => format!("CONNACK(sp={session_present} code={code:#04x} {})", pr(props)),
        R::Publish { dup, qos, retain, topic, pid, props, payload } => format!(
            "PUBLISH(q{qos} d{} r{} {:?} id={pid:?} <{}B> {})",
            u8::from(*dup), u8::from(*retain), sh(topic), payload.len(), pr(props)
        ),
        R::PubAck { pid, code, props } => format!("PUBACK({pid} {code:?} {})", props.as_ref().map(|p| pr(p)).unwrap_or("-".into())),
        R::PubRec { pid, code, props } => format!("PUBREC({pid} {code:?} {})", props.as_ref().map(|p| pr(p)).unwrap_or("-".into())),
        R::PubRel { pid, code, props } => format!("PUBREL({pid} {code:?} {})", props.as_ref().map(|p| pr(p)).unwrap_or("-".into())),
        R::PubComp { pid, code, props } => format!("PUBCOMP({pid} {code:?} {})", props.as_ref().map(|p| pr(p)).unwrap_or("-".into())),
        R::Subscribe { pid, props, filters } => format!("SUBSCRIBE({pid} {:?} {})", filters.iter().map(|(f, o)| (sh(f), *o)).collect::<Vec<_>>(), pr(props)),
        R::SubAck { pid, props, codes } => format!("SUBACK({pid} {codes:?} {})", pr(props)),
        R::Unsubscribe { pid, props, filters } => format!("UNSUBSCRIBE({pid} {:?} {})", filters.iter().map(|f| sh(f)).collect::<Vec<_>>(), pr(props)),
        R::UnsubAck { pid, props, codes } => format!("UNSUBACK({pid} {codes:?} {})", pr(props)),
        R::PingReq => "PINGREQ".into(),
        R::PingResp => "PINGRESP".into(),
        R::Disconnect { code, props } => format!("DISCONNECT({code:?} {})", props.as_ref().map(|p| pr(p)).unwrap_or("-".into())),
        R::Auth { code, props } => format!("AUTH({code:?} {})", props.as_ref().map(|p| pr(p)).unwrap_or("-".into())),
    }
}
