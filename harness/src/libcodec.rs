//! Thin drivers around the library's public codecs (encode to bytes, decode a byte stream cut
//! into fragments exactly the way ntex-io refills its read buffer).
use ntex_bytes::{BytePages, Bytes, BytesMut};
use ntex_codec::{Decoder, Encoder};
use ntex_mqtt::error::{DecodeError, EncodeError};
use ntex_mqtt::v3::codec as c3;
use ntex_mqtt::v5::codec as c5;

use crate::genpkt::{Item3, Item5};

pub fn take(dst: &mut BytePages) -> Vec<u8> {
    dst.freeze().as_ref().to_vec()
}

/// encode with the payload inline; returns the bytes appended
pub fn enc3(codec: &c3::Codec, it: &Item3) -> Result<Vec<u8>, EncodeError> {
    let mut dst = BytePages::default();
    enc3_into(codec, it, &mut dst)?;
    Ok(take(&mut dst))
}

pub fn enc3_into(codec: &c3::Codec, it: &Item3, dst: &mut BytePages) -> Result<(), EncodeError> {
    match it {
        Item3::Packet(p) => codec.encodev(c3::Encoded::Packet(p.clone()), dst),
        Item3::Publish(p, pl) => {
            codec.encodev(c3::Encoded::Publish(p.clone(), Some(Bytes::copy_from_slice(pl))), dst)
        }
    }
}

pub fn enc5(codec: &c5::Codec, it: &Item5) -> Result<Vec<u8>, EncodeError> {
    let mut dst = BytePages::default();
    enc5_into(codec, it, &mut dst)?;
    Ok(take(&mut dst))
}

pub fn enc5_into(codec: &c5::Codec, it: &Item5, dst: &mut BytePages) -> Result<(), EncodeError> {
    match it {
        Item5::Packet(p) => codec.encodev(c5::Encoded::Packet(p.clone()), dst),
        Item5::Publish(p, pl) => {
            codec.encodev(c5::Encoded::Publish(p.clone(), Some(Bytes::copy_from_slice(pl))), dst)
        }
    }
}

/// A decoded item with streamed payload pieces re-assembled, plus piece accounting for C10.
#[derive(Clone, Debug, PartialEq, Eq)]
pub enum Got3 {
    Packet(c3::Packet, u32),
    Publish { pkt: c3::Publish, size: u32, pieces: Vec<(usize, bool)>, payload: Vec<u8> },
}

#[derive(Clone, Debug, PartialEq, Eq)]
pub enum Got5 {
    Packet(c5::Packet, u32),
    Publish { pkt: c5::Publish, size: u32, pieces: Vec<(usize, bool)>, payload: Vec<u8> },
}

/// Raw decode events (one per successful `decode` call that returned an item).
#[derive(Clone, Debug, PartialEq, Eq)]
pub enum Ev<P, Pub> {
    Packet(P, u32),
    Publish(Pub, Vec<u8>, u32),
    Chunk(Vec<u8>, bool),
}

pub struct Feed<E> {
    pub events: Vec<E>,
    pub error: Option<DecodeError>,
    /// bytes left in the buffer when decoding stopped
    pub left: usize,
    /// number of `decode` calls
    pub calls: usize,
    /// (bytes fed so far, bytes consumed so far) after each event
    pub progress: Vec<(usize, usize)>,
}

fn cuts_iter(len: usize, cuts: &[usize]) -> Vec<(usize, usize)> {
    let mut out = Vec::new();
    let mut prev = 0;
    for &c in cuts {
        if c > prev && c < len {
            out.push((prev, c));
            prev = c;
        }
    }
    out.push((prev, len));
    out
}

pub fn feed3(codec: &c3::Codec, stream: &[u8], cuts: &[usize]) -> Feed<Ev<c3::Packet, c3::Publish>> {
    let mut buf = BytesMut::new();
    let mut f = Feed { events: vec![], error: None, left: 0, calls: 0, progress: vec![] };
    let mut fed = 0;
    'outer: for (a, b) in cuts_iter(stream.len(), cuts) {
        buf.extend_from_slice(&stream[a..b]);
        fed = b;
        loop {
            f.calls += 1;
            match codec.decode(&mut buf) {
                Ok(Some(it)) => {
                    f.events.push(match it {
                        c3::Decoded::Packet(p, n) => Ev::Packet(p, n),
                        c3::Decoded::Publish(p, b, n) => Ev::Publish(p, b.to_vec(), n),
                        c3::Decoded::PayloadChunk(b, eof) => Ev::Chunk(b.to_vec(), eof),
                    });
                    f.progress.push((fed, fed - buf.len()));
                }
                Ok(None) => break,
                Err(e) => {
                    f.error = Some(e);
                    break 'outer;
                }
            }
        }
    }
    let _ = fed;
    f.left = buf.len();
    f
}

pub fn feed5(codec: &c5::Codec, stream: &[u8], cuts: &[usize]) -> Feed<Ev<c5::Packet, c5::Publish>> {
    let mut buf = BytesMut::new();
    let mut f = Feed { events: vec![], error: None, left: 0, calls: 0, progress: vec![] };
    'outer: for (a, b) in cuts_iter(stream.len(), cuts) {
        buf.extend_from_slice(&stream[a..b]);
        let fed = b;
        loop {
            f.calls += 1;
            match codec.decode(&mut buf) {
                Ok(Some(it)) => {
                    f.events.push(match it {
                        c5::Decoded::Packet(p, n) => Ev::Packet(p, n),
                        c5::Decoded::Publish(p, b, n) => Ev::Publish(p, b.to_vec(), n),
                        c5::Decoded::PayloadChunk(b, eof) => Ev::Chunk(b.to_vec(), eof),
                    });
                    f.progress.push((fed, fed - buf.len()));
                }
                Ok(None) => break,
                Err(e) => {
                    f.error = Some(e);
                    break 'outer;
                }
            }
        }
    }
    f.left = buf.len();
    f
}

/// Re-assemble events into whole packets. `Err` describes a structural anomaly in the event
/// sequence itself (chunk without publish, publish while another payload is owed, ...).
pub fn assemble<P: Clone, Pub: Clone>(
    events: &[Ev<P, Pub>],
    declared: impl Fn(&Pub) -> u32,
) -> Result<(Vec<Whole<P, Pub>>, bool), String> {
    let mut out: Vec<Whole<P, Pub>> = Vec::new();
    let mut open = false;
    for ev in events {
        match ev {
            Ev::Packet(p, n) => {
                if open {
                    return Err("packet returned while a PUBLISH payload is still owed".into());
                }
                out.push(Whole::Packet(p.clone(), *n));
            }
            Ev::Publish(p, first, n) => {
                if open {
                    return Err("PUBLISH returned while a PUBLISH payload is still owed".into());
                }
                let d = declared(p) as usize;
                if first.len() > d {
                    return Err(format!("first piece {} > declared {}", first.len(), d));
                }
                let complete = first.len() == d;
                out.push(Whole::Publish {
                    pkt: p.clone(),
                    size: *n,
                    pieces: vec![(first.len(), complete)],
                    payload: first.clone(),
                    finals: 0,
                });
                open = !complete;
            }
            Ev::Chunk(b, eof) => {
                if !open {
                    return Err("payload chunk without an open PUBLISH".into());
                }
                if let Some(Whole::Publish { pkt, pieces, payload, finals, .. }) = out.last_mut() {
                    pieces.push((b.len(), *eof));
                    payload.extend_from_slice(b);
                    let d = declared(pkt) as usize;
                    if payload.len() > d {
                        return Err(format!("pieces add up to {} > declared {}", payload.len(), d));
                    }
                    if *eof {
                        *finals += 1;
                        if payload.len() != d {
                            return Err(format!("final piece at {} of declared {}", payload.len(), d));
                        }
                        open = false;
                    } else if payload.len() == d {
                        return Err("all bytes delivered but last piece not marked final".into());
                    }
                }
            }
        }
    }
    Ok((out, open))
}

#[derive(Clone, Debug, PartialEq, Eq)]
pub enum Whole<P, Pub> {
    Packet(P, u32),
    Publish { pkt: Pub, size: u32, pieces: Vec<(usize, bool)>, payload: Vec<u8>, finals: u32 },
}
