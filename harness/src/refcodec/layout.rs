//! Layout map: every structural field of a frame the strict decoder accepts,
//! so that a fuzzer can mutate lengths / identifiers at every nesting level.
//!
//! The map is produced by the very same parser run as `dec::decode` (see
//! `parse.rs`), therefore `layout` succeeds exactly when `decode` succeeds.
//!
//! Depth convention
//! * 0 – fixed header (`FirstByte`, `RemainingLength`)
//! * 1 – variable header and payload; this includes the `PropertyLength`
//!   field of every property block (also of the will properties), because the
//!   length prefix belongs to the enclosing level
//! * 2 – inside a property block (`PropertyId`, and the `StrLen` / `BinLen` /
//!   `VarIntValue` of property values)
//! * 3 – inside the will property block
//!
//! What is recorded
//! * `StrLen` / `BinLen`: the two-byte length prefix (width 2) of every UTF-8
//!   string / binary field, *except* the protocol name whose prefix is
//!   `ProtoNameLen`.  A User Property yields two `StrLen` fields.
//! * `PropertyLength`, `RemainingLength`, `VarIntValue`: width is the encoded
//!   width of the variable byte integer (1..=4).
//! * `PropertyId`: width 1.
//! * `ReasonCode`: CONNACK return / reason code, the reason code of the acks,
//!   DISCONNECT and AUTH (if present), every SUBACK / UNSUBACK payload byte.
//! * `SubOptions`: the byte after each SUBSCRIBE topic filter (both versions).
//! * Fixed-width values without structural meaning (keep alive, Byte/U16/U32
//!   property values, payload bytes) are not listed.

use super::dec::DecErr;
use super::model::Ver;
use super::parse;

#[derive(Debug, Clone, Copy, PartialEq, Eq)]
pub enum FieldKind {
    FirstByte,
    RemainingLength,
    ProtoNameLen,
    ProtoLevel,
    ConnectFlags,
    /// varint
    PropertyLength,
    PropertyId,
    /// u16 prefix of a UTF-8 string
    StrLen,
    /// u16 prefix of binary data
    BinLen,
    PacketId,
    ReasonCode,
    SubOptions,
    /// varint-valued property
    VarIntValue,
    AckFlags,
}

#[derive(Debug, Clone, Copy, PartialEq, Eq)]
pub struct Field {
    pub kind: FieldKind,
    /// offset from the start of the frame
    pub off: usize,
    /// width in bytes
    pub width: usize,
    /// 0 = fixed header, 1 = variable header/payload, 2 = inside a property
    /// block, 3 = inside will properties
    pub depth: u8,
}

/// Structural fields of `frame`, in increasing offset order.
///
/// `frame` must be exactly one frame which `decode(ver, frame)` accepts:
/// an incomplete frame, a malformed frame and bytes after the end of the frame
/// are all errors.
pub fn layout(ver: Ver, frame: &[u8]) -> Result<Vec<Field>, String> {
    match parse::parse_frame(ver, frame, true) {
        Ok(p) => {
            if p.total != frame.len() {
                return Err(format!("{} bytes after the end of the frame", frame.len() - p.total));
            }
            Ok(p.fields)
        }
        Err(DecErr::NeedMore) => Err("incomplete frame".to_string()),
        Err(DecErr::Malformed(e)) => Err(e),
    }
}

#[cfg(test)]
mod tests {
    use super::FieldKind::*;
    use super::*;

    fn f(kind: FieldKind, off: usize, width: usize, depth: u8) -> Field {
        Field { kind, off, width, depth }
    }

    #[test]
    fn connect_v3_full() {
        let frame = [
            0x10, 0x19, 0x00, 0x04, b'M', b'Q', b'T', b'T', 0x04, 0xCE, 0x00, 0x0A, 0x00, 0x01, b'c', 0x00, 0x01, b'w', 0x00, 0x01,
            0xAA, 0x00, 0x01, b'u', 0x00, 0x01, 0x70,
        ];
        assert_eq!(
            layout(Ver::V3, &frame).unwrap(),
            vec![
                f(FirstByte, 0, 1, 0),
                f(RemainingLength, 1, 1, 0),
                f(ProtoNameLen, 2, 2, 1),
                f(ProtoLevel, 8, 1, 1),
                f(ConnectFlags, 9, 1, 1),
                f(StrLen, 12, 2, 1), // client id
                f(StrLen, 15, 2, 1), // will topic
                f(BinLen, 18, 2, 1), // will payload
                f(StrLen, 21, 2, 1), // user name
                f(BinLen, 24, 2, 1), // password
            ]
        );
    }

    #[test]
    fn connect_v5_with_will_properties() {
        let frame = [
            0x10, 45, 0, 4, b'M', b'Q', b'T', b'T', 5, 0x2E, 0, 30, // 0..12
            8, 0x11, 0, 0, 0, 10, 0x21, 0, 20, // 12..21
            0, 2, b'i', b'd', // 21..25
            14, 0x18, 0, 0, 0, 5, 0x01, 1, 0x26, 0, 1, b'a', 0, 1, b'b', // 25..40
            0, 1, b'w', // 40..43
            0, 2, 1, 2, // 43..47
        ];
        assert_eq!(frame.len(), 47);
        assert_eq!(
            layout(Ver::V5, &frame).unwrap(),
            vec![
                f(FirstByte, 0, 1, 0),
                f(RemainingLength, 1, 1, 0),
                f(ProtoNameLen, 2, 2, 1),
                f(ProtoLevel, 8, 1, 1),
                f(ConnectFlags, 9, 1, 1),
                f(PropertyLength, 12, 1, 1),
                f(PropertyId, 13, 1, 2),
                f(PropertyId, 18, 1, 2),
                f(StrLen, 21, 2, 1),
                f(PropertyLength, 25, 1, 1),
                f(PropertyId, 26, 1, 3),
                f(PropertyId, 31, 1, 3),
                f(PropertyId, 33, 1, 3),
                f(StrLen, 34, 2, 3),
                f(StrLen, 37, 2, 3),
                f(StrLen, 40, 2, 1),
                f(BinLen, 43, 2, 1),
            ]
        );
    }

    #[test]
    fn connack_publish_and_acks() {
        assert_eq!(
            layout(Ver::V3, &[0x20, 2, 1, 0]).unwrap(),
            vec![f(FirstByte, 0, 1, 0), f(RemainingLength, 1, 1, 0), f(AckFlags, 2, 1, 1), f(ReasonCode, 3, 1, 1)]
        );
        assert_eq!(
            layout(Ver::V5, &[0x20, 10, 0, 0, 7, 0x12, 0, 1, b'x', 0x13, 0, 9]).unwrap(),
            vec![
                f(FirstByte, 0, 1, 0),
                f(RemainingLength, 1, 1, 0),
                f(AckFlags, 2, 1, 1),
                f(ReasonCode, 3, 1, 1),
                f(PropertyLength, 4, 1, 1),
                f(PropertyId, 5, 1, 2),
                f(StrLen, 6, 2, 2),
                f(PropertyId, 9, 1, 2),
            ]
        );
        // PUBLISH v5 QoS 1 with subscription identifier 321 and correlation data
        let frame = [0x32, 16, 0, 3, b'a', b'/', b'b', 0, 10, 7, 0x0B, 0xC1, 0x02, 0x09, 0, 1, 0xEE, b'p'];
        assert_eq!(
            layout(Ver::V5, &frame).unwrap(),
            vec![
                f(FirstByte, 0, 1, 0),
                f(RemainingLength, 1, 1, 0),
                f(StrLen, 2, 2, 1),
                f(PacketId, 7, 2, 1),
                f(PropertyLength, 9, 1, 1),
                f(PropertyId, 10, 1, 2),
                f(VarIntValue, 11, 2, 2),
                f(PropertyId, 13, 1, 2),
                f(BinLen, 14, 2, 2),
            ]
        );
        assert_eq!(
            layout(Ver::V3, &[0x30, 4, 0, 1, b't', b'p']).unwrap(),
            vec![f(FirstByte, 0, 1, 0), f(RemainingLength, 1, 1, 0), f(StrLen, 2, 2, 1)]
        );
        assert_eq!(
            layout(Ver::V5, &[0x40, 2, 0, 1]).unwrap(),
            vec![f(FirstByte, 0, 1, 0), f(RemainingLength, 1, 1, 0), f(PacketId, 2, 2, 1)]
        );
        assert_eq!(
            layout(Ver::V5, &[0x62, 3, 0, 1, 0x92]).unwrap(),
            vec![f(FirstByte, 0, 1, 0), f(RemainingLength, 1, 1, 0), f(PacketId, 2, 2, 1), f(ReasonCode, 4, 1, 1)]
        );
        assert_eq!(
            layout(Ver::V5, &[0x50, 4, 0, 1, 0x10, 0]).unwrap(),
            vec![
                f(FirstByte, 0, 1, 0),
                f(RemainingLength, 1, 1, 0),
                f(PacketId, 2, 2, 1),
                f(ReasonCode, 4, 1, 1),
                f(PropertyLength, 5, 1, 1)
            ]
        );
    }

    #[test]
    fn subscribe_family_and_the_rest() {
        let frame = [0x82, 15, 0, 10, 0, 0, 3, b'a', b'/', b'b', 1, 0, 3, b'c', b'/', b'd', 2];
        assert_eq!(
            layout(Ver::V5, &frame).unwrap(),
            vec![
                f(FirstByte, 0, 1, 0),
                f(RemainingLength, 1, 1, 0),
                f(PacketId, 2, 2, 1),
                f(PropertyLength, 4, 1, 1),
                f(StrLen, 5, 2, 1),
                f(SubOptions, 10, 1, 1),
                f(StrLen, 11, 2, 1),
                f(SubOptions, 16, 1, 1),
            ]
        );
        assert_eq!(
            layout(Ver::V3, &[0x90, 4, 0, 10, 0, 0x80]).unwrap(),
            vec![
                f(FirstByte, 0, 1, 0),
                f(RemainingLength, 1, 1, 0),
                f(PacketId, 2, 2, 1),
                f(ReasonCode, 4, 1, 1),
                f(ReasonCode, 5, 1, 1)
            ]
        );
        assert_eq!(
            layout(Ver::V3, &[0xA2, 7, 0, 10, 0, 3, b'a', b'/', b'b']).unwrap(),
            vec![f(FirstByte, 0, 1, 0), f(RemainingLength, 1, 1, 0), f(PacketId, 2, 2, 1), f(StrLen, 4, 2, 1)]
        );
        assert_eq!(
            layout(Ver::V5, &[0xB0, 4, 0, 10, 0, 0x11]).unwrap(),
            vec![
                f(FirstByte, 0, 1, 0),
                f(RemainingLength, 1, 1, 0),
                f(PacketId, 2, 2, 1),
                f(PropertyLength, 4, 1, 1),
                f(ReasonCode, 5, 1, 1)
            ]
        );
        // non-minimal remaining length: width 3
        assert_eq!(layout(Ver::V3, &[0xC0, 0x80, 0x80, 0x00]).unwrap(), vec![f(FirstByte, 0, 1, 0), f(RemainingLength, 1, 3, 0)]);
        assert_eq!(layout(Ver::V5, &[0xE0, 0]).unwrap(), vec![f(FirstByte, 0, 1, 0), f(RemainingLength, 1, 1, 0)]);
        assert_eq!(
            layout(Ver::V5, &[0xF0, 2, 0x18, 0]).unwrap(),
            vec![f(FirstByte, 0, 1, 0), f(RemainingLength, 1, 1, 0), f(ReasonCode, 2, 1, 1), f(PropertyLength, 3, 1, 1)]
        );
    }

    #[test]
    fn errors() {
        assert!(layout(Ver::V3, &[]).unwrap_err().contains("incomplete"));
        assert!(layout(Ver::V3, &[0xC0]).unwrap_err().contains("incomplete"));
        assert!(layout(Ver::V3, &[0x40, 2, 0]).unwrap_err().contains("incomplete"));
        assert!(layout(Ver::V3, &[0xC0, 0, 0xC0, 0]).unwrap_err().contains("after the end"));
        assert!(layout(Ver::V3, &[0x40, 2, 0, 0]).unwrap_err().contains("identifier is 0"));
        assert!(layout(Ver::V3, &[0xF0, 0]).is_err());
    }
}
