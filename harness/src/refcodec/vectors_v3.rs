//! Positive MQTT 3.1.1 vectors for `selftest`.
//!
//! Notation: see `selftest::hx` – hex pairs, `'text'` for ASCII.  Every
//! Remaining Length below was computed by hand and is spelled out in the
//! comment of the vector.

use super::model::{Packet, Will};
use super::selftest::{s, v, vd, Vector};

fn connect(
    clean: bool,
    keep_alive: u16,
    client_id: &str,
    will: Option<Will>,
    username: Option<&str>,
    password: Option<&[u8]>,
) -> Packet {
    Packet::Connect {
        level: 4,
        clean,
        keep_alive,
        props: vec![],
        client_id: s(client_id),
        will,
        username: username.map(s),
        password: password.map(|p| p.to_vec()),
    }
}

fn will(qos: u8, retain: bool, topic: &str, payload: &[u8]) -> Option<Will> {
    Some(Will { qos, retain, props: vec![], topic: s(topic), payload: payload.to_vec() })
}

fn publish(dup: bool, qos: u8, retain: bool, topic: &str, pid: Option<u16>, payload: &[u8]) -> Packet {
    Packet::Publish { dup, qos, retain, topic: s(topic), pid, props: vec![], payload: payload.to_vec() }
}

pub(super) fn vectors() -> Vec<Vector> {
    let mut out = vec![
        // ------------------------------------------------------------ CONNECT
        // variable header 10 bytes (2+4 name, level, flags, 2 keep alive) + client id 2 = 12
        v("connect minimal", "10 0C 0004 'MQTT' 04 02 003C 0000", connect(true, 60, "", None, None, None)),
        // The 3.1.1 §3.1.2 example header: flags 0xCE = user name, password, will QoS 1, will flag,
        // clean session; keep alive 10.  10 + (2+8) + (2+6) + (2+4) + (2+4) + (2+4) = 46 = 0x2E
        v(
            "connect spec example header, will + user name + password",
            "10 2E 0004 'MQTT' 04 CE 000A 0008 'client-1' 0006 'will/t' 0004 'gone' 0004 'user' 0004 'pass'",
            connect(true, 10, "client-1", will(1, false, "will/t", b"gone"), Some("user"), Some(b"pass")),
        ),
        // 10 + (2+3) + (2+1) = 18 = 0x12
        v(
            "connect user name only, clean session 0",
            "10 12 0004 'MQTT' 04 80 0000 0003 'abc' 0001 'u'",
            connect(false, 0, "abc", None, Some("u"), None),
        ),
        // flags 0x36 = will retain, will QoS 2, will flag, clean; 10 + 3 + 3 + 2 = 18
        v(
            "connect will QoS 2 retain, empty will payload, keep alive 65535",
            "10 12 0004 'MQTT' 04 36 FFFF 0001 'c' 0001 'w' 0000",
            connect(true, 65535, "c", will(2, true, "w", b""), None, None),
        ),
        // flags 0x42 = password, clean; 3.1.1 forbids it, the oracle accepts it; 10 + 2 + (2+2) = 16
        v(
            "connect password without user name",
            "10 10 0004 'MQTT' 04 42 003C 0000 0002 00FF",
            connect(true, 60, "", None, None, Some(&[0x00, 0xFF])),
        ),
        // flags 0xC4 = user name, password, will QoS 0, no clean; 10 + 2+2 + 2+1 + 2+3 + 2+0 + 2+0 = 26 = 0x1A
        v(
            "connect empty user name and password, binary will payload",
            "10 1A 0004 'MQTT' 04 C4 0001 0002 'id' 0001 't' 0003 00 01 02 0000 0000",
            connect(false, 1, "id", will(0, false, "t", &[0, 1, 2]), Some(""), Some(b"")),
        ),
        vd("connect non-minimal remaining length", "10 8C00 0004 'MQTT' 04 02 003C 0000", connect(true, 60, "", None, None, None)),
        // ------------------------------------------------------------ CONNACK
        v("connack accepted", "20 02 00 00", Packet::ConnAck { session_present: false, code: 0, props: vec![] }),
        v("connack session present", "20 02 01 00", Packet::ConnAck { session_present: true, code: 0, props: vec![] }),
        v("connack unacceptable protocol version", "20 02 00 01", Packet::ConnAck { session_present: false, code: 1, props: vec![] }),
        v("connack identifier rejected", "20 02 00 02", Packet::ConnAck { session_present: false, code: 2, props: vec![] }),
        v("connack server unavailable", "20 02 00 03", Packet::ConnAck { session_present: false, code: 3, props: vec![] }),
        v("connack bad user name or password", "20 02 00 04", Packet::ConnAck { session_present: false, code: 4, props: vec![] }),
        v("connack not authorized", "20 02 00 05", Packet::ConnAck { session_present: false, code: 5, props: vec![] }),
        vd("connack non-minimal remaining length", "20 8200 00 00", Packet::ConnAck { session_present: false, code: 0, props: vec![] }),
        // ------------------------------------------------------------ PUBLISH
        // 3.1.1 §3.3.2 example: topic "a/b", packet identifier 10; 2+3+2 = 7
        v("publish spec example a/b pid 10", "32 07 0003 'a/b' 000A", publish(false, 1, false, "a/b", Some(10), b"")),
        // 2+3+5 = 10
        v("publish QoS 0 hello", "30 0A 0003 'a/b' 'hello'", publish(false, 0, false, "a/b", None, b"hello")),
        // 0x3D = dup, QoS 2, retain; 2+5+2+3 = 12
        v("publish QoS 2 dup retain", "3D 0C 0005 'x/y/z' 1234 'abc'", publish(true, 2, true, "x/y/z", Some(0x1234), b"abc")),
        v("publish QoS 0 retain empty payload", "31 03 0001 't'", publish(false, 0, true, "t", None, b"")),
        // the UTF-8 string example of §1.5.3: "A" followed by U+2A6D4 = 41 F0 AA 9B 94; 2+5+1 = 8
        v("publish topic is the spec UTF-8 example", "30 08 0005 41 F0AA9B94 'p'", publish(false, 0, false, "A\u{2A6D4}", None, b"p")),
        // QoS 1 dup; payload that looks like a frame; 2+1+2+2 = 7
        v("publish QoS 1 dup, payload C0 00", "3A 07 0001 't' FFFF C000", publish(true, 1, false, "t", Some(0xFFFF), &[0xC0, 0x00])),
        // QoS 0: bytes after the topic are payload, never an identifier; 2+1+2 = 5
        v("publish QoS 0 payload 00 00", "30 05 0001 't' 0000", publish(false, 0, false, "t", None, &[0, 0])),
        vd("publish non-minimal remaining length", "30 858000 0001 't' 'hi'", publish(false, 0, false, "t", None, b"hi")),
        // ------------------------------------------------------------- PUBACK
        v("puback 1", "40 02 0001", Packet::PubAck { pid: 1, code: None, props: None }),
        v("puback 65535", "40 02 FFFF", Packet::PubAck { pid: 0xFFFF, code: None, props: None }),
        v("puback 0x1234", "40 02 1234", Packet::PubAck { pid: 0x1234, code: None, props: None }),
        vd("puback non-minimal remaining length", "40 8200 000A", Packet::PubAck { pid: 10, code: None, props: None }),
        // ------------------------------------------------------------- PUBREC
        v("pubrec 1", "50 02 0001", Packet::PubRec { pid: 1, code: None, props: None }),
        v("pubrec 10", "50 02 000A", Packet::PubRec { pid: 10, code: None, props: None }),
        v("pubrec 0x8000", "50 02 8000", Packet::PubRec { pid: 0x8000, code: None, props: None }),
        // ------------------------------------------------------------- PUBREL
        v("pubrel 1", "62 02 0001", Packet::PubRel { pid: 1, code: None, props: None }),
        v("pubrel 10", "62 02 000A", Packet::PubRel { pid: 10, code: None, props: None }),
        v("pubrel 65535", "62 02 FFFF", Packet::PubRel { pid: 0xFFFF, code: None, props: None }),
        // ------------------------------------------------------------ PUBCOMP
        v("pubcomp 1", "70 02 0001", Packet::PubComp { pid: 1, code: None, props: None }),
        v("pubcomp 10", "70 02 000A", Packet::PubComp { pid: 10, code: None, props: None }),
        v("pubcomp 256", "70 02 0100", Packet::PubComp { pid: 256, code: None, props: None }),
        // ---------------------------------------------------------- SUBSCRIBE
        // 3.1.1 §3.8.3 example: "a/b" QoS 1, "c/d" QoS 2, identifier 10; 2 + 6 + 6 = 14
        v(
            "subscribe spec example two filters",
            "82 0E 000A 0003 'a/b' 01 0003 'c/d' 02",
            Packet::Subscribe { pid: 10, props: vec![], filters: vec![(s("a/b"), 1), (s("c/d"), 2)] },
        ),
        v("subscribe # QoS 0", "82 06 0001 0001 '#' 00", Packet::Subscribe { pid: 1, props: vec![], filters: vec![(s("#"), 0)] }),
        // 2 + 2+7+1 = 12
        v(
            "subscribe sport/+ QoS 2",
            "82 0C 1234 0007 'sport/+' 02",
            Packet::Subscribe { pid: 0x1234, props: vec![], filters: vec![(s("sport/+"), 2)] },
        ),
        // 2 + 4 + 4 + 4 = 14
        v(
            "subscribe three filters",
            "82 0E FFFF 0001 'a' 00 0001 'b' 01 0001 'c' 02",
            Packet::Subscribe { pid: 0xFFFF, props: vec![], filters: vec![(s("a"), 0), (s("b"), 1), (s("c"), 2)] },
        ),
        // ------------------------------------------------------------- SUBACK
        // 3.1.1 §3.9.3 example: success QoS 0, success QoS 2, failure
        v("suback spec example 00 02 80", "90 05 000A 00 02 80", Packet::SubAck { pid: 10, props: vec![], codes: vec![0, 2, 0x80] }),
        v("suback single QoS 1", "90 03 0001 01", Packet::SubAck { pid: 1, props: vec![], codes: vec![1] }),
        v("suback 02 80", "90 04 1234 02 80", Packet::SubAck { pid: 0x1234, props: vec![], codes: vec![2, 0x80] }),
        // -------------------------------------------------------- UNSUBSCRIBE
        // 3.1.1 §3.10.3 example: "a/b", "c/d"; 2 + 5 + 5 = 12
        v(
            "unsubscribe spec example two filters",
            "A2 0C 000A 0003 'a/b' 0003 'c/d'",
            Packet::Unsubscribe { pid: 10, props: vec![], filters: vec![s("a/b"), s("c/d")] },
        ),
        v("unsubscribe #", "A2 05 0001 0001 '#'", Packet::Unsubscribe { pid: 1, props: vec![], filters: vec![s("#")] }),
        v(
            "unsubscribe sport/+",
            "A2 0B 1234 0007 'sport/+'",
            Packet::Unsubscribe { pid: 0x1234, props: vec![], filters: vec![s("sport/+")] },
        ),
        // ----------------------------------------------------------- UNSUBACK
        v("unsuback 10", "B0 02 000A", Packet::UnsubAck { pid: 10, props: vec![], codes: vec![] }),
        v("unsuback 1", "B0 02 0001", Packet::UnsubAck { pid: 1, props: vec![], codes: vec![] }),
        v("unsuback 65535", "B0 02 FFFF", Packet::UnsubAck { pid: 0xFFFF, props: vec![], codes: vec![] }),
        // --------------------------------------------- PINGREQ / PINGRESP / DISCONNECT
        v("pingreq", "C0 00", Packet::PingReq),
        vd("pingreq remaining length in 2 bytes", "C0 8000", Packet::PingReq),
        vd("pingreq remaining length in 3 bytes", "C0 808000", Packet::PingReq),
        vd("pingreq remaining length in 4 bytes", "C0 80808000", Packet::PingReq),
        v("pingresp", "D0 00", Packet::PingResp),
        vd("pingresp remaining length in 2 bytes", "D0 8000", Packet::PingResp),
        vd("pingresp remaining length in 3 bytes", "D0 808000", Packet::PingResp),
        vd("pingresp remaining length in 4 bytes", "D0 80808000", Packet::PingResp),
        v("disconnect", "E0 00", Packet::Disconnect { code: None, props: None }),
        vd("disconnect remaining length in 2 bytes", "E0 8000", Packet::Disconnect { code: None, props: None }),
        vd("disconnect remaining length in 3 bytes", "E0 808000", Packet::Disconnect { code: None, props: None }),
        vd("disconnect remaining length in 4 bytes", "E0 80808000", Packet::Disconnect { code: None, props: None }),
    ];

    // PUBLISH whose Remaining Length needs two bytes: topic "t" (3) + 200 payload bytes = 203 = CB 01
    let lit = format!("30 CB01 0001 't' {}", "A5".repeat(200));
    out.push(Vector {
        name: "publish remaining length 203 (two-byte varint)",
        bytes: super::selftest::hx(&lit),
        packet: publish(false, 0, false, "t", None, &[0xA5; 200]),
        both: true,
    });
    // ... and three bytes: 3 + 16_381 = 16_384 = 80 80 01
    let lit = format!("30 808001 0001 't' {}", "5A".repeat(16_381));
    out.push(Vector {
        name: "publish remaining length 16384 (three-byte varint)",
        bytes: super::selftest::hx(&lit),
        packet: publish(false, 0, false, "t", None, &vec![0x5A; 16_381]),
        both: true,
    });
    out
}
