//! Positive MQTT 5.0 vectors for `selftest`.
//!
//! Notation: see `selftest::hx`.  Lengths are computed by hand; the sums are
//! spelled out in the comments ("(n)" is the encoded size of a property
//! including its identifier byte).

use super::model::{Packet, Prop, Will};
use super::selftest::{s, v, vd, Vector};

fn pair(k: &str, val: &str) -> Prop {
    Prop::Pair(0x26, s(k), s(val))
}

fn st(id: u8, x: &str) -> Prop {
    Prop::Str(id, s(x))
}

#[allow(clippy::too_many_arguments)]
fn connect(
    clean: bool,
    keep_alive: u16,
    props: Vec<Prop>,
    client_id: &str,
    will: Option<Will>,
    username: Option<&str>,
    password: Option<&[u8]>,
) -> Packet {
    Packet::Connect {
        level: 5,
        clean,
        keep_alive,
        props,
        client_id: s(client_id),
        will,
        username: username.map(s),
        password: password.map(|p| p.to_vec()),
    }
}

#[allow(clippy::too_many_arguments)]
fn publish(dup: bool, qos: u8, retain: bool, topic: &str, pid: Option<u16>, props: Vec<Prop>, payload: &[u8]) -> Packet {
    Packet::Publish { dup, qos, retain, topic: s(topic), pid, props, payload: payload.to_vec() }
}

pub(super) fn vectors() -> Vec<Vector> {
    vec![
        // ------------------------------------------------------------ CONNECT
        // 10 (variable header) + 1 (property length) + 2 (client id) = 13
        v("connect minimal", "10 0D 0004 'MQTT' 05 02 003C 00 0000", connect(true, 60, vec![], "", None, None, None)),
        // MQTT 5 §3.1.2 example header: flags 0xCE, keep alive 10, property length 5,
        // Session Expiry Interval (0x11) = 10.
        // 10 + 6 + (2+2) + 1 + (2+3) + (2+3) + (2+4) + (2+2) = 41 = 0x29
        v(
            "connect spec example header, will + user name + password",
            "10 29 0004 'MQTT' 05 CE 000A 05 11 0000000A 0002 'c1' 00 0003 'w/t' 0003 'bye' 0004 'user' 0002 'pw'",
            connect(
                true,
                10,
                vec![Prop::U32(0x11, 10)],
                "c1",
                Some(Will { qos: 1, retain: false, props: vec![], topic: s("w/t"), payload: b"bye".to_vec() }),
                Some("user"),
                Some(b"pw"),
            ),
        ),
        // all nine CONNECT properties: 0x11 (5) 0x21 (3) 0x27 (5) 0x22 (3) 0x19 (2) 0x17 (2)
        // 0x26 (7) 0x15 (8) 0x16 (6) = 41 = 0x29; 10 + 1 + 41 + (2+3) = 57 = 0x39
        v(
            "connect with every connect property",
            "10 39 0004 'MQTT' 05 02 001E 29 11 00000E10 21 0064 27 00100000 22 000A 19 01 17 00 \
             26 0001 'k' 0001 'v' 15 0005 'SCRAM' 16 0003 010203 0003 'dev'",
            connect(
                true,
                30,
                vec![
                    Prop::U32(0x11, 3600),
                    Prop::U16(0x21, 100),
                    Prop::U32(0x27, 1_048_576),
                    Prop::U16(0x22, 10),
                    Prop::Byte(0x19, 1),
                    Prop::Byte(0x17, 0),
                    pair("k", "v"),
                    st(0x15, "SCRAM"),
                    Prop::Bin(0x16, vec![1, 2, 3]),
                ],
                "dev",
                None,
                None,
                None,
            ),
        ),
        // flags 0x2E = will retain, will QoS 1, will flag, clean.  All seven will properties:
        // 0x18 (5) 0x01 (2) 0x02 (5) 0x03 (7) 0x08 (4) 0x09 (5) 0x26 (7) = 35 = 0x23
        // 10 + 1 + 2 + 1 + 35 + (2+1) + (2+1) = 55 = 0x37
        v(
            "connect with every will property",
            "10 37 0004 'MQTT' 05 2E 0000 00 0000 23 18 00000005 01 01 02 0000003C 03 0004 'text' 08 0001 'r' \
             09 0002 ABCD 26 0001 'a' 0001 'b' 0001 'w' 0001 'x'",
            connect(
                true,
                0,
                vec![],
                "",
                Some(Will {
                    qos: 1,
                    retain: true,
                    props: vec![
                        Prop::U32(0x18, 5),
                        Prop::Byte(0x01, 1),
                        Prop::U32(0x02, 60),
                        st(0x03, "text"),
                        st(0x08, "r"),
                        Prop::Bin(0x09, vec![0xAB, 0xCD]),
                        pair("a", "b"),
                    ],
                    topic: s("w"),
                    payload: b"x".to_vec(),
                }),
                None,
                None,
            ),
        ),
        // flags 0x42: password without user name is legal in MQTT 5; 10 + 1 + 2 + (2+2) = 17
        v(
            "connect password without user name",
            "10 11 0004 'MQTT' 05 42 003C 00 0000 0002 'pw'",
            connect(true, 60, vec![], "", None, None, Some(b"pw")),
        ),
        // the same user property name twice, order preserved: 7 + 7 = 14; 10 + 1 + 14 + 2 = 27
        v(
            "connect user property twice",
            "10 1B 0004 'MQTT' 05 00 0000 0E 26 0001 'a' 0001 '1' 26 0001 'a' 0001 '2' 0000",
            connect(false, 0, vec![pair("a", "1"), pair("a", "2")], "", None, None, None),
        ),
        vd(
            "connect non-minimal property length",
            "10 0E 0004 'MQTT' 05 02 003C 8000 0000",
            connect(true, 60, vec![], "", None, None, None),
        ),
        // ------------------------------------------------------------ CONNACK
        v("connack success", "20 03 00 00 00", Packet::ConnAck { session_present: false, code: 0, props: vec![] }),
        // 0x12 "auto-1" (9) + 0x13 (3) = 12; 2 + 1 + 12 = 15
        v(
            "connack session present, assigned client id, server keep alive",
            "20 0F 01 00 0C 12 0006 'auto-1' 13 0078",
            Packet::ConnAck { session_present: true, code: 0, props: vec![st(0x12, "auto-1"), Prop::U16(0x13, 120)] },
        ),
        // 2 + 1 + 5 = 8
        v(
            "connack not authorized with reason string",
            "20 08 00 87 05 1F 0002 'no'",
            Packet::ConnAck { session_present: false, code: 0x87, props: vec![st(0x1F, "no")] },
        ),
        // 0x11 (5) 0x21 (3) 0x24 (2) 0x25 (2) 0x27 (5) 0x22 (3) 0x28 (2) 0x29 (2) 0x2A (2) 0x1A (5)
        // 0x1C (6) 0x15 (4) 0x16 (4) 0x26 (7) = 52 = 0x34; 2 + 1 + 52 = 55 = 0x37
        v(
            "connack with server capability properties",
            "20 37 00 00 34 11 00000000 21 000A 24 01 25 00 27 00010000 22 0000 28 01 29 00 2A 01 \
             1A 0002 'ri' 1C 0003 'h:1' 15 0001 'm' 16 0001 FF 26 0001 'x' 0001 'y'",
            Packet::ConnAck {
                session_present: false,
                code: 0,
                props: vec![
                    Prop::U32(0x11, 0),
                    Prop::U16(0x21, 10),
                    Prop::Byte(0x24, 1),
                    Prop::Byte(0x25, 0),
                    Prop::U32(0x27, 65_536),
                    Prop::U16(0x22, 0),
                    Prop::Byte(0x28, 1),
                    Prop::Byte(0x29, 0),
                    Prop::Byte(0x2A, 1),
                    st(0x1A, "ri"),
                    st(0x1C, "h:1"),
                    st(0x15, "m"),
                    Prop::Bin(0x16, vec![0xFF]),
                    pair("x", "y"),
                ],
            },
        ),
        // 2 + 1 + 8 = 11
        v(
            "connack use another server",
            "20 0B 00 9C 08 1C 0005 'other'",
            Packet::ConnAck { session_present: false, code: 0x9C, props: vec![st(0x1C, "other")] },
        ),
        // ------------------------------------------------------------ PUBLISH
        // 5 + 1 + 5 = 11
        v("publish QoS 0 no properties", "30 0B 0003 'a/b' 00 'hello'", publish(false, 0, false, "a/b", None, vec![], b"hello")),
        // MQTT 5 §3.3.2 example: topic "a/b", packet identifier 10, property length 0; 5 + 2 + 1 = 8
        v("publish spec example a/b pid 10", "32 08 0003 'a/b' 000A 00", publish(false, 1, false, "a/b", Some(10), vec![], b"")),
        // 0x01 (2) 0x02 (5) 0x23 (3) 0x08 (5) 0x09 (5) 0x03 (7) 0x26 (7) 0x0B (3) = 37 = 0x25
        // 5 + 2 + 1 + 37 + 2 = 47 = 0x2F
        v(
            "publish QoS 2 with every publish property",
            "34 2F 0003 't/1' 0102 25 01 01 02 0000012C 23 0005 08 0002 're' 09 0002 0102 03 0004 'json' \
             26 0001 'k' 0001 'v' 0B C102 '{}'",
            publish(
                false,
                2,
                false,
                "t/1",
                Some(0x0102),
                vec![
                    Prop::Byte(0x01, 1),
                    Prop::U32(0x02, 300),
                    Prop::U16(0x23, 5),
                    st(0x08, "re"),
                    Prop::Bin(0x09, vec![1, 2]),
                    st(0x03, "json"),
                    pair("k", "v"),
                    Prop::VarInt(0x0B, 321),
                ],
                b"{}",
            ),
        ),
        // empty topic name + topic alias: 2 + 1 + 3 + 1 = 7
        v(
            "publish topic alias with empty topic",
            "30 07 0000 03 23 0001 'x'",
            publish(false, 0, false, "", None, vec![Prop::U16(0x23, 1)], b"x"),
        ),
        // Subscription Identifier may repeat in PUBLISH: (2) + (5) = 7; 3 + 1 + 7 = 11
        v(
            "publish retain with two subscription identifiers",
            "31 0B 0001 't' 07 0B 01 0B FFFFFF7F",
            publish(false, 0, true, "t", None, vec![Prop::VarInt(0x0B, 1), Prop::VarInt(0x0B, 268_435_455)], b""),
        ),
        // 3 + 2 + 1 + 1 = 7
        v("publish QoS 1 dup", "3A 07 0001 't' 0001 00 'p'", publish(true, 1, false, "t", Some(1), vec![], b"p")),
        vd(
            "publish non-minimal subscription identifier",
            "30 08 0001 't' 03 0B 8100 'p'",
            publish(false, 0, false, "t", None, vec![Prop::VarInt(0x0B, 1)], b"p"),
        ),
        // ------------------------------------------------------------- PUBACK
        v("puback 2-byte form", "40 02 0001", Packet::PubAck { pid: 1, code: None, props: None }),
        v("puback 3-byte form no matching subscribers", "40 03 0001 10", Packet::PubAck { pid: 1, code: Some(0x10), props: None }),
        v("puback 4-byte form empty properties", "40 04 0001 00 00", Packet::PubAck { pid: 1, code: Some(0), props: Some(vec![]) }),
        // 0x1F "quota" (8) + 0x26 (7) = 15; 2 + 1 + 1 + 15 = 19 = 0x13
        v(
            "puback quota exceeded with reason string and user property",
            "40 13 000A 97 0F 1F 0005 'quota' 26 0001 'a' 0001 'b'",
            Packet::PubAck { pid: 10, code: Some(0x97), props: Some(vec![st(0x1F, "quota"), pair("a", "b")]) },
        ),
        // ------------------------------------------------------------- PUBREC
        v("pubrec 2-byte form", "50 02 0001", Packet::PubRec { pid: 1, code: None, props: None }),
        v("pubrec 3-byte form success", "50 03 0001 00", Packet::PubRec { pid: 1, code: Some(0), props: None }),
        v("pubrec 3-byte form packet identifier in use", "50 03 FFFF 91", Packet::PubRec { pid: 0xFFFF, code: Some(0x91), props: None }),
        // 2 + 1 + 1 + 5 = 9
        v(
            "pubrec unspecified error with reason string",
            "50 09 000A 80 05 1F 0002 'no'",
            Packet::PubRec { pid: 10, code: Some(0x80), props: Some(vec![st(0x1F, "no")]) },
        ),
        // ------------------------------------------------------------- PUBREL
        v("pubrel 2-byte form", "62 02 0001", Packet::PubRel { pid: 1, code: None, props: None }),
        v("pubrel 3-byte form identifier not found", "62 03 0001 92", Packet::PubRel { pid: 1, code: Some(0x92), props: None }),
        v("pubrel 4-byte form empty properties", "62 04 0001 00 00", Packet::PubRel { pid: 1, code: Some(0), props: Some(vec![]) }),
        // 2 + 1 + 1 + 7 = 11
        v(
            "pubrel with user property",
            "62 0B 000A 92 07 26 0001 'k' 0001 'v'",
            Packet::PubRel { pid: 10, code: Some(0x92), props: Some(vec![pair("k", "v")]) },
        ),
        // ------------------------------------------------------------ PUBCOMP
        v("pubcomp 2-byte form", "70 02 0001", Packet::PubComp { pid: 1, code: None, props: None }),
        v("pubcomp 3-byte form success", "70 03 0001 00", Packet::PubComp { pid: 1, code: Some(0), props: None }),
        v("pubcomp 3-byte form identifier not found", "70 03 0002 92", Packet::PubComp { pid: 2, code: Some(0x92), props: None }),
        // 2 + 1 + 1 + 8 = 12
        v(
            "pubcomp with reason string",
            "70 0C 000A 92 08 1F 0005 'gone!'",
            Packet::PubComp { pid: 10, code: Some(0x92), props: Some(vec![st(0x1F, "gone!")]) },
        ),
        // ---------------------------------------------------------- SUBSCRIBE
        // MQTT 5 §3.8.3 example filters "a/b" (options 1) and "c/d" (options 2); 2 + 1 + 6 + 6 = 15
        v(
            "subscribe spec example two filters",
            "82 0F 000A 00 0003 'a/b' 01 0003 'c/d' 02",
            Packet::Subscribe { pid: 10, props: vec![], filters: vec![(s("a/b"), 1), (s("c/d"), 2)] },
        ),
        // options 0x2D = retain handling 2, RAP, NL, QoS 1; props (2) + (7) = 9; 2 + 1 + 9 + 9 + 1 = 22
        v(
            "subscribe with subscription identifier, user property, all option bits",
            "82 16 1234 09 0B 07 26 0001 'k' 0001 'v' 0007 'sport/#' 2D",
            Packet::Subscribe { pid: 0x1234, props: vec![Prop::VarInt(0x0B, 7), pair("k", "v")], filters: vec![(s("sport/#"), 0x2D)] },
        ),
        // options 0x1C = retain handling 1, RAP, NL, QoS 0; 2 + 1 + 3 + 1 = 7
        v("subscribe # options 1C", "82 07 0001 00 0001 '#' 1C", Packet::Subscribe { pid: 1, props: vec![], filters: vec![(s("#"), 0x1C)] }),
        // 2 + 1 + 12 + 1 = 16
        v(
            "subscribe shared subscription filter",
            "82 10 0002 00 000A '$share/g/t' 02",
            Packet::Subscribe { pid: 2, props: vec![], filters: vec![(s("$share/g/t"), 2)] },
        ),
        // ------------------------------------------------------------- SUBACK
        v("suback 00 02 80", "90 06 000A 00 00 02 80", Packet::SubAck { pid: 10, props: vec![], codes: vec![0, 2, 0x80] }),
        v("suback single granted QoS 1", "90 04 0001 00 01", Packet::SubAck { pid: 1, props: vec![], codes: vec![1] }),
        // 2 + 1 + 6 + 5 = 14
        v(
            "suback with reason string and v5-only codes",
            "90 0E 1234 06 1F 0003 'bad' 87 8F 9E A1 A2",
            Packet::SubAck { pid: 0x1234, props: vec![st(0x1F, "bad")], codes: vec![0x87, 0x8F, 0x9E, 0xA1, 0xA2] },
        ),
        v("suback 83 91 97 01", "90 07 0002 00 83 91 97 01", Packet::SubAck { pid: 2, props: vec![], codes: vec![0x83, 0x91, 0x97, 1] }),
        // -------------------------------------------------------- UNSUBSCRIBE
        // 2 + 1 + 5 + 5 = 13
        v(
            "unsubscribe two filters",
            "A2 0D 000A 00 0003 'a/b' 0003 'c/d'",
            Packet::Unsubscribe { pid: 10, props: vec![], filters: vec![s("a/b"), s("c/d")] },
        ),
        v("unsubscribe #", "A2 06 0001 00 0001 '#'", Packet::Unsubscribe { pid: 1, props: vec![], filters: vec![s("#")] }),
        // 2 + 1 + 7 + 5 = 15
        v(
            "unsubscribe with user property",
            "A2 0F 1234 07 26 0001 'k' 0001 'v' 0003 'x/y'",
            Packet::Unsubscribe { pid: 0x1234, props: vec![pair("k", "v")], filters: vec![s("x/y")] },
        ),
        // ----------------------------------------------------------- UNSUBACK
        v("unsuback 00 11", "B0 05 000A 00 00 11", Packet::UnsubAck { pid: 10, props: vec![], codes: vec![0, 0x11] }),
        v("unsuback single success", "B0 04 0001 00 00", Packet::UnsubAck { pid: 1, props: vec![], codes: vec![0] }),
        // 2 + 1 + 5 + 5 = 13
        v(
            "unsuback with reason string and error codes",
            "B0 0D 1234 05 1F 0002 'no' 80 83 87 8F 91",
            Packet::UnsubAck { pid: 0x1234, props: vec![st(0x1F, "no")], codes: vec![0x80, 0x83, 0x87, 0x8F, 0x91] },
        ),
        // ------------------------------------------------- PINGREQ / PINGRESP
        v("pingreq", "C0 00", Packet::PingReq),
        vd("pingreq remaining length in 2 bytes", "C0 8000", Packet::PingReq),
        vd("pingreq remaining length in 4 bytes", "C0 80808000", Packet::PingReq),
        v("pingresp", "D0 00", Packet::PingResp),
        vd("pingresp remaining length in 2 bytes", "D0 8000", Packet::PingResp),
        vd("pingresp remaining length in 3 bytes", "D0 808000", Packet::PingResp),
        // --------------------------------------------------------- DISCONNECT
        v("disconnect remaining length 0", "E0 00", Packet::Disconnect { code: None, props: None }),
        v("disconnect remaining length 1, with will message", "E0 01 04", Packet::Disconnect { code: Some(4), props: None }),
        v("disconnect remaining length 2, empty properties", "E0 02 00 00", Packet::Disconnect { code: Some(0), props: Some(vec![]) }),
        // 0x1F "shutdown" (11) + 0x26 (9) + 0x26 (9) + 0x1C "other" (8) = 37 = 0x25; 1 + 1 + 37 = 39 = 0x27
        v(
            "disconnect server shutting down with reason string, two user properties, server reference",
            "E0 27 8B 25 1F 0008 'shutdown' 26 0002 'k1' 0002 'v1' 26 0002 'k2' 0002 'v2' 1C 0005 'other'",
            Packet::Disconnect {
                code: Some(0x8B),
                props: Some(vec![st(0x1F, "shutdown"), pair("k1", "v1"), pair("k2", "v2"), st(0x1C, "other")]),
            },
        ),
        v(
            "disconnect with session expiry interval 0",
            "E0 07 00 05 11 00000000",
            Packet::Disconnect { code: Some(0), props: Some(vec![Prop::U32(0x11, 0)]) },
        ),
        // --------------------------------------------------------------- AUTH
        v("auth remaining length 0", "F0 00", Packet::Auth { code: None, props: None }),
        v("auth remaining length 1, continue", "F0 01 18", Packet::Auth { code: Some(0x18), props: None }),
        v("auth re-authenticate, empty properties", "F0 02 19 00", Packet::Auth { code: Some(0x19), props: Some(vec![]) }),
        // 0x15 (8) + 0x16 (7) + 0x1F (4) + 0x26 (7) = 26 = 0x1A; 1 + 1 + 26 = 28 = 0x1C
        v(
            "auth continue with every auth property",
            "F0 1C 18 1A 15 0005 'SCRAM' 16 0004 DEADBEEF 1F 0001 'r' 26 0001 'a' 0001 'b'",
            Packet::Auth {
                code: Some(0x18),
                props: Some(vec![st(0x15, "SCRAM"), Prop::Bin(0x16, vec![0xDE, 0xAD, 0xBE, 0xEF]), st(0x1F, "r"), pair("a", "b")]),
            },
        ),
        v(
            "auth success with method",
            "F0 06 00 04 15 0001 'X'",
            Packet::Auth { code: Some(0), props: Some(vec![st(0x15, "X")]) },
        ),
    ]
}
