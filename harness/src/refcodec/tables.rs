//! Static tables taken from the specifications.
//!
//! * Property table: MQTT 5.0 §2.2.2.2 "Property", Table 2-4.
//! * Reason codes: MQTT 5.0 §3.2.2.2 (CONNACK), §3.4.2.1 (PUBACK), §3.5.2.1
//!   (PUBREC), §3.6.2.1 (PUBREL), §3.7.2.1 (PUBCOMP), §3.9.3 (SUBACK),
//!   §3.11.3 (UNSUBACK), §3.14.2.1 (DISCONNECT), §3.15.2.1 (AUTH).
//! * MQTT 3.1.1: §3.2.2.3 CONNACK return codes (Table 3.1), §3.9.3 SUBACK
//!   return codes.

use super::model::Ver;

/// Wire type of a property value (MQTT 5 §2.2.2.2, column "Type").
#[derive(Debug, Clone, Copy, PartialEq, Eq, Hash)]
pub enum PropKind {
    Byte,
    U16,
    U32,
    VarInt,
    Str,
    Bin,
    Pair,
}

// Property identifiers -------------------------------------------------------

pub const PAYLOAD_FORMAT_INDICATOR: u8 = 0x01;
pub const MESSAGE_EXPIRY_INTERVAL: u8 = 0x02;
pub const CONTENT_TYPE: u8 = 0x03;
pub const RESPONSE_TOPIC: u8 = 0x08;
pub const CORRELATION_DATA: u8 = 0x09;
pub const SUBSCRIPTION_IDENTIFIER: u8 = 0x0B;
pub const SESSION_EXPIRY_INTERVAL: u8 = 0x11;
pub const ASSIGNED_CLIENT_IDENTIFIER: u8 = 0x12;
pub const SERVER_KEEP_ALIVE: u8 = 0x13;
pub const AUTHENTICATION_METHOD: u8 = 0x15;
pub const AUTHENTICATION_DATA: u8 = 0x16;
pub const REQUEST_PROBLEM_INFORMATION: u8 = 0x17;
pub const WILL_DELAY_INTERVAL: u8 = 0x18;
pub const REQUEST_RESPONSE_INFORMATION: u8 = 0x19;
pub const RESPONSE_INFORMATION: u8 = 0x1A;
pub const SERVER_REFERENCE: u8 = 0x1C;
pub const REASON_STRING: u8 = 0x1F;
pub const RECEIVE_MAXIMUM: u8 = 0x21;
pub const TOPIC_ALIAS_MAXIMUM: u8 = 0x22;
pub const TOPIC_ALIAS: u8 = 0x23;
pub const MAXIMUM_QOS: u8 = 0x24;
pub const RETAIN_AVAILABLE: u8 = 0x25;
pub const USER_PROPERTY: u8 = 0x26;
pub const MAXIMUM_PACKET_SIZE: u8 = 0x27;
pub const WILDCARD_SUBSCRIPTION_AVAILABLE: u8 = 0x28;
pub const SUBSCRIPTION_IDENTIFIER_AVAILABLE: u8 = 0x29;
pub const SHARED_SUBSCRIPTION_AVAILABLE: u8 = 0x2A;

/// All 27 property identifiers MQTT 5.0 defines, ascending.
pub const ALL_PROPERTY_IDS: &[u8] = &[
    0x01, 0x02, 0x03, 0x08, 0x09, 0x0B, 0x11, 0x12, 0x13, 0x15, 0x16, 0x17, 0x18, 0x19, 0x1A, 0x1C,
    0x1F, 0x21, 0x22, 0x23, 0x24, 0x25, 0x26, 0x27, 0x28, 0x29, 0x2A,
];

/// Wire type of the property `id`, `None` if MQTT 5.0 does not define `id`.
pub fn prop_kind(id: u8) -> Option<PropKind> {
    Some(match id {
        0x01 => PropKind::Byte,   // Payload Format Indicator
        0x02 => PropKind::U32,    // Message Expiry Interval
        0x03 => PropKind::Str,    // Content Type
        0x08 => PropKind::Str,    // Response Topic
        0x09 => PropKind::Bin,    // Correlation Data
        0x0B => PropKind::VarInt, // Subscription Identifier
        0x11 => PropKind::U32,    // Session Expiry Interval
        0x12 => PropKind::Str,    // Assigned Client Identifier
        0x13 => PropKind::U16,    // Server Keep Alive
        0x15 => PropKind::Str,    // Authentication Method
        0x16 => PropKind::Bin,    // Authentication Data
        0x17 => PropKind::Byte,   // Request Problem Information
        0x18 => PropKind::U32,    // Will Delay Interval
        0x19 => PropKind::Byte,   // Request Response Information
        0x1A => PropKind::Str,    // Response Information
        0x1C => PropKind::Str,    // Server Reference
        0x1F => PropKind::Str,    // Reason String
        0x21 => PropKind::U16,    // Receive Maximum
        0x22 => PropKind::U16,    // Topic Alias Maximum
        0x23 => PropKind::U16,    // Topic Alias
        0x24 => PropKind::Byte,   // Maximum QoS
        0x25 => PropKind::Byte,   // Retain Available
        0x26 => PropKind::Pair,   // User Property
        0x27 => PropKind::U32,    // Maximum Packet Size
        0x28 => PropKind::Byte,   // Wildcard Subscription Available
        0x29 => PropKind::Byte,   // Subscription Identifier Available
        0x2A => PropKind::Byte,   // Shared Subscription Available
        _ => return None,
    })
}

/// Specification name of a property identifier ("unknown property" if undefined).
pub fn prop_name(id: u8) -> &'static str {
    match id {
        0x01 => "Payload Format Indicator",
        0x02 => "Message Expiry Interval",
        0x03 => "Content Type",
        0x08 => "Response Topic",
        0x09 => "Correlation Data",
        0x0B => "Subscription Identifier",
        0x11 => "Session Expiry Interval",
        0x12 => "Assigned Client Identifier",
        0x13 => "Server Keep Alive",
        0x15 => "Authentication Method",
        0x16 => "Authentication Data",
        0x17 => "Request Problem Information",
        0x18 => "Will Delay Interval",
        0x19 => "Request Response Information",
        0x1A => "Response Information",
        0x1C => "Server Reference",
        0x1F => "Reason String",
        0x21 => "Receive Maximum",
        0x22 => "Topic Alias Maximum",
        0x23 => "Topic Alias",
        0x24 => "Maximum QoS",
        0x25 => "Retain Available",
        0x26 => "User Property",
        0x27 => "Maximum Packet Size",
        0x28 => "Wildcard Subscription Available",
        0x29 => "Subscription Identifier Available",
        0x2A => "Shared Subscription Available",
        _ => "unknown property",
    }
}

const PROPS_CONNECT: &[u8] = &[0x11, 0x15, 0x16, 0x17, 0x19, 0x21, 0x22, 0x26, 0x27];
const PROPS_WILL: &[u8] = &[0x01, 0x02, 0x03, 0x08, 0x09, 0x18, 0x26];
const PROPS_CONNACK: &[u8] = &[
    0x11, 0x12, 0x13, 0x15, 0x16, 0x1A, 0x1C, 0x1F, 0x21, 0x22, 0x24, 0x25, 0x26, 0x27, 0x28, 0x29,
    0x2A,
];
const PROPS_PUBLISH: &[u8] = &[0x01, 0x02, 0x03, 0x08, 0x09, 0x0B, 0x23, 0x26];
const PROPS_PUBLISH_ACK: &[u8] = &[0x1F, 0x26]; // PUBACK, PUBREC, PUBREL, PUBCOMP
const PROPS_SUBSCRIBE: &[u8] = &[0x0B, 0x26];
const PROPS_SUBACK: &[u8] = &[0x1F, 0x26];
const PROPS_UNSUBSCRIBE: &[u8] = &[0x26];
const PROPS_UNSUBACK: &[u8] = &[0x1F, 0x26];
const PROPS_DISCONNECT: &[u8] = &[0x11, 0x1C, 0x1F, 0x26];
const PROPS_AUTH: &[u8] = &[0x15, 0x16, 0x1F, 0x26];
const NONE: &[u8] = &[];

/// MQTT 5: property identifiers allowed in the property block of the packet
/// type `type_nibble` (ascending).  With `will == true` the Will Properties of
/// the CONNECT payload are meant (`type_nibble` is then ignored, since only
/// CONNECT has them).
pub fn allowed_props(type_nibble: u8, will: bool) -> &'static [u8] {
    if will {
        return PROPS_WILL;
    }
    match type_nibble {
        1 => PROPS_CONNECT,
        2 => PROPS_CONNACK,
        3 => PROPS_PUBLISH,
        4..=7 => PROPS_PUBLISH_ACK,
        8 => PROPS_SUBSCRIBE,
        9 => PROPS_SUBACK,
        10 => PROPS_UNSUBSCRIBE,
        11 => PROPS_UNSUBACK,
        14 => PROPS_DISCONNECT,
        15 => PROPS_AUTH,
        _ => NONE, // 0 reserved, 12 PINGREQ, 13 PINGRESP
    }
}

// Reason codes ---------------------------------------------------------------

/// MQTT 3.1.1 Table 3.1 – Connect Return code values (6..=255 are reserved).
const V3_CONNACK: &[u8] = &[0x00, 0x01, 0x02, 0x03, 0x04, 0x05];
/// MQTT 3.1.1 §3.9.3 – SUBACK return codes.
const V3_SUBACK: &[u8] = &[0x00, 0x01, 0x02, 0x80];

/// MQTT 5 §3.2.2.2 Connect Reason Code.
const V5_CONNACK: &[u8] = &[
    0x00, // Success
    0x80, // Unspecified error
    0x81, // Malformed Packet
    0x82, // Protocol Error
    0x83, // Implementation specific error
    0x84, // Unsupported Protocol Version
    0x85, // Client Identifier not valid
    0x86, // Bad User Name or Password
    0x87, // Not authorized
    0x88, // Server unavailable
    0x89, // Server busy
    0x8A, // Banned
    0x8C, // Bad authentication method
    0x90, // Topic Name invalid
    0x95, // Packet too large
    0x97, // Quota exceeded
    0x99, // Payload format invalid
    0x9A, // Retain not supported
    0x9B, // QoS not supported
    0x9C, // Use another server
    0x9D, // Server moved
    0x9F, // Connection rate exceeded
];
/// MQTT 5 §3.4.2.1 PUBACK Reason Code / §3.5.2.1 PUBREC Reason Code (same set).
const V5_PUBACK_PUBREC: &[u8] = &[
    0x00, // Success
    0x10, // No matching subscribers
    0x80, // Unspecified error
    0x83, // Implementation specific error
    0x87, // Not authorized
    0x90, // Topic Name invalid
    0x91, // Packet identifier in use
    0x97, // Quota exceeded
    0x99, // Payload format invalid
];
/// MQTT 5 §3.6.2.1 PUBREL Reason Code / §3.7.2.1 PUBCOMP Reason Code (same set).
const V5_PUBREL_PUBCOMP: &[u8] = &[
    0x00, // Success
    0x92, // Packet Identifier not found
];
/// MQTT 5 §3.9.3 SUBACK Payload.
const V5_SUBACK: &[u8] = &[
    0x00, // Granted QoS 0
    0x01, // Granted QoS 1
    0x02, // Granted QoS 2
    0x80, // Unspecified error
    0x83, // Implementation specific error
    0x87, // Not authorized
    0x8F, // Topic Filter invalid
    0x91, // Packet Identifier in use
    0x97, // Quota exceeded
    0x9E, // Shared Subscriptions not supported
    0xA1, // Subscription Identifiers not supported
    0xA2, // Wildcard Subscriptions not supported
];
/// MQTT 5 §3.11.3 UNSUBACK Payload.
const V5_UNSUBACK: &[u8] = &[
    0x00, // Success
    0x11, // No subscription existed
    0x80, // Unspecified error
    0x83, // Implementation specific error
    0x87, // Not authorized
    0x8F, // Topic Filter invalid
    0x91, // Packet Identifier in use
];
/// MQTT 5 §3.14.2.1 Disconnect Reason Code.
const V5_DISCONNECT: &[u8] = &[
    0x00, // Normal disconnection
    0x04, // Disconnect with Will Message
    0x80, // Unspecified error
    0x81, // Malformed Packet
    0x82, // Protocol Error
    0x83, // Implementation specific error
    0x87, // Not authorized
    0x89, // Server busy
    0x8B, // Server shutting down
    0x8C, // Bad authentication method (listed for DISCONNECT in the reason-code table of section 2.4)
    0x8D, // Keep Alive timeout
    0x8E, // Session taken over
    0x8F, // Topic Filter invalid
    0x90, // Topic Name invalid
    0x93, // Receive Maximum exceeded
    0x94, // Topic Alias invalid
    0x95, // Packet too large
    0x96, // Message rate too high
    0x97, // Quota exceeded
    0x98, // Administrative action
    0x99, // Payload format invalid
    0x9A, // Retain not supported
    0x9B, // QoS not supported
    0x9C, // Use another server
    0x9D, // Server moved
    0x9E, // Shared Subscriptions not supported
    0x9F, // Connection rate exceeded
    0xA0, // Maximum connect time
    0xA1, // Subscription Identifiers not supported
    0xA2, // Wildcard Subscriptions not supported
];
/// MQTT 5 §3.15.2.1 Authenticate Reason Code.
const V5_AUTH: &[u8] = &[
    0x00, // Success
    0x18, // Continue authentication
    0x19, // Re-authenticate
];

/// Reason / return codes the specification lists for the packet type
/// `type_nibble` (ascending).  Empty for packet types which carry no code in
/// that protocol version.
pub fn valid_reason_codes(ver: Ver, type_nibble: u8) -> &'static [u8] {
    match (ver, type_nibble) {
        (Ver::V3, 2) => V3_CONNACK,
        (Ver::V3, 9) => V3_SUBACK,
        (Ver::V3, _) => NONE,
        (Ver::V5, 2) => V5_CONNACK,
        (Ver::V5, 4) | (Ver::V5, 5) => V5_PUBACK_PUBREC,
        (Ver::V5, 6) | (Ver::V5, 7) => V5_PUBREL_PUBCOMP,
        (Ver::V5, 9) => V5_SUBACK,
        (Ver::V5, 11) => V5_UNSUBACK,
        (Ver::V5, 14) => V5_DISCONNECT,
        (Ver::V5, 15) => V5_AUTH,
        (Ver::V5, _) => NONE,
    }
}

#[cfg(test)]
mod tests {
    use super::*;

    fn ascending_unique(s: &[u8]) -> bool {
        s.windows(2).all(|w| w[0] < w[1])
    }

    #[test]
    fn property_table_has_27_identifiers_with_kinds() {
        assert_eq!(ALL_PROPERTY_IDS.len(), 27);
        assert!(ascending_unique(ALL_PROPERTY_IDS));
        let mut defined = 0;
        for id in 0..=255u8 {
            let k = prop_kind(id);
            assert_eq!(k.is_some(), ALL_PROPERTY_IDS.contains(&id), "id {id:#04x}");
            assert_eq!(k.is_some(), prop_name(id) != "unknown property");
            if k.is_some() {
                defined += 1;
            }
        }
        assert_eq!(defined, 27);
        // counts per wire type, from Table 2-4
        let count = |k: PropKind| ALL_PROPERTY_IDS.iter().filter(|i| prop_kind(**i) == Some(k)).count();
        assert_eq!(count(PropKind::Byte), 8);
        assert_eq!(count(PropKind::U16), 4);
        assert_eq!(count(PropKind::U32), 4);
        assert_eq!(count(PropKind::VarInt), 1);
        assert_eq!(count(PropKind::Str), 7);
        assert_eq!(count(PropKind::Bin), 2);
        assert_eq!(count(PropKind::Pair), 1);
    }

    #[test]
    fn every_property_is_allowed_somewhere_and_user_property_everywhere() {
        let contexts: Vec<&'static [u8]> = (1..=15u8)
            .map(|t| allowed_props(t, false))
            .chain(std::iter::once(allowed_props(1, true)))
            .collect();
        for id in ALL_PROPERTY_IDS {
            assert!(contexts.iter().any(|c| c.contains(id)), "id {id:#04x} never allowed");
        }
        for t in [1u8, 2, 3, 4, 5, 6, 7, 8, 9, 10, 11, 14, 15] {
            assert!(allowed_props(t, false).contains(&USER_PROPERTY));
            assert!(ascending_unique(allowed_props(t, false)));
            assert!(allowed_props(t, false).iter().all(|i| prop_kind(*i).is_some()));
        }
        assert!(allowed_props(1, true).contains(&USER_PROPERTY));
        assert!(allowed_props(0, false).is_empty());
        assert!(allowed_props(12, false).is_empty());
        assert!(allowed_props(13, false).is_empty());
        // `will` wins over the type nibble
        assert_eq!(allowed_props(3, true), allowed_props(1, true));
    }

    #[test]
    fn property_contexts_match_table_2_4_row_by_row() {
        // (id, packet types where allowed, allowed in will properties)
        let rows: &[(u8, &[u8], bool)] = &[
            (0x01, &[3], true),
            (0x02, &[3], true),
            (0x03, &[3], true),
            (0x08, &[3], true),
            (0x09, &[3], true),
            (0x0B, &[3, 8], false),
            (0x11, &[1, 2, 14], false),
            (0x12, &[2], false),
            (0x13, &[2], false),
            (0x15, &[1, 2, 15], false),
            (0x16, &[1, 2, 15], false),
            (0x17, &[1], false),
            (0x18, &[], true),
            (0x19, &[1], false),
            (0x1A, &[2], false),
            (0x1C, &[2, 14], false),
            (0x1F, &[2, 4, 5, 6, 7, 9, 11, 14, 15], false),
            (0x21, &[1, 2], false),
            (0x22, &[1, 2], false),
            (0x23, &[3], false),
            (0x24, &[2], false),
            (0x25, &[2], false),
            (0x26, &[1, 2, 3, 4, 5, 6, 7, 8, 9, 10, 11, 14, 15], true),
            (0x27, &[1, 2], false),
            (0x28, &[2], false),
            (0x29, &[2], false),
            (0x2A, &[2], false),
        ];
        assert_eq!(rows.len(), 27);
        for (id, types, will) in rows {
            for t in 0..=15u8 {
                assert_eq!(
                    allowed_props(t, false).contains(id),
                    types.contains(&t),
                    "id {id:#04x} type {t}"
                );
            }
            assert_eq!(allowed_props(1, true).contains(id), *will, "id {id:#04x} will");
        }
    }

    #[test]
    fn reason_code_tables_have_the_sizes_the_spec_lists() {
        assert_eq!(valid_reason_codes(Ver::V5, 2).len(), 22);
        assert_eq!(valid_reason_codes(Ver::V5, 4).len(), 9);
        assert_eq!(valid_reason_codes(Ver::V5, 5), valid_reason_codes(Ver::V5, 4));
        assert_eq!(valid_reason_codes(Ver::V5, 6), &[0x00, 0x92]);
        assert_eq!(valid_reason_codes(Ver::V5, 7), &[0x00, 0x92]);
        assert_eq!(valid_reason_codes(Ver::V5, 9).len(), 12);
        assert_eq!(valid_reason_codes(Ver::V5, 11).len(), 7);
        assert_eq!(valid_reason_codes(Ver::V5, 14).len(), 29);
        assert_eq!(valid_reason_codes(Ver::V5, 15), &[0x00, 0x18, 0x19]);
        assert_eq!(valid_reason_codes(Ver::V3, 2), &[0, 1, 2, 3, 4, 5]);
        assert_eq!(valid_reason_codes(Ver::V3, 9), &[0, 1, 2, 0x80]);
        for t in [0u8, 1, 3, 8, 10, 12, 13] {
            assert!(valid_reason_codes(Ver::V5, t).is_empty());
            assert!(valid_reason_codes(Ver::V3, t).is_empty());
        }
        for t in [4u8, 5, 6, 7, 11, 14, 15] {
            assert!(valid_reason_codes(Ver::V3, t).is_empty());
        }
        for v in [Ver::V3, Ver::V5] {
            for t in 0..=15u8 {
                assert!(ascending_unique(valid_reason_codes(v, t)));
            }
        }
    }

    #[test]
    fn reason_code_spot_checks() {
        // codes which exist for one packet type but not for a similar one
        assert!(valid_reason_codes(Ver::V5, 4).contains(&0x10)); // No matching subscribers
        assert!(!valid_reason_codes(Ver::V5, 6).contains(&0x10));
        assert!(valid_reason_codes(Ver::V5, 11).contains(&0x11)); // No subscription existed
        assert!(!valid_reason_codes(Ver::V5, 9).contains(&0x11));
        assert!(valid_reason_codes(Ver::V5, 14).contains(&0x04)); // Disconnect with Will Message
        assert!(!valid_reason_codes(Ver::V5, 2).contains(&0x04));
        assert!(valid_reason_codes(Ver::V5, 2).contains(&0x8C)); // Bad authentication method
        assert!(!valid_reason_codes(Ver::V5, 2).contains(&0x8B)); // Server shutting down: DISCONNECT only
        assert!(valid_reason_codes(Ver::V5, 14).contains(&0x8B));
        assert!(valid_reason_codes(Ver::V5, 14).contains(&0x8C)); // section 2.4 table lists DISCONNECT
        assert!(!valid_reason_codes(Ver::V5, 14).contains(&0x91));
        assert!(!valid_reason_codes(Ver::V5, 14).contains(&0x92));
        assert!(!valid_reason_codes(Ver::V5, 2).contains(&0x9E));
    }
}
