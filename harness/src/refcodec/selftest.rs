//! Self test: hand-assembled literal byte vectors checked in both directions,
//! stream round trips with byte-at-a-time feeding, layout sanity, and one or
//! more negative vectors for every strictness rule of the decoder.
//!
//! The vectors themselves live in `vectors_v3.rs`, `vectors_v5.rs` and
//! `vectors_neg.rs`; this file is the machinery which runs them.

use super::dec::{decode, DecErr, StreamDecoder};
use super::enc::encode;
use super::layout::{layout, FieldKind};
use super::model::{Packet, Ver};
use super::{vectors_neg, vectors_v3, vectors_v5};

/// A positive vector: `bytes` is one complete frame and decodes to `packet`.
pub(super) struct Vector {
    pub name: &'static str,
    pub bytes: Vec<u8>,
    pub packet: Packet,
    /// `true`: additionally `encode(packet) == bytes`.  `false` for frames the
    /// encoder never produces (non-minimal variable byte integers).
    pub both: bool,
}

/// A negative vector: `bytes` is one complete frame the decoder must refuse
/// with a reason containing `expect`.
pub(super) struct Neg {
    pub ver: Ver,
    pub name: &'static str,
    pub bytes: Vec<u8>,
    pub expect: &'static str,
}

/// Bidirectional vector.
pub(super) fn v(name: &'static str, bytes: &str, packet: Packet) -> Vector {
    Vector { name, bytes: hx(bytes), packet, both: true }
}

/// Decode-only vector.
pub(super) fn vd(name: &'static str, bytes: &str, packet: Packet) -> Vector {
    Vector { name, bytes: hx(bytes), packet, both: false }
}

pub(super) fn neg(ver: Ver, name: &'static str, bytes: &str, expect: &'static str) -> Neg {
    Neg { ver, name, bytes: hx(bytes), expect }
}

pub(super) fn s(x: &str) -> String {
    x.to_string()
}

/// Literal byte notation: hex digit pairs (whitespace is ignored, so `000A` is
/// the two bytes 00 0A) and `'text'` for the ASCII bytes of `text`.
/// Panics on a malformed literal (that is a bug in the vector table).
pub(super) fn hx(lit: &str) -> Vec<u8> {
    let mut out = Vec::new();
    let mut chars = lit.chars();
    let mut hi: Option<u8> = None;
    while let Some(c) = chars.next() {
        if c == '\'' {
            assert!(hi.is_none(), "odd number of hex digits before quote in {lit:?}");
            loop {
                match chars.next() {
                    Some('\'') => break,
                    Some(t) => {
                        assert!(t.is_ascii(), "non-ASCII text in {lit:?}");
                        out.push(t as u8);
                    }
                    None => panic!("unterminated quote in {lit:?}"),
                }
            }
        } else if c.is_whitespace() {
            continue;
        } else {
            let d = c.to_digit(16).unwrap_or_else(|| panic!("bad hex digit {c:?} in {lit:?}")) as u8;
            match hi.take() {
                None => hi = Some(d),
                Some(h) => out.push((h << 4) | d),
            }
        }
    }
    assert!(hi.is_none(), "odd number of hex digits in {lit:?}");
    out
}

struct Checker {
    n: usize,
}

impl Checker {
    fn check(&mut self, cond: bool, msg: impl FnOnce() -> String) -> Result<(), String> {
        self.n += 1;
        if cond {
            Ok(())
        } else {
            Err(msg())
        }
    }
}

fn vname(ver: Ver, name: &str) -> String {
    format!("[{ver:?} {name}]")
}

fn positive(c: &mut Checker, ver: Ver, x: &Vector) -> Result<(), String> {
    let id = vname(ver, x.name);
    let bytes = &x.bytes;

    // 1. decode(bytes) == value
    let got = decode(ver, bytes);
    c.check(got == Ok((x.packet.clone(), bytes.len())), || {
        format!("{id} decode({bytes:02x?}) = {got:?}, expected {:?}", x.packet)
    })?;

    // 2. encode(value) == bytes
    if x.both {
        let enc = encode(ver, &x.packet);
        c.check(enc.as_ref() == Ok(bytes), || format!("{id} encode = {enc:02x?}, expected {bytes:02x?}"))?;
    } else {
        // the canonical encoding differs, but must decode to the same value
        let enc = encode(ver, &x.packet).map_err(|e| format!("{id} encode failed: {e}"))?;
        c.check(&enc != bytes, || format!("{id} is marked decode-only but the encoder produces it"))?;
        let back = decode(ver, &enc);
        c.check(back == Ok((x.packet.clone(), enc.len())), || format!("{id} canonical re-encoding decodes to {back:?}"))?;
    }

    // 3. every strict prefix needs more
    for n in 0..bytes.len() {
        let r = decode(ver, &bytes[..n]);
        c.check(r == Err(DecErr::NeedMore), || format!("{id} prefix of {n} bytes: {r:?}, expected NeedMore"))?;
    }

    // 4. trailing bytes do not matter to the one-shot decoder
    let mut longer = bytes.clone();
    longer.extend_from_slice(&[0x00, 0xFF]);
    let r = decode(ver, &longer);
    c.check(r == Ok((x.packet.clone(), bytes.len())), || format!("{id} with trailing bytes: {r:?}"))?;

    // 5. stream decoder, one byte at a time
    let mut d = StreamDecoder::new(ver);
    for (i, b) in bytes.iter().enumerate() {
        let r = d.next();
        c.check(r == Ok(None), || format!("{id} stream after {i} bytes: {r:?}, expected Ok(None)"))?;
        d.feed(&[*b]);
    }
    let r = d.next();
    c.check(r == Ok(Some((x.packet.clone(), bytes.clone()))), || format!("{id} stream after all bytes: {r:?}"))?;
    c.check(d.buffered() == 0 && d.consumed() == bytes.len(), || {
        format!("{id} stream counters: buffered {} consumed {}", d.buffered(), d.consumed())
    })?;
    let r = d.next();
    c.check(r == Ok(None), || format!("{id} stream after the packet: {r:?}"))?;

    // 6. layout: ordered, non-overlapping, inside the frame, starts with the fixed header
    let l = layout(ver, bytes).map_err(|e| format!("{id} layout failed: {e}"))?;
    c.check(
        l.len() >= 2 && l[0].kind == FieldKind::FirstByte && l[0].off == 0 && l[0].width == 1 && l[0].depth == 0,
        || format!("{id} layout does not start with FirstByte: {l:?}"),
    )?;
    c.check(l[1].kind == FieldKind::RemainingLength && l[1].off == 1 && l[1].depth == 0, || {
        format!("{id} layout second field is not RemainingLength: {l:?}")
    })?;
    let hdr = 1 + l[1].width;
    let mut ok = true;
    for w in l.windows(2) {
        ok &= w[0].off + w[0].width <= w[1].off;
    }
    for f in &l {
        ok &= f.width >= 1 && f.off + f.width <= bytes.len();
        ok &= (f.depth == 0) == (f.off < hdr);
        ok &= f.depth <= 3;
    }
    c.check(ok, || format!("{id} layout not ordered / out of range: {l:?}"))?;
    Ok(())
}

/// All vectors of one version concatenated and pushed through one stream
/// decoder in chunks of `chunk` bytes.
fn concatenated(c: &mut Checker, ver: Ver, vs: &[Vector], chunk: usize) -> Result<(), String> {
    let mut all = Vec::new();
    for x in vs {
        all.extend_from_slice(&x.bytes);
    }
    let mut d = StreamDecoder::new(ver);
    let mut i = 0;
    for piece in all.chunks(chunk) {
        d.feed(piece);
        loop {
            match d.next() {
                Ok(Some((p, raw))) => {
                    c.check(i < vs.len() && p == vs[i].packet && raw == vs[i].bytes, || {
                        format!("[{ver:?} concatenated chunk={chunk}] packet #{i}: got {p:?}")
                    })?;
                    i += 1;
                }
                Ok(None) => break,
                Err(e) => return Err(format!("[{ver:?} concatenated chunk={chunk}] stream died at packet #{i}: {e}")),
            }
        }
    }
    c.check(i == vs.len() && d.buffered() == 0 && d.consumed() == all.len(), || {
        format!("[{ver:?} concatenated chunk={chunk}] {i} of {} packets, {} bytes left", vs.len(), d.buffered())
    })
}

fn negative(c: &mut Checker, x: &Neg) -> Result<(), String> {
    let id = vname(x.ver, x.name);
    let bytes = &x.bytes;

    // the vector must be a complete frame as far as the fixed header is concerned,
    // so that the refusal is a verdict on the content and not a matter of missing bytes
    let complete = match super::dec::fixed_header(bytes) {
        Ok(Some((_, rl, hdr))) => hdr + rl as usize == bytes.len(),
        Ok(None) => false,
        Err(_) => true, // malformed remaining length is its own negative class
    };
    c.check(complete, || format!("{id} is not exactly one frame: {bytes:02x?}"))?;

    let r = decode(x.ver, bytes);
    match &r {
        Err(DecErr::Malformed(m)) => {
            c.check(m.contains(x.expect), || format!("{id} refused with {m:?}, expected a reason containing {:?}", x.expect))?
        }
        _ => c.check(false, || format!("{id} decode({bytes:02x?}) = {r:?}, expected Malformed"))?,
    }

    // stream decoder: fed byte by byte it must never yield a packet, must die at
    // the latest with the last byte, and must stay dead with the same reason
    let mut d = StreamDecoder::new(x.ver);
    let mut err: Option<String> = None;
    for b in bytes {
        d.feed(&[*b]);
        match d.next() {
            Ok(None) => {}
            Ok(Some((p, _))) => return Err(format!("{id} stream yielded {p:?}")),
            Err(e) => {
                err = Some(e);
                break;
            }
        }
    }
    c.check(err.is_some(), || format!("{id} stream did not die"))?;
    let e = err.unwrap_or_default();
    d.feed(&[0xC0, 0x00]);
    let again = d.next();
    c.check(again == Err(e.clone()), || format!("{id} dead stream answered {again:?}, expected Err({e:?})"))?;
    c.check(d.consumed() == 0, || format!("{id} dead stream consumed {}", d.consumed()))?;

    let l = layout(x.ver, bytes);
    c.check(l.is_err(), || format!("{id} layout accepted a malformed frame"))?;
    Ok(())
}

/// Run the whole battery.  `Ok(number of checks run)` or the first failure.
pub fn selftest() -> Result<usize, String> {
    let mut c = Checker { n: 0 };

    let v3 = vectors_v3::vectors();
    let v5 = vectors_v5::vectors();
    for (ver, vs) in [(Ver::V3, &v3), (Ver::V5, &v5)] {
        // coverage: at least 3 vectors per packet type and version
        let last = if ver == Ver::V3 { 14 } else { 15 };
        for t in 1..=last {
            let n = vs.iter().filter(|x| x.packet.type_nibble() == t).count();
            c.check(n >= 3, || format!("[{ver:?}] only {n} vectors for packet type {t}"))?;
        }
        for x in vs.iter() {
            positive(&mut c, ver, x)?;
        }
        for chunk in [1usize, 2, 3, 7, 64, 1 << 20] {
            concatenated(&mut c, ver, vs, chunk)?;
        }
    }

    // a V3-only / V5-only sanity check: the same bytes mean different things
    let r = decode(Ver::V3, &hx("40 03 0001 00"));
    c.check(matches!(r, Err(DecErr::Malformed(_))), || format!("v5 PUBACK short form accepted as V3: {r:?}"))?;
    let r = decode(Ver::V5, &hx("40 03 0001 00"));
    c.check(r == Ok((Packet::PubAck { pid: 1, code: Some(0), props: None }, 5)), || format!("v5 PUBACK short form: {r:?}"))?;

    for x in vectors_neg::vectors() {
        negative(&mut c, &x)?;
    }
    Ok(c.n)
}

#[cfg(test)]
mod tests {
    use super::*;

    #[test]
    fn hx_notation() {
        assert_eq!(hx(""), Vec::<u8>::new());
        assert_eq!(hx("10 0c 000A"), vec![0x10, 0x0C, 0x00, 0x0A]);
        assert_eq!(hx("0004 'MQTT' 04"), vec![0, 4, b'M', b'Q', b'T', b'T', 4]);
        assert_eq!(hx("'a b'"), vec![b'a', b' ', b'b']);
    }

    #[test]
    #[should_panic]
    fn hx_rejects_odd_digits() {
        hx("123");
    }

    #[test]
    fn selftest_passes() {
        match selftest() {
            Ok(n) => {
                assert!(n > 1000, "suspiciously few checks: {n}");
                println!(
                    "selftest: {n} checks; {} V3 vectors, {} V5 vectors, {} negative vectors",
                    vectors_v3::vectors().len(),
                    vectors_v5::vectors().len(),
                    vectors_neg::vectors().len()
                );
            }
            Err(e) => panic!("selftest failed: {e}"),
        }
    }

    /// Same checks as `selftest`, but every vector on its own so that one run
    /// reports all failing vectors instead of only the first.
    #[test]
    fn every_vector_individually() {
        let mut failures = Vec::new();
        let mut c = Checker { n: 0 };
        for (ver, vs) in [(Ver::V3, vectors_v3::vectors()), (Ver::V5, vectors_v5::vectors())] {
            for x in &vs {
                if let Err(e) = positive(&mut c, ver, x) {
                    failures.push(e);
                }
            }
        }
        for x in vectors_neg::vectors() {
            if let Err(e) = negative(&mut c, &x) {
                failures.push(e);
            }
        }
        assert!(failures.is_empty(), "{} failing vectors:\n{}", failures.len(), failures.join("\n"));
    }

    #[test]
    fn negative_vectors_cover_both_versions_and_every_packet_type() {
        let negs = vectors_neg::vectors();
        for ver in [Ver::V3, Ver::V5] {
            let last = if ver == Ver::V3 { 14 } else { 15 };
            for t in 1..=last {
                let n = negs.iter().filter(|x| x.ver == ver && !x.bytes.is_empty() && x.bytes[0] >> 4 == t).count();
                assert!(n >= 1, "{ver:?}: no negative vector for packet type {t}");
            }
        }
    }
}
