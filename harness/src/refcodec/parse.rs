//! The one strict parser behind `dec::decode` and `layout::layout`.
//!
//! Parsing is done with a cursor which knows the end of the *innermost
//! enclosing block* (the packet, or a property block inside it).  Every read
//! is bounds-checked against that end, so an inner length which runs past its
//! enclosing block is always reported as malformed and never silently served
//! from bytes of the next field / next frame.
//!
//! While parsing, the cursor optionally records the structural fields
//! (`layout::Field`) it walks over.

use super::dec::{decode_varint, DecErr};
use super::layout::{Field, FieldKind};
use super::model::{type_name, Packet, Prop, Ver, Will};
use super::tables::{allowed_props, prop_kind, prop_name, valid_reason_codes, PropKind};

type R<T> = Result<T, String>;

pub(super) struct Parsed {
    pub packet: Packet,
    /// total frame length: fixed header + remaining length
    pub total: usize,
    /// recorded only when requested, in increasing offset order
    pub fields: Vec<Field>,
}

/// Checks which need nothing but the first byte: packet type and the flag
/// nibble (MQTT 3.1.1 Table 2.2 / MQTT 5 Table 2-2).
pub(super) fn check_first_byte(ver: Ver, b: u8) -> R<()> {
    let t = b >> 4;
    let f = b & 0x0F;
    match t {
        0 => Err("packet type 0 is reserved".to_string()),
        15 if ver == Ver::V3 => Err("packet type 15 is reserved in MQTT 3.1.1".to_string()),
        3 => {
            if (f >> 1) & 0x03 == 3 {
                Err("PUBLISH with QoS 3 (both QoS bits set)".to_string())
            } else {
                Ok(())
            }
        }
        6 | 8 | 10 => {
            if f == 0b0010 {
                Ok(())
            } else {
                Err(format!("{} fixed-header flags are {f:#06b}, must be 0b0010", type_name(t)))
            }
        }
        _ => {
            if f == 0 {
                Ok(())
            } else {
                Err(format!("{} fixed-header flags are {f:#06b}, must be 0b0000", type_name(t)))
            }
        }
    }
}

/// Parse exactly one frame from the front of `buf`.
///
/// Order of evaluation (documented because it decides between `NeedMore` and
/// `Malformed` for incomplete input):
/// 1. empty buffer                                  -> `NeedMore`
/// 2. first byte invalid (type / reserved flags)    -> `Malformed`
/// 3. Remaining Length: 4th byte has continuation   -> `Malformed`,
///    otherwise not yet terminated                  -> `NeedMore`
/// 4. fewer bytes than header + Remaining Length    -> `NeedMore`
/// 5. everything else is judged on the complete frame only.
pub(super) fn parse_frame(ver: Ver, buf: &[u8], record: bool) -> Result<Parsed, DecErr> {
    let first = match buf.first() {
        None => return Err(DecErr::NeedMore),
        Some(b) => *b,
    };
    check_first_byte(ver, first).map_err(DecErr::Malformed)?;
    let (rl, w) = match decode_varint(&buf[1..]) {
        Err(e) => return Err(DecErr::Malformed(format!("remaining length: {e}"))),
        Ok(None) => return Err(DecErr::NeedMore),
        Ok(Some(x)) => x,
    };
    let hdr = 1 + w;
    let total = hdr + rl as usize;
    if buf.len() < total {
        return Err(DecErr::NeedMore);
    }

    let mut c = Cur {
        buf,
        pos: hdr,
        end: total,
        block: "packet",
        depth: 0,
        fields: if record { Some(Vec::new()) } else { None },
    };
    c.rec(FieldKind::FirstByte, 0, 1);
    c.rec(FieldKind::RemainingLength, 1, w);
    c.depth = 1;

    let t = first >> 4;
    let packet = match t {
        1 => c.connect(ver),
        2 => c.connack(ver),
        3 => c.publish(ver, first & 0x0F),
        4..=7 => c.ack(ver, t),
        8 => c.subscribe(ver),
        9 => c.suback(ver),
        10 => c.unsubscribe(ver),
        11 => c.unsuback(ver),
        12 => c.finish().map(|_| Packet::PingReq),
        13 => c.finish().map(|_| Packet::PingResp),
        14 => c.disconnect(ver),
        15 => c.auth(),
        _ => Err("packet type 0 is reserved".to_string()), // unreachable: rejected by check_first_byte
    }
    .map_err(|e| DecErr::Malformed(format!("{}: {e}", type_name(t))))?;

    debug_assert_eq!(c.pos, c.end);
    Ok(Parsed { packet, total, fields: c.fields.unwrap_or_default() })
}

struct Cur<'a> {
    buf: &'a [u8],
    pos: usize,
    /// exclusive end of the innermost enclosing block
    end: usize,
    /// name of that block, for messages
    block: &'static str,
    depth: u8,
    fields: Option<Vec<Field>>,
}

impl<'a> Cur<'a> {
    fn remaining(&self) -> usize {
        self.end - self.pos
    }

    fn rec(&mut self, kind: FieldKind, off: usize, width: usize) {
        let depth = self.depth;
        if let Some(f) = self.fields.as_mut() {
            f.push(Field { kind, off, width, depth });
        }
    }

    fn take(&mut self, n: usize, what: &str) -> R<&'a [u8]> {
        if n > self.remaining() {
            return Err(format!(
                "{what} ({n} bytes at offset {}) runs past the end of the {} ({} bytes left)",
                self.pos,
                self.block,
                self.remaining()
            ));
        }
        let s = &self.buf[self.pos..self.pos + n];
        self.pos += n;
        Ok(s)
    }

    fn u8(&mut self, what: &str) -> R<u8> {
        Ok(self.take(1, what)?[0])
    }

    fn u16(&mut self, what: &str) -> R<u16> {
        let b = self.take(2, what)?;
        Ok(u16::from_be_bytes([b[0], b[1]]))
    }

    fn u32(&mut self, what: &str) -> R<u32> {
        let b = self.take(4, what)?;
        Ok(u32::from_be_bytes([b[0], b[1], b[2], b[3]]))
    }

    /// Variable Byte Integer inside the current block: (value, encoded width).
    fn varint(&mut self, what: &str) -> R<(u32, usize)> {
        match decode_varint(&self.buf[self.pos..self.end]) {
            Err(e) => Err(format!("{what}: {e}")),
            Ok(None) => Err(format!(
                "{what} (variable byte integer at offset {}) runs past the end of the {}",
                self.pos, self.block
            )),
            Ok(Some((v, w))) => {
                self.pos += w;
                Ok((v, w))
            }
        }
    }

    /// UTF-8 Encoded String: u16 length + that many bytes of well-formed UTF-8.
    /// (U+0000 and non-characters are deliberately not rejected.)
    fn string(&mut self, what: &str) -> R<String> {
        let off = self.pos;
        let len = self.u16(&format!("length prefix of {what}"))? as usize;
        self.rec(FieldKind::StrLen, off, 2);
        let bytes = self.take(len, what)?;
        String::from_utf8(bytes.to_vec()).map_err(|e| format!("{what} is not valid UTF-8: {e}"))
    }

    /// Binary Data: u16 length + that many bytes.
    fn binary(&mut self, what: &str) -> R<Vec<u8>> {
        let off = self.pos;
        let len = self.u16(&format!("length prefix of {what}"))? as usize;
        self.rec(FieldKind::BinLen, off, 2);
        Ok(self.take(len, what)?.to_vec())
    }

    /// Packet Identifier; 0 is never valid (MQTT 3.1.1 §2.3.1, MQTT 5 §2.2.1).
    fn pid(&mut self) -> R<u16> {
        let off = self.pos;
        let v = self.u16("packet identifier")?;
        self.rec(FieldKind::PacketId, off, 2);
        if v == 0 {
            return Err("packet identifier is 0".to_string());
        }
        Ok(v)
    }

    /// One reason / return code byte, checked against the per-type table.
    fn code(&mut self, ver: Ver, type_nibble: u8) -> R<u8> {
        let off = self.pos;
        let v = self.u8("reason code")?;
        self.rec(FieldKind::ReasonCode, off, 1);
        if !valid_reason_codes(ver, type_nibble).contains(&v) {
            return Err(format!("reason code {v:#04x} is not defined for {}", type_name(type_nibble)));
        }
        Ok(v)
    }

    fn finish(&self) -> R<()> {
        if self.pos != self.end {
            return Err(format!("{} bytes left over after the last field", self.end - self.pos));
        }
        Ok(())
    }

    // ---------------------------------------------------------------- properties

    /// Property Length + properties (MQTT 5 §2.2.2), validated for the context
    /// (`type_nibble`, or the Will Properties if `will`).
    fn props(&mut self, type_nibble: u8, will: bool) -> R<Vec<Prop>> {
        let what = if will { "will property length" } else { "property length" };
        let off = self.pos;
        let (len, w) = self.varint(what)?;
        self.rec(FieldKind::PropertyLength, off, w);
        let len = len as usize;
        if len > self.remaining() {
            return Err(format!(
                "{what} {len} runs past the end of the {} ({} bytes left)",
                self.block,
                self.remaining()
            ));
        }

        let (saved_end, saved_block, saved_depth) = (self.end, self.block, self.depth);
        self.end = self.pos + len;
        self.block = if will { "will property block" } else { "property block" };
        self.depth = if will { 3 } else { 2 };
        let r = self.props_inner(type_nibble, will);
        self.end = saved_end;
        self.block = saved_block;
        self.depth = saved_depth;
        r
    }

    fn props_inner(&mut self, type_nibble: u8, will: bool) -> R<Vec<Prop>> {
        let allowed = allowed_props(type_nibble, will);
        let ctx = if will { "Will Properties" } else { type_name(type_nibble) };
        let mut seen: u64 = 0; // all defined identifiers are < 64
        let mut out = Vec::new();
        while self.pos < self.end {
            let off = self.pos;
            let id = self.u8("property identifier")?;
            self.rec(FieldKind::PropertyId, off, 1);
            let kind = match prop_kind(id) {
                Some(k) => k,
                None => return Err(format!("unknown property identifier {id:#04x}")),
            };
            let name = prop_name(id);
            if !allowed.contains(&id) {
                return Err(format!("property {id:#04x} ({name}) is not allowed in {ctx}"));
            }
            let bit = 1u64 << id;
            let repeatable = id == 0x26 || (id == 0x0B && type_nibble == 3 && !will);
            if seen & bit != 0 && !repeatable {
                return Err(format!("property {id:#04x} ({name}) appears more than once"));
            }
            seen |= bit;

            let p = match kind {
                PropKind::Byte => Prop::Byte(id, self.u8(name)?),
                PropKind::U16 => Prop::U16(id, self.u16(name)?),
                PropKind::U32 => Prop::U32(id, self.u32(name)?),
                PropKind::VarInt => {
                    let voff = self.pos;
                    let (v, w) = self.varint(name)?;
                    self.rec(FieldKind::VarIntValue, voff, w);
                    Prop::VarInt(id, v)
                }
                PropKind::Str => Prop::Str(id, self.string(name)?),
                PropKind::Bin => Prop::Bin(id, self.binary(name)?),
                PropKind::Pair => {
                    let k = self.string("User Property name")?;
                    let v = self.string("User Property value")?;
                    Prop::Pair(id, k, v)
                }
            };
            check_prop_value(&p)?;
            out.push(p);
        }
        Ok(out)
    }

    // ------------------------------------------------------------------- packets

    fn connect(&mut self, ver: Ver) -> R<Packet> {
        let v5 = ver == Ver::V5;
        let off = self.pos;
        let name_len = self.u16("protocol name length")? as usize;
        self.rec(FieldKind::ProtoNameLen, off, 2);
        let name = self.take(name_len, "protocol name")?;
        if name != b"MQTT" {
            return Err(format!("protocol name is {:?}, must be \"MQTT\"", String::from_utf8_lossy(name)));
        }
        let off = self.pos;
        let level = self.u8("protocol level")?;
        self.rec(FieldKind::ProtoLevel, off, 1);
        let want = if v5 { 5 } else { 4 };
        if level != want {
            return Err(format!("protocol level is {level}, must be {want}"));
        }
        let off = self.pos;
        let flags = self.u8("connect flags")?;
        self.rec(FieldKind::ConnectFlags, off, 1);
        if flags & 0x01 != 0 {
            return Err("connect flags: reserved bit 0 is set".to_string());
        }
        let clean = flags & 0x02 != 0;
        let will_flag = flags & 0x04 != 0;
        let will_qos = (flags >> 3) & 0x03;
        let will_retain = flags & 0x20 != 0;
        let password_flag = flags & 0x40 != 0;
        let username_flag = flags & 0x80 != 0;
        if !will_flag && will_qos != 0 {
            return Err(format!("connect flags: will QoS is {will_qos} although the will flag is 0"));
        }
        if !will_flag && will_retain {
            return Err("connect flags: will retain is set although the will flag is 0".to_string());
        }
        if will_qos == 3 {
            return Err("connect flags: will QoS 3".to_string());
        }
        // Password flag without user name flag: forbidden by 3.1.1 (MQTT-3.1.2-22), allowed
        // by 5.0; deliberately accepted in both versions.
        let keep_alive = self.u16("keep alive")?;
        let props = if v5 { self.props(1, false)? } else { Vec::new() };

        let client_id = self.string("client identifier")?;
        let will = if will_flag {
            let wprops = if v5 { self.props(1, true)? } else { Vec::new() };
            let topic = self.string("will topic")?;
            let payload = self.binary("will payload")?;
            Some(Will { qos: will_qos, retain: will_retain, props: wprops, topic, payload })
        } else {
            None
        };
        let username = if username_flag { Some(self.string("user name")?) } else { None };
        let password = if password_flag { Some(self.binary("password")?) } else { None };
        self.finish()?;
        Ok(Packet::Connect { level, clean, keep_alive, props, client_id, will, username, password })
    }

    fn connack(&mut self, ver: Ver) -> R<Packet> {
        let off = self.pos;
        let flags = self.u8("connect acknowledge flags")?;
        self.rec(FieldKind::AckFlags, off, 1);
        if flags & 0xFE != 0 {
            return Err(format!("connect acknowledge flags {flags:#04x}: reserved bits 7-1 must be 0"));
        }
        let code = self.code(ver, 2)?;
        let props = if ver == Ver::V5 { self.props(2, false)? } else { Vec::new() };
        self.finish()?;
        Ok(Packet::ConnAck { session_present: flags & 0x01 != 0, code, props })
    }

    fn publish(&mut self, ver: Ver, flags: u8) -> R<Packet> {
        let dup = flags & 0x08 != 0;
        let qos = (flags >> 1) & 0x03;
        let retain = flags & 0x01 != 0;
        if qos == 3 {
            return Err("QoS 3".to_string()); // already rejected by check_first_byte
        }
        let topic = self.string("topic name")?;
        let pid = if qos > 0 { Some(self.pid()?) } else { None };
        let props = if ver == Ver::V5 { self.props(3, false)? } else { Vec::new() };
        let payload = self.take(self.remaining(), "payload")?.to_vec();
        Ok(Packet::Publish { dup, qos, retain, topic, pid, props, payload })
    }

    /// PUBACK (4), PUBREC (5), PUBREL (6), PUBCOMP (7).
    fn ack(&mut self, ver: Ver, t: u8) -> R<Packet> {
        let pid = self.pid()?;
        let (code, props) = if ver == Ver::V5 { self.code_props(ver, t)? } else { (None, None) };
        self.finish()?;
        Ok(match t {
            4 => Packet::PubAck { pid, code, props },
            5 => Packet::PubRec { pid, code, props },
            6 => Packet::PubRel { pid, code, props },
            _ => Packet::PubComp { pid, code, props },
        })
    }

    /// v5 `[reason code [property length, properties]]` up to the end of the packet.
    fn code_props(&mut self, ver: Ver, t: u8) -> R<(Option<u8>, Option<Vec<Prop>>)> {
        if self.remaining() == 0 {
            return Ok((None, None));
        }
        let code = self.code(ver, t)?;
        if self.remaining() == 0 {
            return Ok((Some(code), None));
        }
        let props = self.props(t, false)?;
        Ok((Some(code), Some(props)))
    }

    fn subscribe(&mut self, ver: Ver) -> R<Packet> {
        let pid = self.pid()?;
        let props = if ver == Ver::V5 { self.props(8, false)? } else { Vec::new() };
        if self.remaining() == 0 {
            return Err("payload contains no topic filter".to_string());
        }
        let mut filters = Vec::new();
        while self.remaining() > 0 {
            let f = self.string("topic filter")?;
            let off = self.pos;
            let o = self.u8(if ver == Ver::V5 { "subscription options" } else { "requested QoS" })?;
            self.rec(FieldKind::SubOptions, off, 1);
            match ver {
                Ver::V3 => {
                    if o > 2 {
                        return Err(format!("requested QoS byte {o:#04x} (must be 0, 1 or 2; upper 6 bits reserved)"));
                    }
                }
                Ver::V5 => {
                    if o & 0x03 == 3 {
                        return Err(format!("subscription options {o:#04x}: QoS 3"));
                    }
                    if (o >> 4) & 0x03 == 3 {
                        return Err(format!("subscription options {o:#04x}: retain handling 3"));
                    }
                    if o & 0xC0 != 0 {
                        return Err(format!("subscription options {o:#04x}: reserved bits 7-6 set"));
                    }
                }
            }
            filters.push((f, o));
        }
        Ok(Packet::Subscribe { pid, props, filters })
    }

    fn suback(&mut self, ver: Ver) -> R<Packet> {
        let pid = self.pid()?;
        let props = if ver == Ver::V5 { self.props(9, false)? } else { Vec::new() };
        let mut codes = Vec::new();
        while self.remaining() > 0 {
            codes.push(self.code(ver, 9)?);
        }
        Ok(Packet::SubAck { pid, props, codes })
    }

    fn unsubscribe(&mut self, ver: Ver) -> R<Packet> {
        let pid = self.pid()?;
        let props = if ver == Ver::V5 { self.props(10, false)? } else { Vec::new() };
        if self.remaining() == 0 {
            return Err("payload contains no topic filter".to_string());
        }
        let mut filters = Vec::new();
        while self.remaining() > 0 {
            filters.push(self.string("topic filter")?);
        }
        Ok(Packet::Unsubscribe { pid, props, filters })
    }

    fn unsuback(&mut self, ver: Ver) -> R<Packet> {
        let pid = self.pid()?;
        let mut codes = Vec::new();
        let props = if ver == Ver::V5 {
            let props = self.props(11, false)?;
            while self.remaining() > 0 {
                codes.push(self.code(ver, 11)?);
            }
            props
        } else {
            Vec::new()
        };
        self.finish()?;
        Ok(Packet::UnsubAck { pid, props, codes })
    }

    fn disconnect(&mut self, ver: Ver) -> R<Packet> {
        let (code, props) = if ver == Ver::V5 { self.code_props(ver, 14)? } else { (None, None) };
        self.finish()?;
        Ok(Packet::Disconnect { code, props })
    }

    fn auth(&mut self) -> R<Packet> {
        let (code, props) = self.code_props(Ver::V5, 15)?;
        self.finish()?;
        Ok(Packet::Auth { code, props })
    }
}

/// Value restrictions the specification attaches to individual properties.
fn check_prop_value(p: &Prop) -> R<()> {
    match p {
        // byte-valued booleans: Payload Format Indicator, Request Problem Information,
        // Request Response Information, Retain Available, Wildcard Subscription Available,
        // Subscription Identifier Available, Shared Subscription Available; and Maximum QoS (0 or 1)
        Prop::Byte(id @ (0x01 | 0x17 | 0x19 | 0x24 | 0x25 | 0x28 | 0x29 | 0x2A), v) if *v > 1 => {
            Err(format!("property {id:#04x} ({}) has value {v}, must be 0 or 1", prop_name(*id)))
        }
        // Receive Maximum, Topic Alias
        Prop::U16(id @ (0x21 | 0x23), 0) => Err(format!("property {id:#04x} ({}) must not be 0", prop_name(*id))),
        // Maximum Packet Size
        Prop::U32(id @ 0x27, 0) => Err(format!("property {id:#04x} ({}) must not be 0", prop_name(*id))),
        // Subscription Identifier
        Prop::VarInt(id @ 0x0B, 0) => Err(format!("property {id:#04x} ({}) must not be 0", prop_name(*id))),
        _ => Ok(()),
    }
}
