//! Negative vectors for `selftest`: complete frames the strict decoder must
//! refuse, grouped by strictness rule.  The last argument is a substring of
//! the expected reason (see the messages in `parse.rs`).

use super::model::Ver::{V3, V5};
use super::selftest::{neg, Neg};

pub(super) fn vectors() -> Vec<Neg> {
    let mut out = Vec::new();
    out.extend(fixed_header());
    out.extend(packet_identifier());
    out.extend(connect());
    out.extend(connack());
    out.extend(publish());
    out.extend(fixed_layout_leftovers_and_truncation());
    out.extend(subscribe_family());
    out.extend(reason_codes());
    out.extend(props_not_allowed());
    out.extend(props_duplicates_and_values());
    out.extend(props_lengths());
    out.extend(strings());
    out
}

fn fixed_header() -> Vec<Neg> {
    vec![
        neg(V3, "type 0", "00 00", "packet type 0 is reserved"),
        neg(V5, "type 0", "00 00", "packet type 0 is reserved"),
        neg(V3, "type 0 with flags and body", "0F 02 0001", "packet type 0 is reserved"),
        neg(V3, "type 15 in 3.1.1", "F0 00", "packet type 15 is reserved"),
        neg(V3, "type 15 in 3.1.1 with body", "F0 01 00", "packet type 15 is reserved"),
        // reserved flags, one per packet type
        neg(V3, "connect flags 0010", "12 0C 0004 'MQTT' 04 02 003C 0000", "CONNECT fixed-header flags"),
        neg(V5, "connect flags 0001", "11 0D 0004 'MQTT' 05 02 003C 00 0000", "CONNECT fixed-header flags"),
        neg(V3, "connack flags 0001", "21 02 00 00", "CONNACK fixed-header flags"),
        neg(V5, "connack flags 1000", "28 03 00 00 00", "CONNACK fixed-header flags"),
        neg(V3, "puback flags 0010", "42 02 0001", "PUBACK fixed-header flags"),
        neg(V5, "puback flags 0001", "41 02 0001", "PUBACK fixed-header flags"),
        neg(V3, "pubrec flags 0010", "52 02 0001", "PUBREC fixed-header flags"),
        neg(V5, "pubrec flags 0100", "54 02 0001", "PUBREC fixed-header flags"),
        neg(V3, "pubrel flags 0000", "60 02 0001", "must be 0b0010"),
        neg(V5, "pubrel flags 0000", "60 02 0001", "must be 0b0010"),
        neg(V3, "pubrel flags 0011", "63 02 0001", "PUBREL fixed-header flags"),
        neg(V3, "pubcomp flags 0010", "72 02 0001", "PUBCOMP fixed-header flags"),
        neg(V5, "pubcomp flags 1111", "7F 02 0001", "PUBCOMP fixed-header flags"),
        neg(V3, "subscribe flags 0000", "80 06 0001 0001 'a' 00", "must be 0b0010"),
        neg(V5, "subscribe flags 0000", "80 07 0001 00 0001 'a' 00", "must be 0b0010"),
        neg(V3, "subscribe flags 0110", "86 06 0001 0001 'a' 00", "SUBSCRIBE fixed-header flags"),
        neg(V3, "suback flags 0010", "92 03 0001 00", "SUBACK fixed-header flags"),
        neg(V5, "suback flags 0001", "91 04 0001 00 00", "SUBACK fixed-header flags"),
        neg(V3, "unsubscribe flags 0000", "A0 05 0001 0001 'a'", "must be 0b0010"),
        neg(V5, "unsubscribe flags 1010", "AA 06 0001 00 0001 'a'", "UNSUBSCRIBE fixed-header flags"),
        neg(V3, "unsuback flags 0010", "B2 02 0001", "UNSUBACK fixed-header flags"),
        neg(V5, "unsuback flags 0001", "B1 04 0001 00 00", "UNSUBACK fixed-header flags"),
        neg(V3, "pingreq flags 0001", "C1 00", "PINGREQ fixed-header flags"),
        neg(V5, "pingreq flags 0010", "C2 00", "PINGREQ fixed-header flags"),
        neg(V3, "pingresp flags 1000", "D8 00", "PINGRESP fixed-header flags"),
        neg(V5, "pingresp flags 0010", "D2 00", "PINGRESP fixed-header flags"),
        neg(V3, "disconnect flags 0001", "E1 00", "DISCONNECT fixed-header flags"),
        neg(V5, "disconnect flags 0010", "E2 00", "DISCONNECT fixed-header flags"),
        neg(V5, "auth flags 0001", "F1 00", "AUTH fixed-header flags"),
        // PUBLISH QoS 3
        neg(V3, "publish QoS 3", "36 05 0001 't' 0001", "QoS 3"),
        neg(V5, "publish QoS 3", "36 06 0001 't' 0001 00", "QoS 3"),
        neg(V3, "publish QoS 3 dup retain", "3F 05 0001 't' 0001", "QoS 3"),
        // Remaining Length with a 5th byte
        neg(V3, "remaining length in 5 bytes", "C0 FFFFFFFF7F", "remaining length"),
        neg(V5, "remaining length in 5 bytes", "30 8080808001", "longer than 4 bytes"),
    ]
}

fn packet_identifier() -> Vec<Neg> {
    vec![
        neg(V3, "publish QoS 1 pid 0", "32 05 0001 't' 0000", "packet identifier is 0"),
        neg(V3, "publish QoS 2 pid 0", "34 05 0001 't' 0000", "packet identifier is 0"),
        neg(V5, "publish QoS 1 pid 0", "32 06 0001 't' 0000 00", "packet identifier is 0"),
        neg(V3, "puback pid 0", "40 02 0000", "packet identifier is 0"),
        neg(V5, "puback pid 0", "40 02 0000", "packet identifier is 0"),
        neg(V5, "puback pid 0 with code", "40 03 0000 00", "packet identifier is 0"),
        neg(V3, "pubrec pid 0", "50 02 0000", "packet identifier is 0"),
        neg(V5, "pubrec pid 0", "50 04 0000 00 00", "packet identifier is 0"),
        neg(V3, "pubrel pid 0", "62 02 0000", "packet identifier is 0"),
        neg(V5, "pubrel pid 0", "62 02 0000", "packet identifier is 0"),
        neg(V3, "pubcomp pid 0", "70 02 0000", "packet identifier is 0"),
        neg(V5, "pubcomp pid 0", "70 03 0000 00", "packet identifier is 0"),
        neg(V3, "subscribe pid 0", "82 06 0000 0001 'a' 00", "packet identifier is 0"),
        neg(V5, "subscribe pid 0", "82 07 0000 00 0001 'a' 00", "packet identifier is 0"),
        neg(V3, "suback pid 0", "90 03 0000 00", "packet identifier is 0"),
        neg(V5, "suback pid 0", "90 04 0000 00 00", "packet identifier is 0"),
        neg(V3, "unsubscribe pid 0", "A2 05 0000 0001 'a'", "packet identifier is 0"),
        neg(V5, "unsubscribe pid 0", "A2 06 0000 00 0001 'a'", "packet identifier is 0"),
        neg(V3, "unsuback pid 0", "B0 02 0000", "packet identifier is 0"),
        neg(V5, "unsuback pid 0", "B0 04 0000 00 00", "packet identifier is 0"),
    ]
}

fn connect() -> Vec<Neg> {
    vec![
        // protocol name
        neg(V3, "connect protocol name MQTX", "10 0C 0004 'MQTX' 04 02 003C 0000", "protocol name"),
        neg(V3, "connect protocol name MQIsdp (3.1)", "10 0E 0006 'MQIsdp' 03 02 003C 0000", "protocol name"),
        neg(V5, "connect protocol name lower case", "10 0D 0004 'mqtt' 05 02 003C 00 0000", "protocol name"),
        neg(V3, "connect protocol name empty", "10 08 0000 04 02 003C 0000", "protocol name"),
        neg(V5, "connect protocol name MQTTT", "10 0E 0005 'MQTTT' 05 02 003C 00 0000", "protocol name"),
        neg(V3, "connect protocol name cut", "10 04 0004 'MQ'", "protocol name"),
        neg(V3, "connect empty body", "10 00", "protocol name length"),
        // protocol level
        neg(V3, "connect level 5 in V3", "10 0C 0004 'MQTT' 05 02 003C 0000", "protocol level is 5, must be 4"),
        neg(V3, "connect level 3 in V3", "10 0C 0004 'MQTT' 03 02 003C 0000", "protocol level is 3, must be 4"),
        neg(V3, "v5 connect given to V3", "10 0D 0004 'MQTT' 05 02 003C 00 0000", "protocol level"),
        neg(V5, "connect level 4 in V5", "10 0D 0004 'MQTT' 04 02 003C 00 0000", "protocol level is 4, must be 5"),
        neg(V5, "connect level 6 in V5", "10 0D 0004 'MQTT' 06 02 003C 00 0000", "protocol level is 6, must be 5"),
        neg(V5, "v3 connect given to V5", "10 0C 0004 'MQTT' 04 02 003C 0000", "protocol level"),
        neg(V3, "connect level 0x84 (bridge bit)", "10 0C 0004 'MQTT' 84 02 003C 0000", "protocol level"),
        // connect flags
        neg(V3, "connect reserved flag", "10 0C 0004 'MQTT' 04 03 003C 0000", "reserved bit 0"),
        neg(V5, "connect reserved flag", "10 0D 0004 'MQTT' 05 01 003C 00 0000", "reserved bit 0"),
        neg(V3, "connect will QoS 1 without will flag", "10 0C 0004 'MQTT' 04 0A 003C 0000", "will QoS is 1 although"),
        neg(V3, "connect will QoS 2 without will flag", "10 0C 0004 'MQTT' 04 12 003C 0000", "will QoS is 2 although"),
        neg(V3, "connect will QoS 3 without will flag", "10 0C 0004 'MQTT' 04 1A 003C 0000", "will QoS is 3 although"),
        neg(V5, "connect will QoS 1 without will flag", "10 0D 0004 'MQTT' 05 0A 003C 00 0000", "will QoS is 1 although"),
        neg(V3, "connect will retain without will flag", "10 0C 0004 'MQTT' 04 22 003C 0000", "will retain is set although"),
        neg(V5, "connect will retain without will flag", "10 0D 0004 'MQTT' 05 22 003C 00 0000", "will retain is set although"),
        // 10 + 2 + 3 + 3 = 18
        neg(V3, "connect will QoS 3", "10 12 0004 'MQTT' 04 1E 003C 0000 0001 'w' 0001 'm'", "will QoS 3"),
        // 10 + 1 + 2 + 1 + 3 + 3 = 20
        neg(V5, "connect will QoS 3", "10 14 0004 'MQTT' 05 1E 003C 00 0000 00 0001 'w' 0001 'm'", "will QoS 3"),
        // trailing bytes
        neg(V3, "connect trailing byte", "10 0D 0004 'MQTT' 04 02 003C 0000 00", "left over"),
        neg(V5, "connect trailing byte", "10 0E 0004 'MQTT' 05 02 003C 00 0000 FF", "left over"),
        neg(V3, "connect user name present but flag clear", "10 0F 0004 'MQTT' 04 02 003C 0000 0001 'u'", "left over"),
        // inner lengths
        neg(V3, "connect client id length past the packet", "10 0C 0004 'MQTT' 04 02 003C 0005", "runs past the end of the packet"),
        neg(V3, "connect client id missing", "10 0A 0004 'MQTT' 04 02 003C", "client identifier"),
        neg(V3, "connect keep alive cut", "10 09 0004 'MQTT' 04 02 00", "keep alive"),
        neg(V3, "connect user name flag but no user name", "10 0C 0004 'MQTT' 04 82 003C 0000", "user name"),
        neg(V3, "connect password flag but no password", "10 0C 0004 'MQTT' 04 42 003C 0000", "password"),
        neg(V3, "connect will flag but no will", "10 0C 0004 'MQTT' 04 06 003C 0000", "will topic"),
        neg(V5, "connect will flag but no will", "10 0D 0004 'MQTT' 05 06 003C 00 0000", "will property length"),
        // 10 + 2 + 2 + 2 = 16
        neg(V3, "connect password length past the packet", "10 10 0004 'MQTT' 04 42 003C 0000 0005 'ab'", "password"),
        // 10 + 2 + 3 + 2 = 17
        neg(V3, "connect will payload length past the packet", "10 11 0004 'MQTT' 04 06 003C 0000 0001 'w' FFFF", "will payload"),
        neg(V5, "connect property length past the packet", "10 0D 0004 'MQTT' 05 02 003C 7F 0000", "property length 127 runs past the end of the packet"),
        neg(V5, "connect property length missing", "10 0A 0004 'MQTT' 05 02 003C", "property length"),
        // 10 + 1 + 2 + 1 + 3 + 3 = 20
        neg(
            V5,
            "connect will property length past the packet",
            "10 14 0004 'MQTT' 05 06 003C 00 0000 40 0001 'w' 0001 'm'",
            "will property length 64 runs past the end of the packet",
        ),
    ]
}

fn connack() -> Vec<Neg> {
    vec![
        neg(V3, "connack reserved ack flag bit 1", "20 02 02 00", "reserved bits"),
        neg(V3, "connack reserved ack flag bit 7", "20 02 80 00", "reserved bits"),
        neg(V3, "connack reserved ack flags with session present", "20 02 03 00", "reserved bits"),
        neg(V5, "connack reserved ack flags", "20 03 FE 00 00", "reserved bits"),
        neg(V5, "connack reserved ack flag bit 1", "20 03 02 00 00", "reserved bits"),
        neg(V3, "connack trailing byte", "20 03 00 00 00", "left over"),
        neg(V5, "connack trailing byte", "20 04 00 00 00 00", "left over"),
        neg(V3, "connack one byte", "20 01 00", "runs past"),
        neg(V3, "connack empty", "20 00", "runs past"),
        neg(V5, "connack without property length", "20 02 00 00", "property length"),
        neg(V5, "connack one byte", "20 01 00", "runs past"),
    ]
}

fn publish() -> Vec<Neg> {
    vec![
        neg(V3, "publish empty", "30 00", "topic name"),
        neg(V3, "publish one byte", "30 01 00", "topic name"),
        neg(V3, "publish topic length past the packet", "30 04 0003 'ab'", "runs past the end of the packet"),
        neg(V3, "publish topic length 65535", "30 03 FFFF 'a'", "runs past the end of the packet"),
        neg(V3, "publish QoS 1 without identifier", "32 03 0001 't'", "packet identifier"),
        neg(V3, "publish QoS 2 with half an identifier", "34 04 0001 't' 00", "packet identifier"),
        neg(V5, "publish without property length", "30 03 0001 't'", "property length"),
        neg(V5, "publish QoS 1 without property length", "32 05 0001 't' 0001", "property length"),
        neg(V5, "publish property length past the packet", "30 04 0001 't' 05", "property length 5 runs past the end of the packet"),
    ]
}

fn fixed_layout_leftovers_and_truncation() -> Vec<Neg> {
    vec![
        // v3 acks are exactly two bytes
        neg(V3, "puback 3 bytes", "40 03 0001 00", "left over"),
        neg(V3, "pubrec 4 bytes", "50 04 0001 0000", "left over"),
        neg(V3, "pubrel 3 bytes", "62 03 0001 00", "left over"),
        neg(V3, "pubcomp 3 bytes", "70 03 0001 00", "left over"),
        neg(V3, "unsuback 3 bytes", "B0 03 0001 00", "left over"),
        neg(V3, "puback 1 byte", "40 01 00", "runs past"),
        neg(V3, "puback empty", "40 00", "runs past"),
        neg(V3, "pubrec 1 byte", "50 01 00", "runs past"),
        neg(V3, "pubrel empty", "62 00", "runs past"),
        neg(V3, "pubcomp 1 byte", "70 01 01", "runs past"),
        neg(V3, "unsuback 1 byte", "B0 01 00", "runs past"),
        neg(V3, "suback empty", "90 00", "runs past"),
        // v5 acks with properties: nothing after the property block
        neg(V5, "puback bytes after properties", "40 05 0001 00 00 00", "left over"),
        neg(V5, "pubrec bytes after properties", "50 05 0001 00 00 00", "left over"),
        neg(V5, "pubrel bytes after properties", "62 06 0001 00 00 0000", "left over"),
        neg(V5, "pubcomp bytes after properties", "70 05 0001 00 00 FF", "left over"),
        neg(V5, "puback 1 byte", "40 01 00", "runs past"),
        neg(V5, "pubrel empty", "62 00", "runs past"),
        neg(V5, "unsuback without property length", "B0 02 0001", "property length"),
        neg(V5, "suback without property length", "90 02 0001", "property length"),
        // PINGREQ / PINGRESP / DISCONNECT / AUTH
        neg(V3, "pingreq with a byte", "C0 01 00", "left over"),
        neg(V5, "pingreq with two bytes", "C0 02 0000", "left over"),
        neg(V3, "pingresp with two bytes", "D0 02 0000", "left over"),
        neg(V5, "pingresp with a byte", "D0 01 00", "left over"),
        neg(V3, "disconnect with a byte (v5 form in 3.1.1)", "E0 01 00", "left over"),
        neg(V3, "disconnect with two bytes", "E0 02 00 00", "left over"),
        neg(V5, "disconnect bytes after properties", "E0 03 00 00 00", "left over"),
        neg(V5, "auth bytes after properties", "F0 03 00 00 00", "left over"),
    ]
}

fn subscribe_family() -> Vec<Neg> {
    vec![
        neg(V3, "subscribe without filter", "82 02 0001", "no topic filter"),
        neg(V5, "subscribe without filter", "82 03 0001 00", "no topic filter"),
        neg(V3, "unsubscribe without filter", "A2 02 0001", "no topic filter"),
        neg(V5, "unsubscribe without filter", "A2 03 0001 00", "no topic filter"),
        neg(V3, "subscribe empty", "82 00", "packet identifier"),
        neg(V3, "unsubscribe empty", "A2 00", "packet identifier"),
        neg(V5, "subscribe without property length", "82 02 0001", "property length"),
        neg(V5, "unsubscribe without property length", "A2 02 0001", "property length"),
        // requested QoS / subscription options
        neg(V3, "subscribe QoS 3", "82 06 0001 0001 'a' 03", "requested QoS byte 0x03"),
        neg(V3, "subscribe QoS byte 0x04", "82 06 0001 0001 'a' 04", "requested QoS byte 0x04"),
        neg(V3, "subscribe QoS byte 0x80", "82 06 0001 0001 'a' 80", "requested QoS byte 0x80"),
        neg(V3, "subscribe v5 options in 3.1.1", "82 06 0001 0001 'a' 2D", "requested QoS byte 0x2d"),
        neg(V3, "subscribe second filter QoS 3", "82 0A 0001 0001 'a' 00 0001 'b' 03", "requested QoS byte 0x03"),
        neg(V5, "subscribe options QoS 3", "82 07 0001 00 0001 'a' 03", "QoS 3"),
        neg(V5, "subscribe options retain handling 3", "82 07 0001 00 0001 'a' 30", "retain handling 3"),
        neg(V5, "subscribe options reserved bit 6", "82 07 0001 00 0001 'a' 40", "reserved bits 7-6"),
        neg(V5, "subscribe options reserved bit 7", "82 07 0001 00 0001 'a' 80", "reserved bits 7-6"),
        neg(V5, "subscribe second filter options FF", "82 0B 0001 00 0001 'a' 00 0001 'b' FF", "subscription options 0xff"),
        // inner lengths
        neg(V3, "subscribe filter without QoS byte", "82 05 0001 0001 'a'", "requested QoS"),
        neg(V5, "subscribe filter without options byte", "82 06 0001 00 0001 'a'", "subscription options"),
        neg(V3, "subscribe filter length past the packet", "82 06 0001 0009 'a' 00", "runs past the end of the packet"),
        neg(V3, "subscribe second filter cut", "82 07 0001 0001 'a' 00 00", "topic filter"),
        neg(V3, "unsubscribe filter length past the packet", "A2 05 0001 0002 'a'", "runs past the end of the packet"),
        neg(V5, "unsubscribe second filter cut", "A2 07 0001 00 0001 'a' 00", "topic filter"),
    ]
}

fn reason_codes() -> Vec<Neg> {
    vec![
        neg(V3, "connack return code 6", "20 02 00 06", "reason code 0x06 is not defined for CONNACK"),
        neg(V3, "connack return code 0x80", "20 02 00 80", "reason code 0x80 is not defined for CONNACK"),
        neg(V3, "connack return code 0xFF", "20 02 00 FF", "is not defined for CONNACK"),
        neg(V5, "connack reason code 1 (3.1.1 code)", "20 03 00 01 00", "reason code 0x01 is not defined for CONNACK"),
        neg(V5, "connack reason code 0x8B (disconnect only)", "20 03 00 8B 00", "is not defined for CONNACK"),
        neg(V5, "connack reason code 0x04", "20 03 00 04 00", "is not defined for CONNACK"),
        neg(V5, "connack reason code 0xA2", "20 03 00 A2 00", "is not defined for CONNACK"),
        neg(V3, "suback return code 3", "90 03 0001 03", "reason code 0x03 is not defined for SUBACK"),
        neg(V3, "suback return code 0x81", "90 03 0001 81", "is not defined for SUBACK"),
        neg(V3, "suback v5 code 0x87 in 3.1.1", "90 03 0001 87", "is not defined for SUBACK"),
        neg(V3, "suback second code FF", "90 04 0001 00 FF", "is not defined for SUBACK"),
        neg(V5, "suback reason code 3", "90 04 0001 00 03", "is not defined for SUBACK"),
        neg(V5, "suback reason code 0x11 (unsuback only)", "90 04 0001 00 11", "is not defined for SUBACK"),
        neg(V5, "suback third code 0x81", "90 06 0001 00 00 01 81", "is not defined for SUBACK"),
        neg(V5, "unsuback reason code 1", "B0 04 0001 00 01", "is not defined for UNSUBACK"),
        neg(V5, "unsuback reason code 0x9E", "B0 04 0001 00 9E", "is not defined for UNSUBACK"),
        neg(V5, "puback reason code 0x92 (pubrel/pubcomp only)", "40 03 0001 92", "is not defined for PUBACK"),
        neg(V5, "puback reason code 1", "40 04 0001 01 00", "is not defined for PUBACK"),
        neg(V5, "pubrec reason code 1", "50 03 0001 01", "is not defined for PUBREC"),
        neg(V5, "pubrec reason code 0x92", "50 03 0001 92", "is not defined for PUBREC"),
        neg(V5, "pubrel reason code 0x10", "62 03 0001 10", "is not defined for PUBREL"),
        neg(V5, "pubrel reason code 0x80", "62 04 0001 80 00", "is not defined for PUBREL"),
        neg(V5, "pubcomp reason code 0x80", "70 03 0001 80", "is not defined for PUBCOMP"),
        neg(V5, "pubcomp reason code 0x91", "70 03 0001 91", "is not defined for PUBCOMP"),
        neg(V5, "disconnect reason code 1", "E0 01 01", "is not defined for DISCONNECT"),
        neg(V5, "disconnect reason code 0x91 (ack only)", "E0 01 91", "is not defined for DISCONNECT"),
        neg(V5, "disconnect reason code 0xA3", "E0 02 A3 00", "is not defined for DISCONNECT"),
        neg(V5, "auth reason code 1", "F0 01 01", "is not defined for AUTH"),
        neg(V5, "auth reason code 0x80", "F0 01 80", "is not defined for AUTH"),
        neg(V5, "auth reason code 0x1A", "F0 02 1A 00", "is not defined for AUTH"),
    ]
}

fn props_not_allowed() -> Vec<Neg> {
    vec![
        // 10 + 1 + 3 + 2 = 16
        neg(V5, "connect with topic alias", "10 10 0004 'MQTT' 05 02 003C 03 23 0001 0000", "is not allowed in CONNECT"),
        // 10 + 1 + 5 + 2 = 18
        neg(V5, "connect with will delay in connect properties", "10 12 0004 'MQTT' 05 02 003C 05 18 00000001 0000", "is not allowed in CONNECT"),
        // 10 + 1 + 2 + 1 + 5 + 3 + 2 = 24
        neg(
            V5,
            "will properties with session expiry",
            "10 18 0004 'MQTT' 05 06 003C 00 0000 05 11 00000001 0001 'w' 0000",
            "is not allowed in Will Properties",
        ),
        // 10 + 1 + 2 + 1 + 2 + 3 + 2 = 21
        neg(
            V5,
            "will properties with subscription identifier",
            "10 15 0004 'MQTT' 05 06 003C 00 0000 02 0B 01 0001 'w' 0000",
            "is not allowed in Will Properties",
        ),
        // 10 + 1 + 2 + 1 + 3 + 3 + 2 = 22
        neg(
            V5,
            "will properties with topic alias",
            "10 16 0004 'MQTT' 05 06 003C 00 0000 03 23 0001 0001 'w' 0000",
            "is not allowed in Will Properties",
        ),
        neg(V5, "connack with request problem information", "20 05 00 00 02 17 01", "is not allowed in CONNACK"),
        neg(V5, "connack with will delay", "20 08 00 00 05 18 00000001", "is not allowed in CONNACK"),
        neg(V5, "publish with session expiry", "30 09 0001 't' 05 11 00000001", "is not allowed in PUBLISH"),
        neg(V5, "publish with reason string", "30 08 0001 't' 04 1F 0001 'r'", "is not allowed in PUBLISH"),
        neg(V5, "publish with will delay", "30 09 0001 't' 05 18 00000001", "is not allowed in PUBLISH"),
        // 2 + 1 + 1 + 6 = 10
        neg(V5, "puback with server reference", "40 0A 0001 00 06 1C 0003 'abc'", "is not allowed in PUBACK"),
        neg(V5, "pubrec with session expiry", "50 09 0001 00 05 11 00000001", "is not allowed in PUBREC"),
        neg(V5, "pubrel with payload format indicator", "62 06 0001 00 02 01 01", "is not allowed in PUBREL"),
        neg(V5, "pubcomp with subscription identifier", "70 06 0001 00 02 0B 01", "is not allowed in PUBCOMP"),
        // 2 + 1 + 5 + 3 + 1 = 12
        neg(V5, "subscribe with reason string", "82 0C 0001 05 1F 0002 'no' 0001 'a' 00", "is not allowed in SUBSCRIBE"),
        neg(V5, "suback with subscription identifier", "90 06 0001 02 0B 01 00", "is not allowed in SUBACK"),
        // 2 + 1 + 2 + 3 = 8
        neg(V5, "unsubscribe with subscription identifier", "A2 08 0001 02 0B 01 0001 'a'", "is not allowed in UNSUBSCRIBE"),
        neg(V5, "unsubscribe with reason string", "A2 0A 0001 04 1F 0001 'r' 0001 'a'", "is not allowed in UNSUBSCRIBE"),
        // 2 + 1 + 5 + 1 = 9
        neg(V5, "unsuback with session expiry", "B0 09 0001 05 11 00000000 00", "is not allowed in UNSUBACK"),
        neg(V5, "disconnect with authentication method", "E0 06 00 04 15 0001 'X'", "is not allowed in DISCONNECT"),
        neg(V5, "disconnect with receive maximum", "E0 05 00 03 21 0001", "is not allowed in DISCONNECT"),
        neg(V5, "auth with session expiry", "F0 07 00 05 11 00000000", "is not allowed in AUTH"),
        neg(V5, "auth with server reference", "F0 06 00 04 1C 0001 'x'", "is not allowed in AUTH"),
        // identifiers MQTT 5 does not define
        neg(V5, "unknown property 0x7F", "30 07 0001 't' 03 7F 0000", "unknown property identifier 0x7f"),
        neg(V5, "unknown property 0x00", "30 06 0001 't' 02 00 00", "unknown property identifier 0x00"),
        neg(V5, "unknown property 0x04", "30 06 0001 't' 02 04 00", "unknown property identifier 0x04"),
        neg(V5, "unknown property 0x2B", "20 05 00 00 02 2B 01", "unknown property identifier 0x2b"),
        neg(V5, "unknown property 0x14", "E0 04 00 02 14 00", "unknown property identifier 0x14"),
        neg(V5, "two-byte property identifier 81 00", "30 06 0001 't' 02 8100", "unknown property identifier 0x81"),
    ]
}

fn props_duplicates_and_values() -> Vec<Neg> {
    vec![
        neg(V5, "publish payload format indicator twice", "30 08 0001 't' 04 01 00 01 00", "appears more than once"),
        // block 3 + 7 + 3 = 13; 3 + 1 + 13 = 17
        neg(
            V5,
            "publish topic alias twice around a user property",
            "30 11 0001 't' 0D 23 0001 26 0001 'k' 0001 'v' 23 0002",
            "(Topic Alias) appears more than once",
        ),
        // 10 + 1 + 10 + 2 = 23
        neg(
            V5,
            "connect session expiry twice",
            "10 17 0004 'MQTT' 05 02 003C 0A 11 00000001 11 00000001 0000",
            "(Session Expiry Interval) appears more than once",
        ),
        // 10 + 1 + 2 + 1 + 10 + 3 + 2 = 29
        neg(
            V5,
            "will delay twice",
            "10 1D 0004 'MQTT' 05 06 003C 00 0000 0A 18 00000001 18 00000001 0001 'w' 0000",
            "(Will Delay Interval) appears more than once",
        ),
        // 2 + 1 + 4 + 3 + 1 = 11
        neg(
            V5,
            "subscribe subscription identifier twice",
            "82 0B 0001 04 0B 01 0B 02 0001 'a' 00",
            "(Subscription Identifier) appears more than once",
        ),
        neg(V5, "connack reason string twice", "20 0B 00 00 08 1F 0001 'a' 1F 0001 'b'", "(Reason String) appears more than once"),
        neg(V5, "disconnect reason string twice", "E0 0A 00 08 1F 0001 'a' 1F 0001 'b'", "(Reason String) appears more than once"),
        neg(V5, "puback reason string twice", "40 0C 0001 00 08 1F 0001 'a' 1F 0001 'b'", "(Reason String) appears more than once"),
        neg(V5, "auth method twice", "F0 0A 18 08 15 0001 'a' 15 0001 'a'", "(Authentication Method) appears more than once"),
        // subscription identifier 0
        neg(V5, "subscribe subscription identifier 0", "82 09 0001 02 0B 00 0001 'a' 00", "(Subscription Identifier) must not be 0"),
        neg(V5, "publish subscription identifier 0", "30 06 0001 't' 02 0B 00", "(Subscription Identifier) must not be 0"),
        neg(V5, "publish subscription identifier non-minimal 0", "30 07 0001 't' 03 0B 8000", "(Subscription Identifier) must not be 0"),
        // byte-valued booleans and maximum QoS
        neg(V5, "publish payload format indicator 2", "30 06 0001 't' 02 01 02", "(Payload Format Indicator) has value 2"),
        // 10 + 1 + 2 + 1 + 2 + 3 + 2 = 21
        neg(
            V5,
            "will payload format indicator 2",
            "10 15 0004 'MQTT' 05 06 003C 00 0000 02 01 02 0001 'w' 0000",
            "(Payload Format Indicator) has value 2",
        ),
        // 10 + 1 + 2 + 2 = 15
        neg(V5, "connect request problem information 2", "10 0F 0004 'MQTT' 05 02 003C 02 17 02 0000", "(Request Problem Information) has value 2"),
        neg(V5, "connect request response information 255", "10 0F 0004 'MQTT' 05 02 003C 02 19 FF 0000", "(Request Response Information) has value 255"),
        neg(V5, "connack maximum QoS 2", "20 05 00 00 02 24 02", "(Maximum QoS) has value 2"),
        neg(V5, "connack retain available 2", "20 05 00 00 02 25 02", "(Retain Available) has value 2"),
        neg(V5, "connack wildcard subscription available 2", "20 05 00 00 02 28 02", "(Wildcard Subscription Available) has value 2"),
        neg(V5, "connack subscription identifier available 3", "20 05 00 00 02 29 03", "(Subscription Identifier Available) has value 3"),
        neg(V5, "connack shared subscription available 128", "20 05 00 00 02 2A 80", "(Shared Subscription Available) has value 128"),
        // zero where zero is forbidden
        // 10 + 1 + 3 + 2 = 16
        neg(V5, "connect receive maximum 0", "10 10 0004 'MQTT' 05 02 003C 03 21 0000 0000", "(Receive Maximum) must not be 0"),
        neg(V5, "connack receive maximum 0", "20 06 00 00 03 21 0000", "(Receive Maximum) must not be 0"),
        neg(V5, "publish topic alias 0", "30 07 0001 't' 03 23 0000", "(Topic Alias) must not be 0"),
        // 10 + 1 + 5 + 2 = 18
        neg(V5, "connect maximum packet size 0", "10 12 0004 'MQTT' 05 02 003C 05 27 00000000 0000", "(Maximum Packet Size) must not be 0"),
        neg(V5, "connack maximum packet size 0", "20 08 00 00 05 27 00000000", "(Maximum Packet Size) must not be 0"),
    ]
}

fn props_lengths() -> Vec<Neg> {
    vec![
        // property length past the end of the packet
        neg(V5, "connack property length past the packet", "20 03 00 00 01", "property length 1 runs past the end of the packet"),
        neg(V5, "connack property length cut varint", "20 03 00 00 80", "runs past the end of the packet"),
        neg(V5, "puback property length past the packet", "40 04 0001 00 01", "runs past the end of the packet"),
        neg(V5, "pubrec property length past the packet", "50 04 0001 00 7F", "runs past the end of the packet"),
        neg(V5, "pubrel property length past the packet", "62 05 0001 00 02 26", "runs past the end of the packet"),
        neg(V5, "pubcomp property length past the packet", "70 04 0001 00 01", "runs past the end of the packet"),
        neg(V5, "subscribe property length past the packet", "82 07 0001 7F 0001 'a' 00", "property length 127 runs past the end of the packet"),
        neg(V5, "suback property length past the packet", "90 04 0001 03 00", "runs past the end of the packet"),
        neg(V5, "unsubscribe property length past the packet", "A2 06 0001 09 0001 'a'", "runs past the end of the packet"),
        neg(V5, "unsuback property length past the packet", "B0 04 0001 02 00", "runs past the end of the packet"),
        neg(V5, "disconnect property length past the packet", "E0 02 00 01", "runs past the end of the packet"),
        neg(V5, "auth property length past the packet", "F0 02 00 05", "runs past the end of the packet"),
        // 2 + 5 = 7
        neg(V5, "connack property length in 5 bytes", "20 07 00 00 8080808000", "longer than 4 bytes"),
        // property value past the end of the property block (although the packet is long enough)
        // 3 + 1 + 2 + 3 = 9: block is "02 00", the u32 needs 4
        neg(V5, "publish u32 value past the property block", "30 09 0001 't' 02 02 00 000001", "runs past the end of the property block"),
        // 3 + 1 + 4 + 2 = 10: block is "03 0002 'a'", the string needs 2
        neg(V5, "publish string value past the property block", "30 0A 0001 't' 04 03 0002 'a' 'bc'", "runs past the end of the property block"),
        neg(V5, "publish string prefix cut by the property block", "30 07 0001 't' 02 03 00 01", "runs past the end of the property block"),
        neg(V5, "publish binary value past the property block", "30 0A 0001 't' 03 09 0003 'abc'", "runs past the end of the property block"),
        // block 26 0001 'k' 0005 'vv' = 8... the value length 5 exceeds the 2 left; 3 + 1 + 8 = 12
        neg(V5, "publish user property value past the property block", "30 0C 0001 't' 08 26 0001 'k' 0005 'vv'", "runs past the end of the property block"),
        neg(V5, "publish user property without value", "30 08 0001 't' 04 26 0001 'k'", "User Property value"),
        neg(V5, "publish varint value cut by the property block", "30 07 0001 't' 02 0B 80 01", "runs past the end of the property block"),
        neg(V5, "publish u16 value past the property block", "30 07 0001 't' 02 23 00 01", "runs past the end of the property block"),
        neg(V5, "publish byte value missing", "30 05 0001 't' 01 01", "runs past the end of the property block"),
        neg(V5, "connack u16 value past the property block", "20 06 00 00 02 13 00 3C", "runs past the end of the property block"),
        neg(V5, "disconnect string past the property block", "E0 09 00 04 1F 0005 'a' 'bcd'", "runs past the end of the property block"),
        // 10 + 1 + 2 + 1 + 3 + 3 + 2 = 22
        neg(
            V5,
            "will delay past the will property block",
            "10 16 0004 'MQTT' 05 06 003C 00 0000 03 18 0000 0001 'w' 0000",
            "runs past the end of the will property block",
        ),
        // 2 + 1 + 6 + 3 + 1 = 13
        neg(V5, "subscription identifier in 5 bytes", "82 0D 0001 06 0B FFFFFFFF01 0001 'a' 00", "longer than 4 bytes"),
    ]
}

fn strings() -> Vec<Neg> {
    vec![
        neg(V3, "publish topic invalid UTF-8 (C3 28)", "30 04 0002 C328", "not valid UTF-8"),
        neg(V5, "publish topic invalid UTF-8 (C3 28)", "30 05 0002 C328 00", "not valid UTF-8"),
        neg(V3, "publish topic UTF-16 surrogate (ED A0 80)", "30 05 0003 EDA080", "not valid UTF-8"),
        neg(V3, "publish topic overlong encoding (C0 AF)", "30 04 0002 C0AF", "not valid UTF-8"),
        neg(V3, "publish topic above U+10FFFF", "30 06 0004 F4908080", "not valid UTF-8"),
        neg(V3, "publish topic lone continuation byte", "30 03 0001 80", "not valid UTF-8"),
        neg(V3, "publish topic truncated sequence", "30 04 0002 E282", "not valid UTF-8"),
        neg(V3, "connect client id invalid UTF-8", "10 0E 0004 'MQTT' 04 02 003C 0002 C328", "client identifier is not valid UTF-8"),
        // 10 + 2 + 3 = 15
        neg(V3, "connect user name invalid UTF-8", "10 0F 0004 'MQTT' 04 82 003C 0000 0001 FF", "user name is not valid UTF-8"),
        // 10 + 2 + 3 + 2 = 17
        neg(V3, "connect will topic invalid UTF-8", "10 11 0004 'MQTT' 04 06 003C 0000 0001 80 0000", "will topic is not valid UTF-8"),
        // 10 + 1 + 2 + 1 + 3 + 2 = 19
        neg(V5, "connect will topic invalid UTF-8", "10 13 0004 'MQTT' 05 06 003C 00 0000 00 0001 80 0000", "will topic is not valid UTF-8"),
        neg(V3, "subscribe filter invalid UTF-8", "82 07 0001 0002 C0AF 00", "topic filter is not valid UTF-8"),
        neg(V5, "subscribe filter invalid UTF-8", "82 07 0001 00 0001 FF 00", "topic filter is not valid UTF-8"),
        neg(V3, "unsubscribe filter invalid UTF-8", "A2 05 0001 0001 FF", "topic filter is not valid UTF-8"),
        neg(V5, "unsubscribe filter invalid UTF-8", "A2 06 0001 00 0001 FF", "topic filter is not valid UTF-8"),
        // 3 + 1 + 7 = 11
        neg(V5, "publish user property value invalid UTF-8", "30 0B 0001 't' 07 26 0001 'k' 0001 FF", "User Property value is not valid UTF-8"),
        neg(V5, "publish user property name invalid UTF-8", "30 0B 0001 't' 07 26 0001 FF 0001 'v'", "User Property name is not valid UTF-8"),
        neg(V5, "publish content type invalid UTF-8", "30 08 0001 't' 04 03 0001 FE", "Content Type is not valid UTF-8"),
        neg(V5, "disconnect reason string invalid UTF-8", "E0 06 00 04 1F 0001 80", "Reason String is not valid UTF-8"),
        neg(V5, "connack assigned client id invalid UTF-8", "20 08 00 00 05 12 0002 C328", "Assigned Client Identifier is not valid UTF-8"),
        neg(V5, "auth method invalid UTF-8", "F0 07 18 05 15 0002 EDA0", "Authentication Method is not valid UTF-8"),
    ]
}
