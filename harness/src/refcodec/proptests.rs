//! Randomised consistency tests (deterministic xorshift PRNG, std only).
//!
//! * every randomly generated *valid* packet survives encode -> decode, the
//!   stream decoder and the layout mapper;
//! * arbitrary mutations of valid frames and pure garbage never panic, never
//!   make the decoder read outside the frame, and `layout` agrees with
//!   `decode` on acceptance;
//! * whatever the decoder accepts re-encodes (canonically) to something that
//!   decodes to the same value.

use super::dec::{decode, DecErr, StreamDecoder};
use super::enc::encode;
use super::layout::{layout, FieldKind};
use super::model::{Packet, Prop, Ver, Will};
use super::tables::{allowed_props, prop_kind, valid_reason_codes, PropKind};

struct Rng(u64);

impl Rng {
    fn next(&mut self) -> u64 {
        let mut x = self.0;
        x ^= x >> 12;
        x ^= x << 25;
        x ^= x >> 27;
        self.0 = x;
        x.wrapping_mul(0x2545_F491_4F6C_DD1D)
    }
    fn below(&mut self, n: u64) -> u64 {
        self.next() % n
    }
    fn coin(&mut self) -> bool {
        self.next() & 1 == 1
    }
    fn pick<T: Copy>(&mut self, xs: &[T]) -> T {
        xs[self.below(xs.len() as u64) as usize]
    }
}

fn gen_string(r: &mut Rng) -> String {
    const ALPHABET: [char; 12] = ['a', 'b', '/', '+', '#', '$', ' ', '\u{0}', 'é', '€', '\u{2A6D4}', '\u{FFFF}'];
    let n = r.below(9);
    (0..n).map(|_| r.pick(&ALPHABET)).collect()
}

fn gen_bytes(r: &mut Rng) -> Vec<u8> {
    let n = r.below(12);
    (0..n).map(|_| r.next() as u8).collect()
}

fn gen_prop(r: &mut Rng, id: u8) -> Prop {
    match prop_kind(id).unwrap() {
        PropKind::Byte => Prop::Byte(id, r.below(2) as u8), // all byte properties are 0/1 valued
        PropKind::U16 => Prop::U16(id, 1 + r.below(65_535) as u16),
        PropKind::U32 => Prop::U32(id, 1 + r.below(0xFFFF_FFFF) as u32),
        PropKind::VarInt => {
            let max = r.pick(&[127u64, 16_383, 2_097_151, 268_435_455]);
            Prop::VarInt(id, 1 + r.below(max) as u32)
        }
        PropKind::Str => Prop::Str(id, gen_string(r)),
        PropKind::Bin => Prop::Bin(id, gen_bytes(r)),
        PropKind::Pair => Prop::Pair(id, gen_string(r), gen_string(r)),
    }
}

fn gen_props(r: &mut Rng, t: u8, will: bool) -> Vec<Prop> {
    let mut out = Vec::new();
    for id in allowed_props(t, will) {
        let repeatable = *id == 0x26 || (*id == 0x0B && t == 3 && !will);
        let copies = if repeatable { r.below(3) } else { r.below(3) / 2 };
        for _ in 0..copies {
            out.push(gen_prop(r, *id));
        }
    }
    // random order: the encoder must keep it, the decoder must not care
    for i in (1..out.len()).rev() {
        let j = r.below(i as u64 + 1) as usize;
        out.swap(i, j);
    }
    out
}

fn gen_pid(r: &mut Rng) -> u16 {
    1 + r.below(65_535) as u16
}

fn gen_code_props(r: &mut Rng, t: u8) -> (Option<u8>, Option<Vec<Prop>>) {
    match r.below(3) {
        0 => (None, None),
        1 => (Some(r.pick(valid_reason_codes(Ver::V5, t))), None),
        _ => (Some(r.pick(valid_reason_codes(Ver::V5, t))), Some(gen_props(r, t, false))),
    }
}

fn gen_packet(r: &mut Rng, ver: Ver) -> Packet {
    let v5 = ver == Ver::V5;
    let t = 1 + r.below(if v5 { 15 } else { 14 }) as u8;
    let props = |r: &mut Rng| if v5 { gen_props(r, t, false) } else { Vec::new() };
    match t {
        1 => {
            let will = if r.coin() {
                Some(Will {
                    qos: r.below(3) as u8,
                    retain: r.coin(),
                    props: if v5 { gen_props(r, 1, true) } else { Vec::new() },
                    topic: gen_string(r),
                    payload: gen_bytes(r),
                })
            } else {
                None
            };
            Packet::Connect {
                level: if v5 { 5 } else { 4 },
                clean: r.coin(),
                keep_alive: r.next() as u16,
                props: props(r),
                client_id: gen_string(r),
                will,
                username: if r.coin() { Some(gen_string(r)) } else { None },
                password: if r.coin() { Some(gen_bytes(r)) } else { None },
            }
        }
        2 => Packet::ConnAck { session_present: r.coin(), code: r.pick(valid_reason_codes(ver, 2)), props: props(r) },
        3 => {
            let qos = r.below(3) as u8;
            Packet::Publish {
                dup: r.coin(),
                qos,
                retain: r.coin(),
                topic: gen_string(r),
                pid: if qos > 0 { Some(gen_pid(r)) } else { None },
                props: props(r),
                payload: gen_bytes(r),
            }
        }
        4..=7 => {
            let pid = gen_pid(r);
            let (code, props) = if v5 { gen_code_props(r, t) } else { (None, None) };
            match t {
                4 => Packet::PubAck { pid, code, props },
                5 => Packet::PubRec { pid, code, props },
                6 => Packet::PubRel { pid, code, props },
                _ => Packet::PubComp { pid, code, props },
            }
        }
        8 => {
            let n = 1 + r.below(3);
            let filters = (0..n)
                .map(|_| {
                    let o = if v5 {
                        (r.below(3) as u8) | ((r.below(2) as u8) << 2) | ((r.below(2) as u8) << 3) | ((r.below(3) as u8) << 4)
                    } else {
                        r.below(3) as u8
                    };
                    (gen_string(r), o)
                })
                .collect();
            Packet::Subscribe { pid: gen_pid(r), props: props(r), filters }
        }
        9 => {
            let n = r.below(4);
            Packet::SubAck { pid: gen_pid(r), props: props(r), codes: (0..n).map(|_| r.pick(valid_reason_codes(ver, 9))).collect() }
        }
        10 => {
            let n = 1 + r.below(3);
            Packet::Unsubscribe { pid: gen_pid(r), props: props(r), filters: (0..n).map(|_| gen_string(r)).collect() }
        }
        11 => {
            let n = if v5 { r.below(4) } else { 0 };
            Packet::UnsubAck {
                pid: gen_pid(r),
                props: props(r),
                codes: (0..n).map(|_| r.pick(valid_reason_codes(Ver::V5, 11))).collect(),
            }
        }
        12 => Packet::PingReq,
        13 => Packet::PingResp,
        14 => {
            let (code, props) = if v5 { gen_code_props(r, 14) } else { (None, None) };
            Packet::Disconnect { code, props }
        }
        _ => {
            let (code, props) = gen_code_props(r, 15);
            Packet::Auth { code, props }
        }
    }
}

/// Invariants which must hold for *any* input.
fn check_any_input(ver: Ver, buf: &[u8]) {
    let d = decode(ver, buf);
    let l = layout(ver, buf);
    match &d {
        Ok((p, n)) => {
            assert!(*n <= buf.len() && *n >= 2, "frame length {n} of {} for {buf:02x?}", buf.len());
            // layout agrees on exactly this frame
            let fields = layout(ver, &buf[..*n]).unwrap_or_else(|e| panic!("decode ok but layout failed ({e}) for {buf:02x?}"));
            assert_eq!(l.is_ok(), *n == buf.len());
            let mut prev_end = 0;
            for f in &fields {
                assert!(f.off >= prev_end && f.off + f.width <= *n, "bad field {f:?} in {buf:02x?}");
                prev_end = f.off + f.width;
            }
            assert_eq!(fields[0].kind, FieldKind::FirstByte);
            assert_eq!(fields[1].kind, FieldKind::RemainingLength);
            // canonical re-encoding is stable
            let enc = encode(ver, p).unwrap_or_else(|e| panic!("accepted packet does not re-encode ({e}): {p:?}"));
            assert!(enc.len() <= *n, "canonical encoding longer than the accepted frame: {buf:02x?}");
            assert_eq!(decode(ver, &enc), Ok((p.clone(), enc.len())), "re-encoding of {buf:02x?}");
            assert_eq!(p.type_nibble(), buf[0] >> 4);
            // the stream decoder sees the same
            let mut s = StreamDecoder::new(ver);
            s.feed(buf);
            let (sp, raw) = s.next().unwrap().unwrap();
            assert_eq!(&sp, p);
            assert_eq!(raw, &buf[..*n]);
        }
        Err(DecErr::NeedMore) => {
            assert!(l.is_err());
            let mut s = StreamDecoder::new(ver);
            s.feed(buf);
            assert_eq!(s.next(), Ok(None));
            assert_eq!(s.buffered(), buf.len());
        }
        Err(DecErr::Malformed(m)) => {
            assert!(!m.is_empty());
            assert!(l.is_err());
            let mut s = StreamDecoder::new(ver);
            s.feed(buf);
            assert_eq!(s.next(), Err(m.clone()));
            assert_eq!(s.next(), Err(m.clone()));
        }
    }
}

#[test]
fn random_valid_packets_round_trip() {
    let mut r = Rng(0x9E37_79B9_7F4A_7C15);
    for ver in [Ver::V3, Ver::V5] {
        let mut seen = [0usize; 16];
        for _ in 0..6000 {
            let p = gen_packet(&mut r, ver);
            seen[p.type_nibble() as usize] += 1;
            let bytes = encode(ver, &p).unwrap();
            assert_eq!(decode(ver, &bytes), Ok((p.clone(), bytes.len())), "{p:?} -> {bytes:02x?}");
            check_any_input(ver, &bytes);
            // strict prefixes need more (sampled)
            for _ in 0..4 {
                let cut = r.below(bytes.len() as u64) as usize;
                assert_eq!(decode(ver, &bytes[..cut]), Err(DecErr::NeedMore));
            }
        }
        let last = if ver == Ver::V3 { 14 } else { 15 };
        for (t, n) in seen.iter().enumerate().take(last + 1).skip(1) {
            assert!(*n > 100, "{ver:?} type {t} generated only {n} times");
        }
    }
}

#[test]
fn random_stream_of_valid_packets_with_random_chunking() {
    let mut r = Rng(0xDEAD_BEEF_CAFE_F00D);
    for ver in [Ver::V3, Ver::V5] {
        let packets: Vec<Packet> = (0..1500).map(|_| gen_packet(&mut r, ver)).collect();
        let frames: Vec<Vec<u8>> = packets.iter().map(|p| encode(ver, p).unwrap()).collect();
        let all: Vec<u8> = frames.concat();
        let mut d = StreamDecoder::new(ver);
        let mut got = 0;
        let mut pos = 0;
        while pos < all.len() {
            let n = (1 + r.below(40) as usize).min(all.len() - pos);
            d.feed(&all[pos..pos + n]);
            pos += n;
            while let Some((p, raw)) = d.next().unwrap() {
                assert_eq!(p, packets[got]);
                assert_eq!(raw, frames[got]);
                got += 1;
            }
            assert_eq!(d.consumed() + d.buffered(), pos);
        }
        assert_eq!(got, packets.len());
        assert_eq!(d.buffered(), 0);
    }
}

#[test]
fn mutated_frames_never_break_the_invariants() {
    let mut r = Rng(0x0123_4567_89AB_CDEF);
    let mut accepted = 0usize;
    let mut refused = 0usize;
    for ver in [Ver::V3, Ver::V5] {
        for _ in 0..2500 {
            let p = gen_packet(&mut r, ver);
            let bytes = encode(ver, &p).unwrap();
            // targeted: every structural field gets interesting values
            for f in layout(ver, &bytes).unwrap() {
                for _ in 0..2 {
                    let mut m = bytes.clone();
                    let i = f.off + r.below(f.width as u64) as usize;
                    m[i] = match r.below(6) {
                        0 => 0x00,
                        1 => 0xFF,
                        2 => 0x80,
                        3 => m[i].wrapping_add(1),
                        4 => m[i].wrapping_sub(1),
                        _ => r.next() as u8,
                    };
                    check_any_input(ver, &m);
                    match decode(ver, &m) {
                        Ok(_) => accepted += 1,
                        Err(_) => refused += 1,
                    }
                }
            }
            // untargeted: random byte flips, insertions, deletions
            for _ in 0..6 {
                let mut m = bytes.clone();
                match r.below(3) {
                    0 => {
                        let i = r.below(m.len() as u64) as usize;
                        m[i] ^= 1 << r.below(8);
                    }
                    1 => {
                        let i = r.below(m.len() as u64 + 1) as usize;
                        m.insert(i, r.next() as u8);
                    }
                    _ => {
                        let i = r.below(m.len() as u64) as usize;
                        m.remove(i);
                    }
                }
                check_any_input(ver, &m);
            }
        }
    }
    // the mutation campaign must exercise both outcomes
    assert!(accepted > 1000 && refused > 1000, "accepted {accepted}, refused {refused}");
}

#[test]
fn garbage_never_panics() {
    let mut r = Rng(0xFEED_FACE_0BAD_F00D);
    for ver in [Ver::V3, Ver::V5] {
        for _ in 0..40_000 {
            let n = r.below(24) as usize;
            let mut buf: Vec<u8> = (0..n).map(|_| r.next() as u8).collect();
            // bias towards plausible headers and short remaining lengths
            if n >= 2 && r.coin() {
                buf[0] = ((1 + r.below(15) as u8) << 4) | if r.coin() { 0 } else { 2 };
                buf[1] = (n - 2) as u8;
            }
            check_any_input(ver, &buf);
        }
    }
}

#[test]
fn exhaustive_two_and_three_byte_frames() {
    // every possible frame with remaining length 0 and 1
    for ver in [Ver::V3, Ver::V5] {
        for first in 0..=255u8 {
            check_any_input(ver, &[first, 0]);
            for b in 0..=255u8 {
                check_any_input(ver, &[first, 1, b]);
            }
        }
    }
    // what is accepted with remaining length 0
    let ok0 = |ver| (0..=255u8).filter(|f| decode(ver, &[*f, 0]).is_ok()).collect::<Vec<u8>>();
    assert_eq!(ok0(Ver::V3), vec![0xC0, 0xD0, 0xE0]);
    assert_eq!(ok0(Ver::V5), vec![0xC0, 0xD0, 0xE0, 0xF0]);
    // with remaining length 1 only v5 DISCONNECT / AUTH with a listed reason code
    for first in 0..=255u8 {
        for b in 0..=255u8 {
            assert!(decode(Ver::V3, &[first, 1, b]).is_err());
            let want = (first == 0xE0 && valid_reason_codes(Ver::V5, 14).contains(&b))
                || (first == 0xF0 && valid_reason_codes(Ver::V5, 15).contains(&b));
            assert_eq!(decode(Ver::V5, &[first, 1, b]).is_ok(), want, "{first:#04x} 01 {b:#04x}");
        }
    }
}
