//! Encoder.
//!
//! The encoder writes what the model says and checks *representability* only:
//! it is used to build hostile inputs, so it happily emits packet identifier 0,
//! QoS 3, reason codes nobody defined, properties in the wrong packet, a
//! PUBLISH QoS 1 without packet identifier and so on.
//!
//! `Err` is returned only for things the MQTT wire format cannot carry:
//! * a UTF-8 string or binary field longer than 65 535 bytes,
//! * a Variable Byte Integer (property value, Property Length, Remaining
//!   Length) above 268 435 455,
//! * a QoS value which does not fit the two bits of its field (> 3),
//! * an AUTH packet in V3,
//! * V5: `props == Some(..)` with `code == None` for the acks / DISCONNECT /
//!   AUTH (a Property Length cannot be present without the reason code byte
//!   which precedes it).
//!
//! Conventions
//! * Properties are written exactly in the order of the `props` vectors; the
//!   value is written in the wire type of the `Prop` variant, whatever the
//!   identifier is.
//! * In V3 every `props` field, the `code` of the acks / DISCONNECT and the
//!   `codes` of UNSUBACK are ignored (3.1.1 has no room for them).
//! * PUBLISH: the packet identifier is written iff `pid` is `Some`,
//!   independently of `qos`.
//! * CONNECT: the protocol name is always "MQTT", `level` is written as is;
//!   the `ver` argument (not `level`) decides whether property blocks exist.
//!   The connect flags are derived from the fields (will / username /
//!   password present, will QoS / retain, clean); reserved bit 0 is 0.
//! * Fixed-header flags are the mandated ones: 0b0010 for PUBREL, SUBSCRIBE,
//!   UNSUBSCRIBE; DUP/QoS/RETAIN for PUBLISH; 0 otherwise.
//! * The Remaining Length, Property Length and VarInt properties use the
//!   minimal encoding.

use super::model::{Packet, Prop, Ver, Will};
use super::VARINT_MAX;

/// Minimal Variable Byte Integer encoding of `v` (1..=4 bytes).
///
/// `v` must be `<= 268_435_455`; larger values cannot be represented and make
/// this function panic (use [`encode`], which reports an `Err` instead).
pub fn encode_varint(v: u32) -> Vec<u8> {
    assert!(v <= VARINT_MAX, "variable byte integer {v} exceeds 268435455");
    let mut out = Vec::with_capacity(4);
    let mut x = v;
    loop {
        let mut byte = (x % 128) as u8;
        x /= 128;
        if x > 0 {
            byte |= 0x80;
        }
        out.push(byte);
        if x == 0 {
            break;
        }
    }
    out
}

fn put_varint(out: &mut Vec<u8>, v: u64, what: &str) -> Result<(), String> {
    if v > VARINT_MAX as u64 {
        return Err(format!("{what} {v} exceeds the variable byte integer maximum 268435455"));
    }
    out.extend_from_slice(&encode_varint(v as u32));
    Ok(())
}

fn put_u16(out: &mut Vec<u8>, v: u16) {
    out.extend_from_slice(&v.to_be_bytes());
}

fn put_u32(out: &mut Vec<u8>, v: u32) {
    out.extend_from_slice(&v.to_be_bytes());
}

fn put_bin(out: &mut Vec<u8>, b: &[u8], what: &str) -> Result<(), String> {
    if b.len() > 65_535 {
        return Err(format!("{what} is {} bytes long, the maximum is 65535", b.len()));
    }
    put_u16(out, b.len() as u16);
    out.extend_from_slice(b);
    Ok(())
}

fn put_str(out: &mut Vec<u8>, s: &str, what: &str) -> Result<(), String> {
    put_bin(out, s.as_bytes(), what)
}

fn put_prop(out: &mut Vec<u8>, p: &Prop) -> Result<(), String> {
    out.push(p.id());
    match p {
        Prop::Byte(_, v) => out.push(*v),
        Prop::U16(_, v) => put_u16(out, *v),
        Prop::U32(_, v) => put_u32(out, *v),
        Prop::VarInt(_, v) => put_varint(out, *v as u64, "variable byte integer property value")?,
        Prop::Str(_, s) => put_str(out, s, "string property value")?,
        Prop::Bin(_, b) => put_bin(out, b, "binary property value")?,
        Prop::Pair(_, k, v) => {
            put_str(out, k, "string pair property name")?;
            put_str(out, v, "string pair property value")?;
        }
    }
    Ok(())
}

/// Property Length (varint) followed by the properties in the given order.
fn put_props(out: &mut Vec<u8>, props: &[Prop]) -> Result<(), String> {
    let mut block = Vec::new();
    for p in props {
        put_prop(&mut block, p)?;
    }
    put_varint(out, block.len() as u64, "property length")?;
    out.extend_from_slice(&block);
    Ok(())
}

fn qos_bits(qos: u8, what: &str) -> Result<u8, String> {
    if qos > 3 {
        return Err(format!("{what} {qos} does not fit in two bits"));
    }
    Ok(qos)
}

/// Variable header of PUBACK / PUBREC / PUBREL / PUBCOMP.
fn put_ack(
    ver: Ver,
    out: &mut Vec<u8>,
    pid: u16,
    code: &Option<u8>,
    props: &Option<Vec<Prop>>,
) -> Result<(), String> {
    put_u16(out, pid);
    if ver == Ver::V5 {
        put_code_props(out, code, props)?;
    }
    Ok(())
}

/// `[reason code [property length, properties]]` of the v5 short-form packets.
fn put_code_props(
    out: &mut Vec<u8>,
    code: &Option<u8>,
    props: &Option<Vec<Prop>>,
) -> Result<(), String> {
    match (code, props) {
        (None, None) => {}
        (Some(c), None) => out.push(*c),
        (Some(c), Some(ps)) => {
            out.push(*c);
            put_props(out, ps)?;
        }
        (None, Some(_)) => {
            return Err(
                "properties without a reason code are not representable (the reason code byte precedes the property length)"
                    .to_string(),
            )
        }
    }
    Ok(())
}

fn put_will(ver: Ver, out: &mut Vec<u8>, w: &Will) -> Result<(), String> {
    if ver == Ver::V5 {
        put_props(out, &w.props)?;
    }
    put_str(out, &w.topic, "will topic")?;
    put_bin(out, &w.payload, "will payload")?;
    Ok(())
}

/// Encode one packet into one complete frame (fixed header included).
pub fn encode(ver: Ver, p: &Packet) -> Result<Vec<u8>, String> {
    let v5 = ver == Ver::V5;
    let mut body: Vec<u8> = Vec::new();
    let mut flags: u8 = 0;
    match p {
        Packet::Connect { level, clean, keep_alive, props, client_id, will, username, password } => {
            put_str(&mut body, "MQTT", "protocol name")?;
            body.push(*level);
            let mut cf: u8 = 0;
            if *clean {
                cf |= 0x02;
            }
            if let Some(w) = will {
                cf |= 0x04;
                cf |= qos_bits(w.qos, "will QoS")? << 3;
                if w.retain {
                    cf |= 0x20;
                }
            }
            if password.is_some() {
                cf |= 0x40;
            }
            if username.is_some() {
                cf |= 0x80;
            }
            body.push(cf);
            put_u16(&mut body, *keep_alive);
            if v5 {
                put_props(&mut body, props)?;
            }
            put_str(&mut body, client_id, "client identifier")?;
            if let Some(w) = will {
                put_will(ver, &mut body, w)?;
            }
            if let Some(u) = username {
                put_str(&mut body, u, "user name")?;
            }
            if let Some(pw) = password {
                put_bin(&mut body, pw, "password")?;
            }
        }
        Packet::ConnAck { session_present, code, props } => {
            body.push(u8::from(*session_present));
            body.push(*code);
            if v5 {
                put_props(&mut body, props)?;
            }
        }
        Packet::Publish { dup, qos, retain, topic, pid, props, payload } => {
            flags = (u8::from(*dup) << 3) | (qos_bits(*qos, "PUBLISH QoS")? << 1) | u8::from(*retain);
            put_str(&mut body, topic, "topic name")?;
            if let Some(id) = pid {
                put_u16(&mut body, *id);
            }
            if v5 {
                put_props(&mut body, props)?;
            }
            body.extend_from_slice(payload);
        }
        Packet::PubAck { pid, code, props } | Packet::PubRec { pid, code, props } | Packet::PubComp { pid, code, props } => {
            put_ack(ver, &mut body, *pid, code, props)?;
        }
        Packet::PubRel { pid, code, props } => {
            flags = 0b0010;
            put_ack(ver, &mut body, *pid, code, props)?;
        }
        Packet::Subscribe { pid, props, filters } => {
            flags = 0b0010;
            put_u16(&mut body, *pid);
            if v5 {
                put_props(&mut body, props)?;
            }
            for (f, opt) in filters {
                put_str(&mut body, f, "topic filter")?;
                body.push(*opt);
            }
        }
        Packet::SubAck { pid, props, codes } => {
            put_u16(&mut body, *pid);
            if v5 {
                put_props(&mut body, props)?;
            }
            body.extend_from_slice(codes);
        }
        Packet::Unsubscribe { pid, props, filters } => {
            flags = 0b0010;
            put_u16(&mut body, *pid);
            if v5 {
                put_props(&mut body, props)?;
            }
            for f in filters {
                put_str(&mut body, f, "topic filter")?;
            }
        }
        Packet::UnsubAck { pid, props, codes } => {
            put_u16(&mut body, *pid);
            if v5 {
                put_props(&mut body, props)?;
                body.extend_from_slice(codes);
            }
        }
        Packet::PingReq | Packet::PingResp => {}
        Packet::Disconnect { code, props } => {
            if v5 {
                put_code_props(&mut body, code, props)?;
            }
        }
        Packet::Auth { code, props } => {
            if !v5 {
                return Err("AUTH does not exist in MQTT 3.1.1".to_string());
            }
            put_code_props(&mut body, code, props)?;
        }
    }

    let mut out = Vec::with_capacity(body.len() + 5);
    out.push((p.type_nibble() << 4) | flags);
    put_varint(&mut out, body.len() as u64, "remaining length")?;
    out.extend_from_slice(&body);
    Ok(out)
}

#[cfg(test)]
mod tests {
    use super::*;

    fn s(x: &str) -> String {
        x.to_string()
    }

    #[test]
    fn varint_examples_from_the_spec() {
        // MQTT 3.1.1 Table 2.4 / MQTT 5 Table 1-1 boundaries
        assert_eq!(encode_varint(0), [0x00]);
        assert_eq!(encode_varint(64), [0x40]);
        assert_eq!(encode_varint(127), [0x7F]);
        assert_eq!(encode_varint(128), [0x80, 0x01]);
        assert_eq!(encode_varint(321), [0xC1, 0x02]); // the worked example: 65 + 2*128
        assert_eq!(encode_varint(16_383), [0xFF, 0x7F]);
        assert_eq!(encode_varint(16_384), [0x80, 0x80, 0x01]);
        assert_eq!(encode_varint(2_097_151), [0xFF, 0xFF, 0x7F]);
        assert_eq!(encode_varint(2_097_152), [0x80, 0x80, 0x80, 0x01]);
        assert_eq!(encode_varint(268_435_455), [0xFF, 0xFF, 0xFF, 0x7F]);
    }

    #[test]
    #[should_panic]
    fn varint_above_max_panics() {
        let _ = encode_varint(268_435_456);
    }

    #[test]
    fn connect_v3_spec_example_header() {
        // 3.1.1 figure 3.6 style: user name, password, will QoS 1, will flag, clean session = 0xCE, keep alive 10
        let p = Packet::Connect {
            level: 4,
            clean: true,
            keep_alive: 10,
            props: vec![],
            client_id: s("c"),
            will: Some(Will { qos: 1, retain: false, props: vec![], topic: s("w"), payload: vec![0xAA] }),
            username: Some(s("u")),
            password: Some(vec![0x70]),
        };
        let bytes = encode(Ver::V3, &p).unwrap();
        assert_eq!(
            bytes,
            [
                0x10, 0x19, // CONNECT, remaining length 25
                0x00, 0x04, b'M', b'Q', b'T', b'T', 0x04, 0xCE, 0x00, 0x0A, // variable header
                0x00, 0x01, b'c', // client id
                0x00, 0x01, b'w', // will topic
                0x00, 0x01, 0xAA, // will message
                0x00, 0x01, b'u', // user name
                0x00, 0x01, 0x70, // password
            ]
        );
    }

    #[test]
    fn connect_v5_spec_example_header_with_session_expiry() {
        // MQTT 5 figure 3-6/3-7: flags 0xCE, keep alive 10, property length 5, 0x11 = 10
        let p = Packet::Connect {
            level: 5,
            clean: true,
            keep_alive: 10,
            props: vec![Prop::U32(0x11, 10)],
            client_id: s(""),
            will: Some(Will { qos: 1, retain: false, props: vec![], topic: s("w"), payload: vec![] }),
            username: Some(s("u")),
            password: Some(vec![]),
        };
        let bytes = encode(Ver::V5, &p).unwrap();
        assert_eq!(
            bytes,
            [
                0x10, 0x1D, 0x00, 0x04, b'M', b'Q', b'T', b'T', 0x05, 0xCE, 0x00, 0x0A, 0x05, 0x11, 0x00, 0x00,
                0x00, 0x0A, // variable header
                0x00, 0x00, // client id ""
                0x00, // will property length
                0x00, 0x01, b'w', // will topic
                0x00, 0x00, // will payload
                0x00, 0x01, b'u', // user name
                0x00, 0x00, // password
            ]
        );
    }

    #[test]
    fn connect_flags_combinations() {
        let base = |clean, will: Option<Will>, username: Option<String>, password: Option<Vec<u8>>| {
            let p = Packet::Connect { level: 4, clean, keep_alive: 0, props: vec![], client_id: s(""), will, username, password };
            encode(Ver::V3, &p).unwrap()[9]
        };
        assert_eq!(base(false, None, None, None), 0x00);
        assert_eq!(base(true, None, None, None), 0x02);
        assert_eq!(base(false, None, Some(s("u")), None), 0x80);
        assert_eq!(base(false, None, None, Some(vec![])), 0x40);
        let w = |qos, retain| Some(Will { qos, retain, props: vec![], topic: s("t"), payload: vec![] });
        assert_eq!(base(false, w(0, false), None, None), 0x04);
        assert_eq!(base(false, w(1, false), None, None), 0x0C);
        assert_eq!(base(false, w(2, false), None, None), 0x14);
        assert_eq!(base(false, w(3, false), None, None), 0x1C); // hostile: will QoS 3
        assert_eq!(base(false, w(0, true), None, None), 0x24);
        assert_eq!(base(true, w(2, true), Some(s("u")), Some(vec![1])), 0xF6);
    }

    #[test]
    fn publish_flags_and_optional_pid() {
        let mk = |dup, qos, retain, pid| Packet::Publish { dup, qos, retain, topic: s("a/b"), pid, props: vec![], payload: b"hi".to_vec() };
        assert_eq!(encode(Ver::V3, &mk(false, 0, false, None)).unwrap(), [0x30, 0x07, 0, 3, b'a', b'/', b'b', b'h', b'i']);
        assert_eq!(encode(Ver::V3, &mk(false, 1, false, Some(10))).unwrap(), [0x32, 0x09, 0, 3, b'a', b'/', b'b', 0, 10, b'h', b'i']);
        assert_eq!(encode(Ver::V3, &mk(true, 2, true, Some(10))).unwrap()[0], 0x3D);
        // hostile forms
        assert_eq!(encode(Ver::V3, &mk(false, 3, false, Some(1))).unwrap()[0], 0x36);
        assert_eq!(encode(Ver::V3, &mk(false, 1, false, None)).unwrap(), [0x32, 0x07, 0, 3, b'a', b'/', b'b', b'h', b'i']);
        assert_eq!(encode(Ver::V3, &mk(false, 0, false, Some(0))).unwrap(), [0x30, 0x09, 0, 3, b'a', b'/', b'b', 0, 0, b'h', b'i']);
        assert!(encode(Ver::V3, &mk(false, 4, false, None)).is_err());
        // v5 adds the property length
        assert_eq!(encode(Ver::V5, &mk(false, 1, false, Some(10))).unwrap(), [0x32, 0x0A, 0, 3, b'a', b'/', b'b', 0, 10, 0, b'h', b'i']);
    }

    #[test]
    fn ack_short_forms() {
        let a = |code, props| Packet::PubAck { pid: 0x1234, code, props };
        assert_eq!(encode(Ver::V5, &a(None, None)).unwrap(), [0x40, 2, 0x12, 0x34]);
        assert_eq!(encode(Ver::V5, &a(Some(0x10), None)).unwrap(), [0x40, 3, 0x12, 0x34, 0x10]);
        assert_eq!(encode(Ver::V5, &a(Some(0x10), Some(vec![]))).unwrap(), [0x40, 4, 0x12, 0x34, 0x10, 0]);
        assert!(encode(Ver::V5, &a(None, Some(vec![]))).is_err());
        // V3 ignores code / props
        assert_eq!(encode(Ver::V3, &a(Some(0x10), Some(vec![]))).unwrap(), [0x40, 2, 0x12, 0x34]);
        assert_eq!(encode(Ver::V3, &Packet::PubRec { pid: 1, code: None, props: None }).unwrap(), [0x50, 2, 0, 1]);
        assert_eq!(encode(Ver::V3, &Packet::PubRel { pid: 1, code: None, props: None }).unwrap(), [0x62, 2, 0, 1]);
        assert_eq!(encode(Ver::V3, &Packet::PubComp { pid: 1, code: None, props: None }).unwrap(), [0x70, 2, 0, 1]);
        assert_eq!(encode(Ver::V5, &Packet::PubRel { pid: 1, code: Some(0x92), props: None }).unwrap(), [0x62, 3, 0, 1, 0x92]);
    }

    #[test]
    fn subscribe_suback_unsubscribe_unsuback() {
        let sub = Packet::Subscribe { pid: 10, props: vec![], filters: vec![(s("a/b"), 1), (s("c/d"), 2)] };
        assert_eq!(
            encode(Ver::V3, &sub).unwrap(),
            [0x82, 14, 0, 10, 0, 3, b'a', b'/', b'b', 1, 0, 3, b'c', b'/', b'd', 2]
        );
        assert_eq!(
            encode(Ver::V5, &sub).unwrap(),
            [0x82, 15, 0, 10, 0, 0, 3, b'a', b'/', b'b', 1, 0, 3, b'c', b'/', b'd', 2]
        );
        let suback = Packet::SubAck { pid: 10, props: vec![], codes: vec![0, 2, 0x80] };
        assert_eq!(encode(Ver::V3, &suback).unwrap(), [0x90, 5, 0, 10, 0, 2, 0x80]);
        assert_eq!(encode(Ver::V5, &suback).unwrap(), [0x90, 6, 0, 10, 0, 0, 2, 0x80]);
        let unsub = Packet::Unsubscribe { pid: 10, props: vec![], filters: vec![s("a/b"), s("c/d")] };
        assert_eq!(encode(Ver::V3, &unsub).unwrap(), [0xA2, 12, 0, 10, 0, 3, b'a', b'/', b'b', 0, 3, b'c', b'/', b'd']);
        assert_eq!(encode(Ver::V5, &unsub).unwrap(), [0xA2, 13, 0, 10, 0, 0, 3, b'a', b'/', b'b', 0, 3, b'c', b'/', b'd']);
        let unsuback = Packet::UnsubAck { pid: 10, props: vec![], codes: vec![0, 0x11] };
        assert_eq!(encode(Ver::V3, &unsuback).unwrap(), [0xB0, 2, 0, 10]);
        assert_eq!(encode(Ver::V5, &unsuback).unwrap(), [0xB0, 5, 0, 10, 0, 0, 0x11]);
    }

    #[test]
    fn ping_disconnect_auth() {
        assert_eq!(encode(Ver::V3, &Packet::PingReq).unwrap(), [0xC0, 0]);
        assert_eq!(encode(Ver::V5, &Packet::PingReq).unwrap(), [0xC0, 0]);
        assert_eq!(encode(Ver::V3, &Packet::PingResp).unwrap(), [0xD0, 0]);
        assert_eq!(encode(Ver::V5, &Packet::PingResp).unwrap(), [0xD0, 0]);
        assert_eq!(encode(Ver::V3, &Packet::Disconnect { code: None, props: None }).unwrap(), [0xE0, 0]);
        assert_eq!(encode(Ver::V3, &Packet::Disconnect { code: Some(4), props: Some(vec![]) }).unwrap(), [0xE0, 0]);
        assert_eq!(encode(Ver::V5, &Packet::Disconnect { code: None, props: None }).unwrap(), [0xE0, 0]);
        assert_eq!(encode(Ver::V5, &Packet::Disconnect { code: Some(4), props: None }).unwrap(), [0xE0, 1, 4]);
        assert_eq!(encode(Ver::V5, &Packet::Disconnect { code: Some(4), props: Some(vec![]) }).unwrap(), [0xE0, 2, 4, 0]);
        assert!(encode(Ver::V5, &Packet::Disconnect { code: None, props: Some(vec![]) }).is_err());
        assert!(encode(Ver::V3, &Packet::Auth { code: None, props: None }).is_err());
        assert_eq!(encode(Ver::V5, &Packet::Auth { code: None, props: None }).unwrap(), [0xF0, 0]);
        assert_eq!(encode(Ver::V5, &Packet::Auth { code: Some(0x18), props: None }).unwrap(), [0xF0, 1, 0x18]);
        assert_eq!(
            encode(Ver::V5, &Packet::Auth { code: Some(0x18), props: Some(vec![Prop::Str(0x15, s("X"))]) }).unwrap(),
            [0xF0, 6, 0x18, 4, 0x15, 0, 1, b'X']
        );
    }

    #[test]
    fn every_property_wire_type_and_caller_order() {
        let props = vec![
            Prop::Pair(0x26, s("k"), s("v")),
            Prop::Byte(0x01, 1),
            Prop::U16(0x23, 0x0102),
            Prop::U32(0x02, 0x01020304),
            Prop::VarInt(0x0B, 321),
            Prop::Str(0x03, s("t")),
            Prop::Bin(0x09, vec![0xDE, 0xAD]),
        ];
        let p = Packet::Publish { dup: false, qos: 0, retain: false, topic: s("t"), pid: None, props, payload: vec![] };
        let bytes = encode(Ver::V5, &p).unwrap();
        assert_eq!(
            bytes,
            [
                0x30, 33, 0, 1, b't', 29, // remaining length 3 + 1 + 29, property length 29
                0x26, 0, 1, b'k', 0, 1, b'v', // 7
                0x01, 1, // 2
                0x23, 1, 2, // 3
                0x02, 1, 2, 3, 4, // 5
                0x0B, 0xC1, 0x02, // 3
                0x03, 0, 1, b't', // 4
                0x09, 0, 2, 0xDE, 0xAD, // 5; 7+2+3+5+3+4+5 = 29
            ]
        );
        // V3 writes no property block at all
        assert_eq!(encode(Ver::V3, &p).unwrap(), [0x30, 3, 0, 1, b't']);
    }

    #[test]
    fn hostile_property_types_are_written_as_given() {
        // identifier 0x26 written as a byte, unknown identifier 0x7E as u16
        let p = Packet::Disconnect { code: Some(0), props: Some(vec![Prop::Byte(0x26, 9), Prop::U16(0x7E, 0xBEEF)]) };
        assert_eq!(encode(Ver::V5, &p).unwrap(), [0xE0, 7, 0, 5, 0x26, 9, 0x7E, 0xBE, 0xEF]);
    }

    #[test]
    fn unrepresentable_things_are_errors() {
        let long = "x".repeat(65_536);
        let ok = "x".repeat(65_535);
        let mk = |t: &str| Packet::Publish { dup: false, qos: 0, retain: false, topic: t.to_string(), pid: None, props: vec![], payload: vec![] };
        assert!(encode(Ver::V3, &mk(&long)).is_err());
        let enc = encode(Ver::V3, &mk(&ok)).unwrap();
        assert_eq!(&enc[..6], &[0x30, 0x81, 0x80, 0x04, 0xFF, 0xFF]); // remaining length 65537
        assert_eq!(enc.len(), 4 + 2 + 65_535);
        // binary too long
        let p = Packet::Connect { level: 4, clean: true, keep_alive: 0, props: vec![], client_id: s(""), will: None, username: None, password: Some(vec![0; 65_536]) };
        assert!(encode(Ver::V3, &p).is_err());
        // varint property too large
        let p = Packet::Subscribe { pid: 1, props: vec![Prop::VarInt(0x0B, 268_435_456)], filters: vec![(s("a"), 0)] };
        assert!(encode(Ver::V5, &p).is_err());
        let p = Packet::Subscribe { pid: 1, props: vec![Prop::VarInt(0x0B, 268_435_455)], filters: vec![(s("a"), 0)] };
        assert_eq!(encode(Ver::V5, &p).unwrap(), [0x82, 12, 0, 1, 5, 0x0B, 0xFF, 0xFF, 0xFF, 0x7F, 0, 1, b'a', 0]);
        // remaining length too large: payload of 268_435_455 bytes + topic
        let p = Packet::Publish { dup: false, qos: 0, retain: false, topic: s("t"), pid: None, props: vec![], payload: vec![0; 268_435_455 - 2] };
        assert!(encode(Ver::V3, &p).is_err());
    }

    #[test]
    fn largest_representable_remaining_length() {
        let p = Packet::Publish { dup: false, qos: 0, retain: false, topic: s("t"), pid: None, props: vec![], payload: vec![0; 268_435_455 - 3] };
        let enc = encode(Ver::V3, &p).unwrap();
        assert_eq!(&enc[..5], &[0x30, 0xFF, 0xFF, 0xFF, 0x7F]);
        assert_eq!(enc.len(), 5 + 268_435_455);
    }
}
