//! Independent reference implementation of the MQTT 3.1.1 and MQTT 5.0 wire
//! format, written from the OASIS specifications only (std only, no unsafe).
//!
//! It is meant to be used as a *test oracle*: the encoder is deliberately
//! permissive (it emits whatever the data model says, so hostile packets can
//! be built), the decoder is deliberately strict.
//!
//! Module map
//! * [`model`]    – the data model (`Ver`, `Prop`, `Will`, `Packet`)
//! * [`tables`]   – property table (MQTT 5 §2.2.2.2) and reason-code tables
//! * [`enc`]      – `encode`, `encode_varint`
//! * [`dec`]      – `decode`, `fixed_header`, `decode_varint`, `DecErr`, `StreamDecoder`
//! * [`layout`]   – structural field map of an accepted frame
//! * [`selftest`] – `selftest()`: literal byte vectors checked in both directions
//!   (the vectors are in the private modules `vectors_v3`, `vectors_v5`, `vectors_neg`)
//!
//! `parse` is the private single parser shared by `dec` and `layout`, so that
//! "`decode` accepts" and "`layout` succeeds" are the same predicate.

#![forbid(unsafe_code)]
#![allow(dead_code, unused_imports)] // the including crate need not use every table, entry point or re-export

pub mod dec;
pub mod enc;
pub mod layout;
pub mod model;
mod parse;
#[cfg(test)]
mod proptests;
pub mod selftest;
pub mod tables;
mod vectors_neg;
mod vectors_v3;
mod vectors_v5;

pub use self::dec::{decode, decode_varint, fixed_header, DecErr, StreamDecoder};
pub use self::enc::{encode, encode_varint};
pub use self::layout::{layout, Field, FieldKind};
pub use self::model::{Packet, Prop, Ver, Will};
pub use self::selftest::selftest;
pub use self::tables::{allowed_props, prop_kind, valid_reason_codes, PropKind};

/// Largest value a Variable Byte Integer can carry (MQTT 3.1.1 §2.2.3, MQTT 5 §1.5.5).
pub const VARINT_MAX: u32 = 268_435_455;
