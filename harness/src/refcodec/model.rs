//! Data model shared by the encoder, the decoder and the layout mapper.
//!
//! The model is a plain description of what is on the wire.  It is able to
//! describe packets which violate the specification (packet identifier 0,
//! QoS 3, properties of the wrong type ...) because the encoder is used to
//! manufacture hostile inputs; only the decoder is strict.

/// Protocol version: MQTT 3.1.1 (protocol level 4) or MQTT 5.0 (protocol level 5).
#[derive(Debug, Clone, Copy, PartialEq, Eq, Hash)]
pub enum Ver {
    V3,
    V5,
}

/// One MQTT 5 property as it appears on the wire: identifier + typed value.
///
/// The variant decides how the value is *written*; the identifier is written
/// as is.  The decoder only ever produces the variant which MQTT 5 §2.2.2.2
/// assigns to the identifier.
#[derive(Debug, Clone, PartialEq, Eq, Hash)]
pub enum Prop {
    /// identifier, one byte
    Byte(u8, u8),
    /// identifier, Two Byte Integer (big endian)
    U16(u8, u16),
    /// identifier, Four Byte Integer (big endian)
    U32(u8, u32),
    /// identifier, Variable Byte Integer
    VarInt(u8, u32),
    /// identifier, UTF-8 Encoded String
    Str(u8, String),
    /// identifier, Binary Data
    Bin(u8, Vec<u8>),
    /// identifier, UTF-8 String Pair (only id 0x26 User Property)
    Pair(u8, String, String),
}

impl Prop {
    /// The property identifier.
    pub fn id(&self) -> u8 {
        match self {
            Prop::Byte(id, _)
            | Prop::U16(id, _)
            | Prop::U32(id, _)
            | Prop::VarInt(id, _)
            | Prop::Str(id, _)
            | Prop::Bin(id, _)
            | Prop::Pair(id, _, _) => *id,
        }
    }
}

/// Will message carried in the CONNECT payload.
#[derive(Debug, Clone, PartialEq, Eq, Hash)]
pub struct Will {
    pub qos: u8,
    pub retain: bool,
    /// Will Properties (V5 only; empty and neither written nor read in V3).
    pub props: Vec<Prop>,
    pub topic: String,
    pub payload: Vec<u8>,
}

/// One MQTT control packet.
///
/// In V3 every `props` is empty / `None` and is neither written nor read.
///
/// For the four publish acknowledgements, DISCONNECT and AUTH, MQTT 5 allows
/// short forms:
/// * `code == None` – the packet ends before the reason code (v5: Remaining
///   Length 2 for the acks, 0 for DISCONNECT / AUTH); always `None` in V3.
/// * `code == Some, props == None` – reason code present, no Property Length
///   field at all (v5 acks: Remaining Length 3; DISCONNECT / AUTH: 1).
/// * `props == Some(vec)` – Property Length present (`vec` may be empty).
#[derive(Debug, Clone, PartialEq, Eq, Hash)]
pub enum Packet {
    Connect {
        level: u8,
        clean: bool,
        keep_alive: u16,
        props: Vec<Prop>,
        client_id: String,
        will: Option<Will>,
        username: Option<String>,
        password: Option<Vec<u8>>,
    },
    ConnAck {
        session_present: bool,
        code: u8,
        props: Vec<Prop>,
    },
    Publish {
        dup: bool,
        qos: u8,
        retain: bool,
        topic: String,
        pid: Option<u16>,
        props: Vec<Prop>,
        payload: Vec<u8>,
    },
    PubAck {
        pid: u16,
        code: Option<u8>,
        props: Option<Vec<Prop>>,
    },
    PubRec {
        pid: u16,
        code: Option<u8>,
        props: Option<Vec<Prop>>,
    },
    PubRel {
        pid: u16,
        code: Option<u8>,
        props: Option<Vec<Prop>>,
    },
    PubComp {
        pid: u16,
        code: Option<u8>,
        props: Option<Vec<Prop>>,
    },
    Subscribe {
        pid: u16,
        props: Vec<Prop>,
        /// (topic filter, v3: requested QoS byte / v5: subscription options byte)
        filters: Vec<(String, u8)>,
    },
    SubAck {
        pid: u16,
        props: Vec<Prop>,
        codes: Vec<u8>,
    },
    Unsubscribe {
        pid: u16,
        props: Vec<Prop>,
        filters: Vec<String>,
    },
    /// V3: `codes` is empty (a 3.1.1 UNSUBACK has no payload).
    UnsubAck {
        pid: u16,
        props: Vec<Prop>,
        codes: Vec<u8>,
    },
    PingReq,
    PingResp,
    /// V3: both `None`.
    Disconnect {
        code: Option<u8>,
        props: Option<Vec<Prop>>,
    },
    /// V5 only.
    Auth {
        code: Option<u8>,
        props: Option<Vec<Prop>>,
    },
}

impl Packet {
    /// Control packet type, the upper nibble of the first byte (1..=15).
    pub fn type_nibble(&self) -> u8 {
        match self {
            Packet::Connect { .. } => 1,
            Packet::ConnAck { .. } => 2,
            Packet::Publish { .. } => 3,
            Packet::PubAck { .. } => 4,
            Packet::PubRec { .. } => 5,
            Packet::PubRel { .. } => 6,
            Packet::PubComp { .. } => 7,
            Packet::Subscribe { .. } => 8,
            Packet::SubAck { .. } => 9,
            Packet::Unsubscribe { .. } => 10,
            Packet::UnsubAck { .. } => 11,
            Packet::PingReq => 12,
            Packet::PingResp => 13,
            Packet::Disconnect { .. } => 14,
            Packet::Auth { .. } => 15,
        }
    }

    /// Specification name of the control packet.
    pub fn name(&self) -> &'static str {
        type_name(self.type_nibble())
    }
}

/// Specification name for a control packet type nibble ("RESERVED" for 0 and > 15).
pub fn type_name(type_nibble: u8) -> &'static str {
    match type_nibble {
        1 => "CONNECT",
        2 => "CONNACK",
        3 => "PUBLISH",
        4 => "PUBACK",
        5 => "PUBREC",
        6 => "PUBREL",
        7 => "PUBCOMP",
        8 => "SUBSCRIBE",
        9 => "SUBACK",
        10 => "UNSUBSCRIBE",
        11 => "UNSUBACK",
        12 => "PINGREQ",
        13 => "PINGRESP",
        14 => "DISCONNECT",
        15 => "AUTH",
        _ => "RESERVED",
    }
}

#[cfg(test)]
mod tests {
    use super::*;

    #[test]
    fn prop_id_returns_identifier_of_every_variant() {
        assert_eq!(Prop::Byte(0x01, 1).id(), 0x01);
        assert_eq!(Prop::U16(0x21, 7).id(), 0x21);
        assert_eq!(Prop::U32(0x11, 7).id(), 0x11);
        assert_eq!(Prop::VarInt(0x0B, 7).id(), 0x0B);
        assert_eq!(Prop::Str(0x1F, "x".into()).id(), 0x1F);
        assert_eq!(Prop::Bin(0x09, vec![1]).id(), 0x09);
        assert_eq!(Prop::Pair(0x26, "k".into(), "v".into()).id(), 0x26);
    }

    #[test]
    fn type_nibbles_and_names_follow_the_spec_table() {
        let all: Vec<Packet> = vec![
            Packet::Connect {
                level: 4,
                clean: true,
                keep_alive: 0,
                props: vec![],
                client_id: String::new(),
                will: None,
                username: None,
                password: None,
            },
            Packet::ConnAck { session_present: false, code: 0, props: vec![] },
            Packet::Publish {
                dup: false,
                qos: 0,
                retain: false,
                topic: "t".into(),
                pid: None,
                props: vec![],
                payload: vec![],
            },
            Packet::PubAck { pid: 1, code: None, props: None },
            Packet::PubRec { pid: 1, code: None, props: None },
            Packet::PubRel { pid: 1, code: None, props: None },
            Packet::PubComp { pid: 1, code: None, props: None },
            Packet::Subscribe { pid: 1, props: vec![], filters: vec![] },
            Packet::SubAck { pid: 1, props: vec![], codes: vec![] },
            Packet::Unsubscribe { pid: 1, props: vec![], filters: vec![] },
            Packet::UnsubAck { pid: 1, props: vec![], codes: vec![] },
            Packet::PingReq,
            Packet::PingResp,
            Packet::Disconnect { code: None, props: None },
            Packet::Auth { code: None, props: None },
        ];
        let names = [
            "CONNECT",
            "CONNACK",
            "PUBLISH",
            "PUBACK",
            "PUBREC",
            "PUBREL",
            "PUBCOMP",
            "SUBSCRIBE",
            "SUBACK",
            "UNSUBSCRIBE",
            "UNSUBACK",
            "PINGREQ",
            "PINGRESP",
            "DISCONNECT",
            "AUTH",
        ];
        for (i, p) in all.iter().enumerate() {
            assert_eq!(p.type_nibble() as usize, i + 1);
            assert_eq!(p.name(), names[i]);
        }
        assert_eq!(type_name(0), "RESERVED");
        assert_eq!(type_name(16), "RESERVED");
    }
}
