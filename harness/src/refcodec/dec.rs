//! Strict one-shot decoder and incremental stream decoder.
//!
//! The actual parser lives in `parse.rs` (shared with `layout`).  This module
//! holds the public entry points, the Variable Byte Integer / fixed header
//! primitives and the `StreamDecoder`.
//!
//! What is rejected (`DecErr::Malformed`) is listed in the task description and
//! mirrored by the negative vectors in `selftest.rs`.  Deliberately *accepted*:
//! * non-minimal Variable Byte Integers (Remaining Length, Property Length,
//!   Subscription Identifier),
//! * CONNECT with password flag but no user name flag (both versions),
//! * U+0000 and Unicode non-characters inside strings,
//! * semantic rules which are not wire-format rules: DUP set on a QoS 0
//!   PUBLISH, empty topic name / topic filter, wildcard characters in a topic
//!   name, Session Present together with a non-zero return code, an empty list
//!   of codes in SUBACK / v5 UNSUBACK, zero-length client identifier with
//!   clean session 0, and so on.

use super::model::{Packet, Ver};
use super::parse;

pub use super::tables::{allowed_props, prop_kind, valid_reason_codes, PropKind};

#[derive(Debug, Clone, PartialEq, Eq)]
pub enum DecErr {
    /// The buffer does not yet hold one complete frame.
    NeedMore,
    /// The frame violates the specification; human readable reason.
    Malformed(String),
}

/// Decode a Variable Byte Integer from the front of `buf`.
///
/// * `Ok(Some((value, width)))` – terminated within 4 bytes (non-minimal
///   encodings such as `80 00` are accepted),
/// * `Ok(None)` – `buf` ends before the terminating byte and fewer than 4
///   bytes were seen,
/// * `Err(_)` – the 4th byte still has the continuation bit set (the value
///   would need a 5th byte).
pub fn decode_varint(buf: &[u8]) -> Result<Option<(u32, usize)>, String> {
    let mut value: u32 = 0;
    for i in 0..4 {
        let b = match buf.get(i) {
            None => return Ok(None),
            Some(b) => *b,
        };
        value |= ((b & 0x7F) as u32) << (7 * i);
        if b & 0x80 == 0 {
            return Ok(Some((value, i + 1)));
        }
    }
    Err("variable byte integer is longer than 4 bytes".to_string())
}

/// Only the fixed header: `Ok(Some((first_byte, remaining_length, header_len)))`,
/// `Ok(None)` = need more bytes, `Err` = malformed Remaining Length.
/// The first byte is *not* validated here.
pub fn fixed_header(buf: &[u8]) -> Result<Option<(u8, u32, usize)>, String> {
    let first = match buf.first() {
        None => return Ok(None),
        Some(b) => *b,
    };
    match decode_varint(&buf[1..])? {
        None => Ok(None),
        Some((rl, w)) => Ok(Some((first, rl, 1 + w))),
    }
}

/// Decode exactly one frame from the front of `buf`: `Ok((packet, total_frame_len))`.
///
/// Bytes after the first frame are ignored.  For an incomplete frame the
/// result is `NeedMore`, except that an invalid first byte (reserved type,
/// wrong reserved flags, PUBLISH QoS 3) and an over-long Remaining Length are
/// reported as `Malformed` as soon as those bytes are present; everything else
/// is judged once the whole frame is there.
pub fn decode(ver: Ver, buf: &[u8]) -> Result<(Packet, usize), DecErr> {
    parse::parse_frame(ver, buf, false).map(|p| (p.packet, p.total))
}

/// Incremental decoder over a byte stream.
#[derive(Debug, Clone)]
pub struct StreamDecoder {
    ver: Ver,
    buf: Vec<u8>,
    /// start of the not yet returned bytes inside `buf`
    start: usize,
    consumed: usize,
    dead: Option<String>,
}

impl StreamDecoder {
    pub fn new(ver: Ver) -> Self {
        StreamDecoder { ver, buf: Vec::new(), start: 0, consumed: 0, dead: None }
    }

    pub fn ver(&self) -> Ver {
        self.ver
    }

    /// Append bytes received from the stream.  (Still buffered after the stream
    /// died, but never looked at again.)
    pub fn feed(&mut self, bytes: &[u8]) {
        if self.start > 0 && (self.start == self.buf.len() || self.start >= 64 * 1024) {
            self.buf.drain(..self.start);
            self.start = 0;
        }
        self.buf.extend_from_slice(bytes);
    }

    /// Next complete packet if one is buffered:
    /// `Ok(Some((packet, raw_frame_bytes)))` / `Ok(None)` need more /
    /// `Err(reason)` => the stream is dead (every later call returns the same `Err`).
    #[allow(clippy::should_implement_trait)]
    pub fn next(&mut self) -> Result<Option<(Packet, Vec<u8>)>, String> {
        if let Some(e) = &self.dead {
            return Err(e.clone());
        }
        match decode(self.ver, &self.buf[self.start..]) {
            Ok((packet, n)) => {
                let raw = self.buf[self.start..self.start + n].to_vec();
                self.start += n;
                self.consumed += n;
                Ok(Some((packet, raw)))
            }
            Err(DecErr::NeedMore) => Ok(None),
            Err(DecErr::Malformed(e)) => {
                self.dead = Some(e.clone());
                Err(e)
            }
        }
    }

    /// Bytes fed but not yet returned as part of a packet.
    pub fn buffered(&self) -> usize {
        self.buf.len() - self.start
    }

    /// Total bytes returned as part of packets so far.
    pub fn consumed(&self) -> usize {
        self.consumed
    }

    /// `Some(reason)` once the stream has hit a malformed frame.
    pub fn dead(&self) -> Option<&str> {
        self.dead.as_deref()
    }
}

#[cfg(test)]
mod tests {
    use super::super::enc::{encode, encode_varint};
    use super::super::model::{Prop, Will};
    use super::*;

    fn s(x: &str) -> String {
        x.to_string()
    }

    fn ok(ver: Ver, bytes: &[u8]) -> Packet {
        match decode(ver, bytes) {
            Ok((p, n)) => {
                assert_eq!(n, bytes.len(), "frame length");
                p
            }
            Err(e) => panic!("decode failed: {e:?} for {bytes:02x?}"),
        }
    }

    fn bad(ver: Ver, bytes: &[u8]) -> String {
        match decode(ver, bytes) {
            Err(DecErr::Malformed(m)) => m,
            other => panic!("expected Malformed, got {other:?} for {bytes:02x?}"),
        }
    }

    // ------------------------------------------------------------------ varint

    #[test]
    fn varint_spec_examples() {
        assert_eq!(decode_varint(&[0x00]), Ok(Some((0, 1))));
        assert_eq!(decode_varint(&[0x40]), Ok(Some((64, 1))));
        assert_eq!(decode_varint(&[0x7F]), Ok(Some((127, 1))));
        assert_eq!(decode_varint(&[0x80, 0x01]), Ok(Some((128, 2))));
        assert_eq!(decode_varint(&[0xC1, 0x02]), Ok(Some((321, 2))));
        assert_eq!(decode_varint(&[0xFF, 0x7F]), Ok(Some((16_383, 2))));
        assert_eq!(decode_varint(&[0x80, 0x80, 0x01]), Ok(Some((16_384, 3))));
        assert_eq!(decode_varint(&[0xFF, 0xFF, 0x7F]), Ok(Some((2_097_151, 3))));
        assert_eq!(decode_varint(&[0x80, 0x80, 0x80, 0x01]), Ok(Some((2_097_152, 4))));
        assert_eq!(decode_varint(&[0xFF, 0xFF, 0xFF, 0x7F]), Ok(Some((268_435_455, 4))));
    }

    #[test]
    fn varint_incomplete_nonminimal_and_overlong() {
        assert_eq!(decode_varint(&[]), Ok(None));
        assert_eq!(decode_varint(&[0x80]), Ok(None));
        assert_eq!(decode_varint(&[0x80, 0x80]), Ok(None));
        assert_eq!(decode_varint(&[0xFF, 0xFF, 0xFF]), Ok(None));
        // non-minimal encodings are accepted
        assert_eq!(decode_varint(&[0x80, 0x00]), Ok(Some((0, 2))));
        assert_eq!(decode_varint(&[0x81, 0x80, 0x00]), Ok(Some((1, 3))));
        assert_eq!(decode_varint(&[0x80, 0x80, 0x80, 0x00]), Ok(Some((0, 4))));
        // 4th byte with continuation bit: malformed whether or not a 5th byte is there
        assert!(decode_varint(&[0x80, 0x80, 0x80, 0x80]).is_err());
        assert!(decode_varint(&[0xFF, 0xFF, 0xFF, 0xFF, 0x7F]).is_err());
        assert!(decode_varint(&[0x80, 0x80, 0x80, 0x80, 0x01]).is_err());
        // trailing bytes are not looked at
        assert_eq!(decode_varint(&[0x05, 0xFF, 0xFF]), Ok(Some((5, 1))));
    }

    #[test]
    fn varint_round_trip_boundaries() {
        for v in [0u32, 1, 127, 128, 129, 16_383, 16_384, 2_097_151, 2_097_152, 268_435_454, 268_435_455] {
            let e = encode_varint(v);
            assert_eq!(decode_varint(&e), Ok(Some((v, e.len()))));
        }
    }

    #[test]
    fn fixed_header_cases() {
        assert_eq!(fixed_header(&[]), Ok(None));
        assert_eq!(fixed_header(&[0x30]), Ok(None));
        assert_eq!(fixed_header(&[0x30, 0x80]), Ok(None));
        assert_eq!(fixed_header(&[0x30, 0x00]), Ok(Some((0x30, 0, 2))));
        assert_eq!(fixed_header(&[0x3D, 0xC1, 0x02, 0xAA]), Ok(Some((0x3D, 321, 3))));
        assert_eq!(fixed_header(&[0x00, 0xFF, 0xFF, 0xFF, 0x7F]), Ok(Some((0x00, 268_435_455, 5))));
        assert!(fixed_header(&[0x30, 0xFF, 0xFF, 0xFF, 0xFF]).is_err());
        assert!(fixed_header(&[0x30, 0x80, 0x80, 0x80, 0x80, 0x01]).is_err());
    }

    // ------------------------------------------------------- need more vs malformed

    #[test]
    fn need_more_on_every_strict_prefix() {
        let frame = [0x32, 0x09, 0, 3, b'a', b'/', b'b', 0, 10, b'h', b'i'];
        for n in 0..frame.len() {
            assert_eq!(decode(Ver::V3, &frame[..n]), Err(DecErr::NeedMore), "prefix {n}");
        }
        assert!(decode(Ver::V3, &frame).is_ok());
        // trailing bytes of the next frame are ignored
        let mut two = frame.to_vec();
        two.extend_from_slice(&[0xC0, 0x00]);
        assert_eq!(decode(Ver::V3, &two).unwrap().1, frame.len());
    }

    #[test]
    fn first_byte_and_varint_errors_are_reported_early() {
        assert!(matches!(decode(Ver::V3, &[0x00]), Err(DecErr::Malformed(_))));
        assert!(matches!(decode(Ver::V5, &[0x0F]), Err(DecErr::Malformed(_))));
        assert!(matches!(decode(Ver::V3, &[0xF0]), Err(DecErr::Malformed(_))));
        assert_eq!(decode(Ver::V5, &[0xF0]), Err(DecErr::NeedMore));
        assert!(matches!(decode(Ver::V3, &[0x36]), Err(DecErr::Malformed(_)))); // QoS 3
        assert!(matches!(decode(Ver::V3, &[0x60]), Err(DecErr::Malformed(_)))); // PUBREL flags 0
        assert!(matches!(decode(Ver::V3, &[0xC1]), Err(DecErr::Malformed(_))));
        assert_eq!(decode(Ver::V3, &[0x30, 0xFF, 0xFF, 0xFF]), Err(DecErr::NeedMore));
        assert!(matches!(decode(Ver::V3, &[0x30, 0xFF, 0xFF, 0xFF, 0xFF]), Err(DecErr::Malformed(_))));
    }

    #[test]
    fn reserved_flags_for_every_type() {
        for ver in [Ver::V3, Ver::V5] {
            for t in 1..=15u8 {
                if t == 3 || (t == 15 && ver == Ver::V3) {
                    continue;
                }
                let want = if matches!(t, 6 | 8 | 10) { 2 } else { 0 };
                for f in 0..16u8 {
                    let r = decode(ver, &[(t << 4) | f]);
                    if f == want {
                        assert_eq!(r, Err(DecErr::NeedMore), "type {t} flags {f}");
                    } else {
                        assert!(matches!(r, Err(DecErr::Malformed(_))), "type {t} flags {f}");
                    }
                }
            }
            // PUBLISH: all combinations except QoS 3
            for f in 0..16u8 {
                let r = decode(ver, &[0x30 | f]);
                if (f >> 1) & 3 == 3 {
                    assert!(matches!(r, Err(DecErr::Malformed(_))));
                } else {
                    assert_eq!(r, Err(DecErr::NeedMore));
                }
            }
        }
    }

    // ------------------------------------------------------------------ CONNECT

    #[test]
    fn connect_v3_minimal_and_full() {
        let p = ok(Ver::V3, &[0x10, 12, 0, 4, b'M', b'Q', b'T', b'T', 4, 2, 0, 60, 0, 0]);
        assert_eq!(
            p,
            Packet::Connect { level: 4, clean: true, keep_alive: 60, props: vec![], client_id: s(""), will: None, username: None, password: None }
        );
        let full = [
            0x10, 0x19, 0x00, 0x04, b'M', b'Q', b'T', b'T', 0x04, 0xCE, 0x00, 0x0A, 0x00, 0x01, b'c', 0x00, 0x01, b'w', 0x00, 0x01,
            0xAA, 0x00, 0x01, b'u', 0x00, 0x01, 0x70,
        ];
        assert_eq!(
            ok(Ver::V3, &full),
            Packet::Connect {
                level: 4,
                clean: true,
                keep_alive: 10,
                props: vec![],
                client_id: s("c"),
                will: Some(Will { qos: 1, retain: false, props: vec![], topic: s("w"), payload: vec![0xAA] }),
                username: Some(s("u")),
                password: Some(vec![0x70]),
            }
        );
    }

    #[test]
    fn connect_strictness() {
        let base = |level: u8, flags: u8| vec![0x10, 12, 0, 4, b'M', b'Q', b'T', b'T', level, flags, 0, 60, 0, 0];
        assert!(bad(Ver::V3, &base(5, 2)).contains("protocol level"));
        assert!(bad(Ver::V3, &base(3, 2)).contains("protocol level"));
        assert!(bad(Ver::V3, &base(4, 3)).contains("reserved"));
        assert!(bad(Ver::V3, &base(4, 0x08)).contains("will QoS"));
        assert!(bad(Ver::V3, &base(4, 0x10)).contains("will QoS"));
        assert!(bad(Ver::V3, &base(4, 0x20)).contains("will retain"));
        // will QoS 3 with will flag
        let mut w = vec![0x10, 18, 0, 4, b'M', b'Q', b'T', b'T', 4, 0x1E, 0, 60, 0, 0, 0, 1, b't', 0, 1, b'm'];
        assert!(bad(Ver::V3, &w).contains("will QoS 3"));
        w[9] = 0x16; // will QoS 2
        ok(Ver::V3, &w);
        // protocol name
        assert!(bad(Ver::V3, &[0x10, 12, 0, 4, b'M', b'Q', b'T', b'X', 4, 2, 0, 60, 0, 0]).contains("protocol name"));
        assert!(bad(Ver::V3, &[0x10, 14, 0, 6, b'M', b'Q', b'I', b's', b'd', b'p', 3, 2, 0, 60, 0, 0]).contains("protocol name"));
        assert!(bad(Ver::V3, &[0x10, 11, 0, 3, b'M', b'Q', b'T', 4, 2, 0, 60, 0, 0]).contains("protocol name"));
        // trailing byte
        assert!(bad(Ver::V3, &[0x10, 13, 0, 4, b'M', b'Q', b'T', b'T', 4, 2, 0, 60, 0, 0, 0xFF]).contains("left over"));
        // client id length past the packet
        assert!(bad(Ver::V3, &[0x10, 12, 0, 4, b'M', b'Q', b'T', b'T', 4, 2, 0, 60, 0, 1]).contains("runs past"));
        // username flag but no username
        assert!(bad(Ver::V3, &base(4, 0x82)).contains("runs past"));
        // password without username: accepted in both versions
        let pw = [0x10, 15, 0, 4, b'M', b'Q', b'T', b'T', 4, 0x42, 0, 60, 0, 0, 0, 1, b'p'];
        assert!(matches!(ok(Ver::V3, &pw), Packet::Connect { username: None, password: Some(_), .. }));
        // v5 frame given to the v3 decoder and vice versa
        let v5 = [0x10, 13, 0, 4, b'M', b'Q', b'T', b'T', 5, 2, 0, 60, 0, 0, 0];
        ok(Ver::V5, &v5);
        assert!(bad(Ver::V3, &v5).contains("protocol level"));
        assert!(bad(Ver::V5, &base(4, 2)).contains("protocol level"));
    }

    #[test]
    fn connect_v5_with_properties_and_will_properties() {
        let bytes = [
            0x10, 45, 0, 4, b'M', b'Q', b'T', b'T', 5, 0x2E, 0, 30, // flags: will retain, will qos 1, will, clean
            8, 0x11, 0, 0, 0, 10, 0x21, 0, 20, // session expiry 10, receive maximum 20
            0, 2, b'i', b'd', // client id
            14, 0x18, 0, 0, 0, 5, 0x01, 1, 0x26, 0, 1, b'a', 0, 1, b'b', // will props
            0, 1, b'w', // will topic
            0, 2, 1, 2, // will payload
        ];
        assert_eq!(
            ok(Ver::V5, &bytes),
            Packet::Connect {
                level: 5,
                clean: true,
                keep_alive: 30,
                props: vec![Prop::U32(0x11, 10), Prop::U16(0x21, 20)],
                client_id: s("id"),
                will: Some(Will {
                    qos: 1,
                    retain: true,
                    props: vec![Prop::U32(0x18, 5), Prop::Byte(0x01, 1), Prop::Pair(0x26, s("a"), s("b"))],
                    topic: s("w"),
                    payload: vec![1, 2],
                }),
                username: None,
                password: None,
            }
        );
    }

    // ------------------------------------------------------------------ CONNACK

    #[test]
    fn connack_both_versions() {
        assert_eq!(ok(Ver::V3, &[0x20, 2, 0, 0]), Packet::ConnAck { session_present: false, code: 0, props: vec![] });
        assert_eq!(ok(Ver::V3, &[0x20, 2, 1, 0]), Packet::ConnAck { session_present: true, code: 0, props: vec![] });
        assert_eq!(ok(Ver::V3, &[0x20, 2, 0, 5]), Packet::ConnAck { session_present: false, code: 5, props: vec![] });
        assert!(bad(Ver::V3, &[0x20, 2, 0, 6]).contains("reason code"));
        assert!(bad(Ver::V3, &[0x20, 2, 2, 0]).contains("reserved"));
        assert!(bad(Ver::V3, &[0x20, 2, 0x80, 0]).contains("reserved"));
        assert!(bad(Ver::V3, &[0x20, 3, 0, 0, 0]).contains("left over"));
        assert!(bad(Ver::V3, &[0x20, 1, 0]).contains("runs past"));
        assert!(bad(Ver::V3, &[0x20, 0]).contains("runs past"));

        assert_eq!(ok(Ver::V5, &[0x20, 3, 0, 0, 0]), Packet::ConnAck { session_present: false, code: 0, props: vec![] });
        assert_eq!(
            ok(Ver::V5, &[0x20, 6, 1, 0, 3, 0x13, 0, 60]),
            Packet::ConnAck { session_present: true, code: 0, props: vec![Prop::U16(0x13, 60)] }
        );
        assert!(bad(Ver::V5, &[0x20, 2, 0, 0]).contains("property length"));
        assert!(bad(Ver::V5, &[0x20, 3, 0, 1, 0]).contains("reason code"));
        assert!(bad(Ver::V5, &[0x20, 4, 0, 0, 0, 0]).contains("left over"));
        assert!(bad(Ver::V5, &[0x20, 3, 0, 0, 1]).contains("runs past"));
        for c in 0..=255u8 {
            let r = decode(Ver::V5, &[0x20, 3, 0, c, 0]);
            assert_eq!(r.is_ok(), valid_reason_codes(Ver::V5, 2).contains(&c), "code {c:#04x}");
        }
    }

    // ------------------------------------------------------------------ PUBLISH

    #[test]
    fn publish_both_versions() {
        assert_eq!(
            ok(Ver::V3, &[0x30, 7, 0, 3, b'a', b'/', b'b', b'h', b'i']),
            Packet::Publish { dup: false, qos: 0, retain: false, topic: s("a/b"), pid: None, props: vec![], payload: b"hi".to_vec() }
        );
        assert_eq!(
            ok(Ver::V3, &[0x3B, 7, 0, 3, b'a', b'/', b'b', 0, 10]),
            Packet::Publish { dup: true, qos: 1, retain: true, topic: s("a/b"), pid: Some(10), props: vec![], payload: vec![] }
        );
        assert_eq!(
            ok(Ver::V5, &[0x34, 11, 0, 3, b'a', b'/', b'b', 0, 10, 2, 0x01, 1, b'x']),
            Packet::Publish { dup: false, qos: 2, retain: false, topic: s("a/b"), pid: Some(10), props: vec![Prop::Byte(1, 1)], payload: b"x".to_vec() }
        );
        // QoS 0 has no identifier: the two bytes are payload in V3
        assert_eq!(
            ok(Ver::V3, &[0x30, 7, 0, 3, b'a', b'/', b'b', 0, 0]),
            Packet::Publish { dup: false, qos: 0, retain: false, topic: s("a/b"), pid: None, props: vec![], payload: vec![0, 0] }
        );
        assert!(bad(Ver::V3, &[0x32, 7, 0, 3, b'a', b'/', b'b', 0, 0]).contains("packet identifier is 0"));
        assert!(bad(Ver::V3, &[0x32, 5, 0, 3, b'a', b'/', b'b']).contains("runs past"));
        assert!(bad(Ver::V3, &[0x30, 4, 0, 3, b'a', b'/']).contains("runs past"));
        assert!(bad(Ver::V3, &[0x30, 1, 0]).contains("runs past"));
        assert!(bad(Ver::V3, &[0x30, 0]).contains("runs past"));
        assert!(bad(Ver::V3, &[0x30, 4, 0, 2, 0xC3, 0x28]).contains("UTF-8"));
        assert!(bad(Ver::V5, &[0x30, 5, 0, 3, b'a', b'/', b'b']).contains("property length"));
        // permissive: U+0000 inside a topic and DUP on QoS 0
        ok(Ver::V3, &[0x38, 3, 0, 1, 0]);
    }

    #[test]
    fn utf8_well_formedness() {
        let with = |body: &[u8]| {
            let mut v = vec![0x30, (2 + body.len()) as u8, 0, body.len() as u8];
            v.extend_from_slice(body);
            v
        };
        // the spec example: "A" + U+2A6D4
        assert!(matches!(ok(Ver::V3, &with(&[0x41, 0xF0, 0xAA, 0x9B, 0x94])), Packet::Publish { ref topic, .. } if topic == "A\u{2A6D4}"));
        ok(Ver::V3, &with(&[0xEF, 0xBB, 0xBF])); // U+FEFF is kept
        ok(Ver::V3, &with(&[0xEF, 0xBF, 0xBF])); // U+FFFF non-character: permissive
        ok(Ver::V3, &with(&[0x01])); // control character: permissive
        assert!(bad(Ver::V3, &with(&[0xED, 0xA0, 0x80])).contains("UTF-8")); // surrogate U+D800
        assert!(bad(Ver::V3, &with(&[0xC0, 0x80])).contains("UTF-8")); // overlong NUL
        assert!(bad(Ver::V3, &with(&[0xF4, 0x90, 0x80, 0x80])).contains("UTF-8")); // > U+10FFFF
        assert!(bad(Ver::V3, &with(&[0xE2, 0x82])).contains("UTF-8")); // truncated
        assert!(bad(Ver::V3, &with(&[0xFF])).contains("UTF-8"));
        assert!(bad(Ver::V3, &with(&[0x80])).contains("UTF-8"));
    }

    // --------------------------------------------------------------------- acks

    #[test]
    fn acks_v3() {
        assert_eq!(ok(Ver::V3, &[0x40, 2, 0, 1]), Packet::PubAck { pid: 1, code: None, props: None });
        assert_eq!(ok(Ver::V3, &[0x50, 2, 0xFF, 0xFF]), Packet::PubRec { pid: 0xFFFF, code: None, props: None });
        assert_eq!(ok(Ver::V3, &[0x62, 2, 1, 0]), Packet::PubRel { pid: 256, code: None, props: None });
        assert_eq!(ok(Ver::V3, &[0x70, 2, 0, 2]), Packet::PubComp { pid: 2, code: None, props: None });
        for first in [0x40u8, 0x50, 0x62, 0x70] {
            assert!(bad(Ver::V3, &[first, 2, 0, 0]).contains("identifier is 0"));
            assert!(bad(Ver::V3, &[first, 3, 0, 1, 0]).contains("left over"));
            assert!(bad(Ver::V3, &[first, 1, 0]).contains("runs past"));
            assert!(bad(Ver::V3, &[first, 0]).contains("runs past"));
        }
    }

    #[test]
    fn acks_v5_short_and_long_forms() {
        for (first, t) in [(0x40u8, 4u8), (0x50, 5), (0x62, 6), (0x70, 7)] {
            let mk = |pid, code, props| match t {
                4 => Packet::PubAck { pid, code, props },
                5 => Packet::PubRec { pid, code, props },
                6 => Packet::PubRel { pid, code, props },
                _ => Packet::PubComp { pid, code, props },
            };
            assert_eq!(ok(Ver::V5, &[first, 2, 0, 1]), mk(1, None, None));
            assert_eq!(ok(Ver::V5, &[first, 3, 0, 1, 0]), mk(1, Some(0), None));
            assert_eq!(ok(Ver::V5, &[first, 4, 0, 1, 0, 0]), mk(1, Some(0), Some(vec![])));
            assert_eq!(
                ok(Ver::V5, &[first, 8, 0, 1, 0, 4, 0x1F, 0, 1, b'r']),
                mk(1, Some(0), Some(vec![Prop::Str(0x1F, s("r"))]))
            );
            assert!(bad(Ver::V5, &[first, 5, 0, 1, 0, 0, 0]).contains("left over"));
            assert!(bad(Ver::V5, &[first, 4, 0, 1, 0, 1]).contains("runs past"));
            assert!(bad(Ver::V5, &[first, 2, 0, 0]).contains("identifier is 0"));
            assert!(bad(Ver::V5, &[first, 1, 0]).contains("runs past"));
            for c in 0..=255u8 {
                let r = decode(Ver::V5, &[first, 3, 0, 1, c]);
                assert_eq!(r.is_ok(), valid_reason_codes(Ver::V5, t).contains(&c), "type {t} code {c:#04x}");
            }
        }
    }

    // ------------------------------------------------- SUBSCRIBE / SUBACK / UNSUB*

    #[test]
    fn subscribe_both_versions() {
        let v3 = [0x82, 14, 0, 10, 0, 3, b'a', b'/', b'b', 1, 0, 3, b'c', b'/', b'd', 2];
        assert_eq!(ok(Ver::V3, &v3), Packet::Subscribe { pid: 10, props: vec![], filters: vec![(s("a/b"), 1), (s("c/d"), 2)] });
        let v5 = [0x82, 17, 0, 10, 2, 0x0B, 7, 0, 3, b'a', b'/', b'b', 0x2D, 0, 3, b'c', b'/', b'd', 0x12];
        assert_eq!(
            ok(Ver::V5, &v5),
            Packet::Subscribe { pid: 10, props: vec![Prop::VarInt(0x0B, 7)], filters: vec![(s("a/b"), 0x2D), (s("c/d"), 0x12)] }
        );
        assert!(bad(Ver::V3, &[0x82, 2, 0, 10]).contains("no topic filter"));
        assert!(bad(Ver::V5, &[0x82, 3, 0, 10, 0]).contains("no topic filter"));
        assert!(bad(Ver::V3, &[0x82, 6, 0, 0, 0, 1, b'a', 0]).contains("identifier is 0"));
        assert!(bad(Ver::V3, &[0x82, 6, 0, 1, 0, 1, b'a', 3]).contains("requested QoS"));
        assert!(bad(Ver::V3, &[0x82, 6, 0, 1, 0, 1, b'a', 0x04]).contains("requested QoS"));
        assert!(bad(Ver::V3, &[0x82, 5, 0, 1, 0, 1, b'a']).contains("runs past"));
        for o in 0..=255u8 {
            let r = decode(Ver::V5, &[0x82, 7, 0, 1, 0, 0, 1, b'a', o]);
            let valid = o & 3 != 3 && (o >> 4) & 3 != 3 && o & 0xC0 == 0;
            assert_eq!(r.is_ok(), valid, "options {o:#04x}");
            let r = decode(Ver::V3, &[0x82, 6, 0, 1, 0, 1, b'a', o]);
            assert_eq!(r.is_ok(), o <= 2, "v3 qos {o:#04x}");
        }
    }

    #[test]
    fn suback_both_versions() {
        assert_eq!(ok(Ver::V3, &[0x90, 5, 0, 10, 0, 2, 0x80]), Packet::SubAck { pid: 10, props: vec![], codes: vec![0, 2, 0x80] });
        assert_eq!(ok(Ver::V5, &[0x90, 6, 0, 10, 0, 1, 0x87, 0xA2]), Packet::SubAck { pid: 10, props: vec![], codes: vec![1, 0x87, 0xA2] });
        assert!(bad(Ver::V3, &[0x90, 3, 0, 0, 0]).contains("identifier is 0"));
        for c in 0..=255u8 {
            assert_eq!(decode(Ver::V3, &[0x90, 3, 0, 1, c]).is_ok(), [0, 1, 2, 0x80].contains(&c), "v3 code {c:#04x}");
            assert_eq!(decode(Ver::V5, &[0x90, 4, 0, 1, 0, c]).is_ok(), valid_reason_codes(Ver::V5, 9).contains(&c), "v5 code {c:#04x}");
        }
    }

    #[test]
    fn unsubscribe_and_unsuback() {
        let v3 = [0xA2, 12, 0, 10, 0, 3, b'a', b'/', b'b', 0, 3, b'c', b'/', b'd'];
        assert_eq!(ok(Ver::V3, &v3), Packet::Unsubscribe { pid: 10, props: vec![], filters: vec![s("a/b"), s("c/d")] });
        let v5 = [0xA2, 13, 0, 10, 0, 0, 3, b'a', b'/', b'b', 0, 3, b'c', b'/', b'd'];
        assert_eq!(ok(Ver::V5, &v5), Packet::Unsubscribe { pid: 10, props: vec![], filters: vec![s("a/b"), s("c/d")] });
        assert!(bad(Ver::V3, &[0xA2, 2, 0, 10]).contains("no topic filter"));
        assert!(bad(Ver::V5, &[0xA2, 3, 0, 10, 0]).contains("no topic filter"));
        assert!(bad(Ver::V3, &[0xA2, 5, 0, 0, 0, 1, b'a']).contains("identifier is 0"));
        assert!(bad(Ver::V3, &[0xA2, 5, 0, 1, 0, 2, b'a']).contains("runs past"));
        assert!(bad(Ver::V3, &[0xA2, 3, 0, 1, 0]).contains("runs past"));

        assert_eq!(ok(Ver::V3, &[0xB0, 2, 0, 10]), Packet::UnsubAck { pid: 10, props: vec![], codes: vec![] });
        assert!(bad(Ver::V3, &[0xB0, 3, 0, 10, 0]).contains("left over"));
        assert!(bad(Ver::V3, &[0xB0, 2, 0, 0]).contains("identifier is 0"));
        assert_eq!(ok(Ver::V5, &[0xB0, 5, 0, 10, 0, 0, 0x11]), Packet::UnsubAck { pid: 10, props: vec![], codes: vec![0, 0x11] });
        assert!(bad(Ver::V5, &[0xB0, 2, 0, 10]).contains("property length"));
        for c in 0..=255u8 {
            assert_eq!(decode(Ver::V5, &[0xB0, 4, 0, 1, 0, c]).is_ok(), valid_reason_codes(Ver::V5, 11).contains(&c), "code {c:#04x}");
        }
    }

    // ------------------------------------------------ PING / DISCONNECT / AUTH

    #[test]
    fn ping_disconnect_auth() {
        for ver in [Ver::V3, Ver::V5] {
            assert_eq!(ok(ver, &[0xC0, 0]), Packet::PingReq);
            assert_eq!(ok(ver, &[0xD0, 0]), Packet::PingResp);
            assert_eq!(ok(ver, &[0xC0, 0x80, 0x00]), Packet::PingReq); // non-minimal remaining length
            assert!(bad(ver, &[0xC0, 1, 0]).contains("left over"));
            assert!(bad(ver, &[0xD0, 1, 0]).contains("left over"));
            assert_eq!(ok(ver, &[0xE0, 0]), Packet::Disconnect { code: None, props: None });
        }
        assert!(bad(Ver::V3, &[0xE0, 1, 0]).contains("left over"));
        assert_eq!(ok(Ver::V5, &[0xE0, 1, 0x04]), Packet::Disconnect { code: Some(4), props: None });
        assert_eq!(ok(Ver::V5, &[0xE0, 2, 0x00, 0]), Packet::Disconnect { code: Some(0), props: Some(vec![]) });
        assert_eq!(
            ok(Ver::V5, &[0xE0, 7, 0x00, 5, 0x11, 0, 0, 0, 9]),
            Packet::Disconnect { code: Some(0), props: Some(vec![Prop::U32(0x11, 9)]) }
        );
        assert!(bad(Ver::V5, &[0xE0, 3, 0x00, 0, 0]).contains("left over"));
        assert!(bad(Ver::V5, &[0xE0, 2, 0x00, 1]).contains("runs past"));
        assert_eq!(ok(Ver::V5, &[0xF0, 0]), Packet::Auth { code: None, props: None });
        assert_eq!(ok(Ver::V5, &[0xF0, 1, 0x19]), Packet::Auth { code: Some(0x19), props: None });
        assert_eq!(
            ok(Ver::V5, &[0xF0, 6, 0x18, 4, 0x15, 0, 1, b'X']),
            Packet::Auth { code: Some(0x18), props: Some(vec![Prop::Str(0x15, s("X"))]) }
        );
        assert!(bad(Ver::V5, &[0xF0, 3, 0x18, 0, 0]).contains("left over"));
        assert!(bad(Ver::V3, &[0xF0, 0]).contains("reserved"));
        for c in 0..=255u8 {
            assert_eq!(decode(Ver::V5, &[0xE0, 1, c]).is_ok(), valid_reason_codes(Ver::V5, 14).contains(&c), "disconnect {c:#04x}");
            assert_eq!(decode(Ver::V5, &[0xF0, 1, c]).is_ok(), valid_reason_codes(Ver::V5, 15).contains(&c), "auth {c:#04x}");
        }
    }

    // --------------------------------------------------------------- properties

    /// A frame of packet type `t` (v5) whose property block is `block`, with
    /// otherwise valid minimal content.
    fn frame_with_props(t: u8, block: &[u8]) -> Vec<u8> {
        let mut body: Vec<u8> = Vec::new();
        let mut first = t << 4;
        let mut tail: Vec<u8> = Vec::new();
        match t {
            1 => {
                body.extend_from_slice(&[0, 4, b'M', b'Q', b'T', b'T', 5, 2, 0, 0]);
                tail.extend_from_slice(&[0, 0]);
            }
            2 => body.extend_from_slice(&[0, 0]),
            3 => body.extend_from_slice(&[0, 1, b't']),
            4 | 5 | 7 => body.extend_from_slice(&[0, 1, 0]),
            6 => {
                first |= 2;
                body.extend_from_slice(&[0, 1, 0]);
            }
            8 => {
                first |= 2;
                body.extend_from_slice(&[0, 1]);
                tail.extend_from_slice(&[0, 1, b'a', 0]);
            }
            9 | 11 => {
                body.extend_from_slice(&[0, 1]);
                tail.push(0);
            }
            10 => {
                first |= 2;
                body.extend_from_slice(&[0, 1]);
                tail.extend_from_slice(&[0, 1, b'a']);
            }
            14 | 15 => body.push(0),
            _ => unreachable!(),
        }
        body.extend_from_slice(&encode_varint(block.len() as u32));
        body.extend_from_slice(block);
        body.extend_from_slice(&tail);
        let mut out = vec![first];
        out.extend_from_slice(&encode_varint(body.len() as u32));
        out.extend_from_slice(&body);
        out
    }

    /// CONNECT (v5) whose *will* property block is `block`.
    fn frame_with_will_props(block: &[u8]) -> Vec<u8> {
        let mut body = vec![0, 4, b'M', b'Q', b'T', b'T', 5, 0x06, 0, 0, 0, 0, 0];
        body.extend_from_slice(&encode_varint(block.len() as u32));
        body.extend_from_slice(block);
        body.extend_from_slice(&[0, 1, b't', 0, 0]);
        let mut out = vec![0x10];
        out.extend_from_slice(&encode_varint(body.len() as u32));
        out.extend_from_slice(&body);
        out
    }

    /// A valid wire encoding of property `id` with a harmless value.
    fn sample_prop(id: u8) -> Vec<u8> {
        match prop_kind(id).unwrap() {
            PropKind::Byte => vec![id, 1],
            PropKind::U16 => vec![id, 0, 1],
            PropKind::U32 => vec![id, 0, 0, 0, 1],
            PropKind::VarInt => vec![id, 1],
            PropKind::Str => vec![id, 0, 1, b's'],
            PropKind::Bin => vec![id, 0, 1, 0xBB],
            PropKind::Pair => vec![id, 0, 1, b'k', 0, 1, b'v'],
        }
    }

    const PROP_TYPES: [u8; 13] = [1, 2, 3, 4, 5, 6, 7, 8, 9, 10, 11, 14, 15];

    #[test]
    fn property_allowed_exactly_where_the_table_says() {
        for t in PROP_TYPES {
            // the helper itself is valid with an empty block
            ok(Ver::V5, &frame_with_props(t, &[]));
            for id in 0..=255u8 {
                let block = match prop_kind(id) {
                    Some(_) => sample_prop(id),
                    None => vec![id, 0, 0, 0, 0, 0, 0, 0],
                };
                let r = decode(Ver::V5, &frame_with_props(t, &block));
                let want = allowed_props(t, false).contains(&id);
                assert_eq!(r.is_ok(), want, "type {t} property {id:#04x}: {r:?}");
                assert!(!matches!(r, Err(DecErr::NeedMore)));
            }
        }
        ok(Ver::V5, &frame_with_will_props(&[]));
        for id in 0..=255u8 {
            let block = match prop_kind(id) {
                Some(_) => sample_prop(id),
                None => vec![id, 0, 0, 0, 0, 0, 0, 0],
            };
            let r = decode(Ver::V5, &frame_with_will_props(&block));
            assert_eq!(r.is_ok(), allowed_props(1, true).contains(&id), "will property {id:#04x}: {r:?}");
        }
    }

    #[test]
    fn duplicate_properties() {
        for t in PROP_TYPES {
            for id in allowed_props(t, false) {
                let mut block = sample_prop(*id);
                block.extend_from_slice(&sample_prop(*id));
                let r = decode(Ver::V5, &frame_with_props(t, &block));
                let repeatable = *id == 0x26 || (*id == 0x0B && t == 3);
                assert_eq!(r.is_ok(), repeatable, "type {t} property {id:#04x} twice: {r:?}");
                // not adjacent: separated by a user property
                let mut block = sample_prop(*id);
                block.extend_from_slice(&sample_prop(0x26));
                block.extend_from_slice(&sample_prop(*id));
                let r = decode(Ver::V5, &frame_with_props(t, &block));
                assert_eq!(r.is_ok(), repeatable, "type {t} property {id:#04x} twice (separated): {r:?}");
            }
        }
        for id in allowed_props(1, true) {
            let mut block = sample_prop(*id);
            block.extend_from_slice(&sample_prop(*id));
            let r = decode(Ver::V5, &frame_with_will_props(&block));
            assert_eq!(r.is_ok(), *id == 0x26, "will property {id:#04x} twice");
        }
    }

    #[test]
    fn property_value_restrictions() {
        // booleans and maximum qos
        for (t, id) in [(3u8, 0x01u8), (1, 0x17), (1, 0x19), (2, 0x24), (2, 0x25), (2, 0x28), (2, 0x29), (2, 0x2A)] {
            ok(Ver::V5, &frame_with_props(t, &[id, 0]));
            ok(Ver::V5, &frame_with_props(t, &[id, 1]));
            assert!(bad(Ver::V5, &frame_with_props(t, &[id, 2])).contains("must be 0 or 1"));
            assert!(bad(Ver::V5, &frame_with_props(t, &[id, 0xFF])).contains("must be 0 or 1"));
        }
        ok(Ver::V5, &frame_with_will_props(&[0x01, 1]));
        assert!(bad(Ver::V5, &frame_with_will_props(&[0x01, 2])).contains("must be 0 or 1"));
        // non-zero
        assert!(bad(Ver::V5, &frame_with_props(1, &[0x21, 0, 0])).contains("must not be 0"));
        assert!(bad(Ver::V5, &frame_with_props(2, &[0x21, 0, 0])).contains("must not be 0"));
        ok(Ver::V5, &frame_with_props(2, &[0x21, 0xFF, 0xFF]));
        assert!(bad(Ver::V5, &frame_with_props(3, &[0x23, 0, 0])).contains("must not be 0"));
        ok(Ver::V5, &frame_with_props(3, &[0x23, 0, 1]));
        assert!(bad(Ver::V5, &frame_with_props(1, &[0x27, 0, 0, 0, 0])).contains("must not be 0"));
        assert!(bad(Ver::V5, &frame_with_props(2, &[0x27, 0, 0, 0, 0])).contains("must not be 0"));
        ok(Ver::V5, &frame_with_props(1, &[0x27, 0, 0, 0, 1]));
        // topic alias maximum 0 is fine
        ok(Ver::V5, &frame_with_props(1, &[0x22, 0, 0]));
        // subscription identifier
        assert!(bad(Ver::V5, &frame_with_props(8, &[0x0B, 0])).contains("must not be 0"));
        assert!(bad(Ver::V5, &frame_with_props(3, &[0x0B, 0])).contains("must not be 0"));
        assert!(bad(Ver::V5, &frame_with_props(3, &[0x0B, 0x80, 0x00])).contains("must not be 0")); // non-minimal 0
        ok(Ver::V5, &frame_with_props(8, &[0x0B, 0xFF, 0xFF, 0xFF, 0x7F]));
        ok(Ver::V5, &frame_with_props(8, &[0x0B, 0x81, 0x00])); // non-minimal 1
        assert!(bad(Ver::V5, &frame_with_props(8, &[0x0B, 0xFF, 0xFF, 0xFF, 0xFF, 0x01])).contains("longer than 4"));
    }

    #[test]
    fn property_lengths_are_checked_against_their_enclosing_block() {
        // property length larger than the rest of the packet
        assert!(bad(Ver::V5, &[0x20, 3, 0, 0, 5]).contains("runs past the end of the packet"));
        // property length as truncated varint
        assert!(bad(Ver::V5, &[0x20, 3, 0, 0, 0x80]).contains("runs past"));
        // value past the property block although the packet has enough bytes
        // PUBLISH "t", property length 2: [0x02 (u32 id), 0x00] then payload bytes
        let f = [0x30, 9, 0, 1, b't', 2, 0x02, 0, 0, 0, 1];
        assert!(bad(Ver::V5, &f).contains("runs past the end of the property block"));
        // string length inside a property exceeding the block
        let f = [0x30, 10, 0, 1, b't', 4, 0x03, 0, 2, b'a', b'b', b'c'];
        assert!(bad(Ver::V5, &f).contains("runs past the end of the property block"));
        // string *prefix* cut by the block end
        let f = [0x30, 7, 0, 1, b't', 2, 0x03, 0, 1];
        assert!(bad(Ver::V5, &f).contains("property block"));
        // user property whose value runs past the block
        let f = [0x30, 12, 0, 1, b't', 6, 0x26, 0, 1, b'k', 0, 5, b'v', b'v'];
        assert!(bad(Ver::V5, &f).contains("property block"));
        // varint value cut by the block end
        let f = [0x30, 7, 0, 1, b't', 2, 0x0B, 0x80, 0x01];
        assert!(bad(Ver::V5, &f).contains("property block"));
        // will property block
        let f = frame_with_will_props(&[0x18, 0, 0]);
        assert!(bad(Ver::V5, &f).contains("will property block"));
        // identifier with the continuation bit is not a defined single-byte identifier
        assert!(bad(Ver::V5, &frame_with_props(3, &[0x81, 0x00])).contains("unknown property"));
        // non-minimal property length is accepted
        assert_eq!(ok(Ver::V5, &[0x20, 4, 0, 0, 0x80, 0x00]), Packet::ConnAck { session_present: false, code: 0, props: vec![] });
    }

    // ------------------------------------------------------------ stream decoder

    #[test]
    fn stream_byte_at_a_time_and_counters() {
        let frames: Vec<Vec<u8>> = vec![
            vec![0x10, 12, 0, 4, b'M', b'Q', b'T', b'T', 4, 2, 0, 60, 0, 0],
            vec![0xC0, 0],
            vec![0x32, 9, 0, 3, b'a', b'/', b'b', 0, 10, b'h', b'i'],
            vec![0xE0, 0],
        ];
        let mut d = StreamDecoder::new(Ver::V3);
        assert_eq!(d.next(), Ok(None));
        let mut total = 0;
        for f in &frames {
            for (i, b) in f.iter().enumerate() {
                assert_eq!(d.next(), Ok(None));
                d.feed(&[*b]);
                assert_eq!(d.buffered(), i + 1);
                assert_eq!(d.consumed(), total);
            }
            let (p, raw) = d.next().unwrap().unwrap();
            assert_eq!(&raw, f);
            assert_eq!(p, decode(Ver::V3, f).unwrap().0);
            total += f.len();
            assert_eq!(d.buffered(), 0);
            assert_eq!(d.consumed(), total);
        }
        assert_eq!(d.next(), Ok(None));
    }

    #[test]
    fn stream_many_frames_in_one_feed_and_split_anywhere() {
        let p1 = Packet::Publish { dup: false, qos: 1, retain: false, topic: s("x"), pid: Some(7), props: vec![], payload: vec![9; 300] };
        let p2 = Packet::PubAck { pid: 7, code: Some(0x10), props: Some(vec![Prop::Str(0x1F, s("none"))]) };
        let p3 = Packet::PingResp;
        let mut all = Vec::new();
        for p in [&p1, &p2, &p3] {
            all.extend_from_slice(&encode(Ver::V5, p).unwrap());
        }
        for split in 0..=all.len() {
            let mut d = StreamDecoder::new(Ver::V5);
            let mut got = Vec::new();
            d.feed(&all[..split]);
            while let Some((p, _)) = d.next().unwrap() {
                got.push(p);
            }
            d.feed(&all[split..]);
            while let Some((p, _)) = d.next().unwrap() {
                got.push(p);
            }
            assert_eq!(got, vec![p1.clone(), p2.clone(), p3.clone()], "split {split}");
            assert_eq!(d.consumed(), all.len());
            assert_eq!(d.buffered(), 0);
        }
    }

    #[test]
    fn stream_dies_and_stays_dead() {
        let mut d = StreamDecoder::new(Ver::V3);
        d.feed(&[0xC0, 0, 0xC0, 1, 0, 0xC0, 0]);
        assert_eq!(d.next().unwrap().unwrap().0, Packet::PingReq);
        let e = d.next().unwrap_err();
        assert!(e.contains("left over"));
        assert_eq!(d.next(), Err(e.clone()));
        d.feed(&[0xC0, 0]);
        assert_eq!(d.next(), Err(e.clone()));
        assert_eq!(d.dead(), Some(e.as_str()));
        assert_eq!(d.consumed(), 2);
        assert_eq!(d.buffered(), 7);
    }

    #[test]
    fn stream_compaction_keeps_data_intact() {
        // large volume through the decoder in odd-sized chunks
        let p = Packet::Publish { dup: false, qos: 0, retain: false, topic: s("big"), pid: None, props: vec![], payload: (0..50_000u32).map(|i| i as u8).collect() };
        let frame = encode(Ver::V3, &p).unwrap();
        let mut stream = Vec::new();
        for _ in 0..8 {
            stream.extend_from_slice(&frame);
        }
        let mut d = StreamDecoder::new(Ver::V3);
        let mut n = 0;
        for chunk in stream.chunks(7919) {
            d.feed(chunk);
            while let Some((q, raw)) = d.next().unwrap() {
                assert_eq!(q, p);
                assert_eq!(raw, frame);
                n += 1;
            }
        }
        assert_eq!(n, 8);
        assert_eq!(d.consumed(), stream.len());
        assert_eq!(d.buffered(), 0);
    }
}
