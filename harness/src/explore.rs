//! Choice sources for the explorers (seeded random walk, replay, stateless DFS) and the
//! scenario executor (fresh runtime per scenario, panic / live-lock / watchdog classification).
use std::future::Future;
use std::time::Duration;

use crate::pool::{self, After, PanicInfo, Rng};
use crate::rt::{self, Abort, RunStats};

pub trait Choose {
    /// pick one of `n` alternatives (n >= 1)
    fn pick(&mut self, n: usize) -> usize;
    /// biased coin, true with probability num/den (enumerating choosers explore both)
    fn chance(&mut self, num: u64, den: u64) -> bool;
    fn trace(&self) -> Vec<u32>;
}

pub struct RandomChoice {
    pub rng: Rng,
    trace: Vec<u32>,
}

impl RandomChoice {
    pub fn new(rng: Rng) -> Self {
        RandomChoice { rng, trace: Vec::new() }
    }
}

impl Choose for RandomChoice {
    fn pick(&mut self, n: usize) -> usize {
        let c = if n <= 1 { 0 } else { self.rng.usize(n) };
        self.trace.push(c as u32);
        c
    }
    fn chance(&mut self, num: u64, den: u64) -> bool {
        let c = self.rng.chance(num, den);
        self.trace.push(c as u32);
        c
    }
    fn trace(&self) -> Vec<u32> {
        self.trace.clone()
    }
}

/// replays a recorded trace; past its end it answers 0
pub struct ReplayChoice {
    t: Vec<u32>,
    pos: usize,
}

impl ReplayChoice {
    pub fn new(t: Vec<u32>) -> Self {
        ReplayChoice { t, pos: 0 }
    }
}

impl Choose for ReplayChoice {
    fn pick(&mut self, n: usize) -> usize {
        let c = self.t.get(self.pos).copied().unwrap_or(0) as usize;
        self.pos += 1;
        c.min(n.saturating_sub(1))
    }
    fn chance(&mut self, _: u64, _: u64) -> bool {
        self.pick(2) == 1
    }
    fn trace(&self) -> Vec<u32> {
        self.t.clone()
    }
}

/// Stateless depth-first enumeration of a choice tree: the scenario is re-executed from the
/// start for every path.
#[derive(Default)]
pub struct Dfs {
    stack: Vec<(usize, usize)>,
    pos: usize,
    pub paths: u64,
}

impl Dfs {
    pub fn new() -> Self {
        Dfs::default()
    }
    /// move to the next unexplored path; false when the tree is exhausted
    pub fn advance(&mut self) -> bool {
        self.paths += 1;
        // drop choices made beyond what the last run used
        self.stack.truncate(self.pos);
        while let Some((c, n)) = self.stack.last().copied() {
            if c + 1 < n {
                self.stack.last_mut().unwrap().0 = c + 1;
                self.pos = 0;
                return true;
            }
            self.stack.pop();
        }
        self.pos = 0;
        false
    }
}

impl Choose for Dfs {
    fn pick(&mut self, n: usize) -> usize {
        let n = n.max(1);
        if self.pos < self.stack.len() {
            let (c, m) = self.stack[self.pos];
            // the tree must be deterministic: same prefix => same arity
            debug_assert_eq!(m, n, "non-deterministic choice tree");
            self.pos += 1;
            c.min(n - 1)
        } else {
            self.stack.push((0, n));
            self.pos += 1;
            0
        }
    }
    fn chance(&mut self, _: u64, _: u64) -> bool {
        self.pick(2) == 1
    }
    fn trace(&self) -> Vec<u32> {
        self.stack.iter().take(self.pos).map(|c| c.0 as u32).collect()
    }
}

pub enum Run<T> {
    Done(T, RunStats),
    Panic(PanicInfo, Vec<String>),
    /// logical step budget exhausted: the system never became quiescent (log tail attached)
    Livelock(Vec<String>),
    /// wall clock watchdog (inconclusive)
    Watchdog,
}

impl<T> Run<T> {
    pub fn after(&self) -> After {
        match self {
            Run::Done(..) => After::Continue,
            _ => After::RetireThread,
        }
    }
}

pub const STEP_BUDGET: u64 = 3_000_000;

/// Execute one scenario on a fresh runtime.
pub fn exec<T, F: Future<Output = T>>(fut: F) -> Run<T> {
    let steps = std::env::var("VERIF_STEP_BUDGET").ok().and_then(|s| s.parse().ok()).unwrap_or(STEP_BUDGET);
    exec_with(fut, steps, Duration::from_secs(30))
}

pub fn exec_with<T, F: Future<Output = T>>(fut: F, steps: u64, watchdog: Duration) -> Run<T> {
    crate::sink::reset_op_ids();
    crate::universal::reset_thread();
    match pool::catch(|| rt::run(fut, steps, watchdog)) {
        Ok((v, st)) => Run::Done(v, st),
        Err(p) => match rt::take_abort() {
            Abort::StepBudget => Run::Livelock(crate::app::App::last_log_tail(40)),
            Abort::Watchdog => Run::Watchdog,
            Abort::None => Run::Panic(p, crate::app::App::last_log_tail(40)),
        },
    }
}
