//! One endpoint under test (v3/v5 server or client) over the in-memory transport, with a
//! scripted raw-bytes peer and the instrumented application.
use std::cell::RefCell;
use std::collections::VecDeque;
use std::rc::Rc;

use ntex_bytes::ByteString;
use ntex_io::testing::IoTest;
use ntex_io::{Io, IoBoxed, IoConfig};
use ntex_mqtt::{Control, MqttServiceConfig, Reason, v3, v5};
use ntex_service::cfg::SharedCfg;
use ntex_service::{Pipeline, Service, ServiceCtx, ServiceFactory, fn_factory_with_config, fn_service};
use ntex_util::time::Seconds;

use crate::app::{
    App, ControlAnswer, DropGuard, Ev, GateKind, InnerOp, Outcome, ProtoAnswer, ReadMode, SVC_CTL, SVC_PROTO, SVC_PUB, SinkRes, StopClass, TestErr,
};
use crate::refcodec::{self, Packet as R, Prop, StreamDecoder, Ver};
use crate::rt;
use crate::sink::Sink;

#[derive(Debug, Clone, Copy, PartialEq, Eq, Hash)]
pub enum Role {
    V3Server,
    V5Server,
    V3Client,
    V5Client,
}

impl Role {
    pub const ALL: [Role; 4] = [Role::V3Server, Role::V5Server, Role::V3Client, Role::V5Client];
    pub fn ver(self) -> Ver {
        match self {
            Role::V3Server | Role::V3Client => Ver::V3,
            _ => Ver::V5,
        }
    }
    pub fn is_server(self) -> bool {
        matches!(self, Role::V3Server | Role::V5Server)
    }
    pub fn is_v5(self) -> bool {
        self.ver() == Ver::V5
    }
    pub fn name(self) -> &'static str {
        match self {
            Role::V3Server => "v3/server",
            Role::V5Server => "v5/server",
            Role::V3Client => "v3/client",
            Role::V5Client => "v5/client",
        }
    }
}

#[derive(Debug, Clone)]
pub struct HsPlan {
    /// accept the CONNECT
    pub accept: bool,
    /// refusal: v3 return code / v5 reason code
    pub refuse_code: u8,
    /// handshake service returns Err
    pub error: bool,
    /// handshake waits for gate (Handshake, 0)
    pub gated: bool,
    pub max_send: Option<u16>,
    pub max_packet_size: Option<u32>,
    /// v3: idle_timeout seconds; v5: keep_alive seconds (server override)
    pub keepalive: Option<u16>,
    /// v5 CONNACK modifications
    pub receive_max: Option<u16>,
    pub max_qos: Option<u8>,
    pub topic_alias_max: Option<u16>,
    pub retain_available: Option<bool>,
    pub sub_ids_available: Option<bool>,
    /// v5 CONNACK Session Expiry Interval (the server's own value; the client's CONNECT value
    /// stays the one a later DISCONNECT is judged against)
    pub session_expiry: Option<u32>,
}

impl Default for HsPlan {
    fn default() -> Self {
        HsPlan {
            accept: true,
            refuse_code: 0x05,
            error: false,
            gated: false,
            max_send: None,
            max_packet_size: None,
            keepalive: None,
            receive_max: None,
            max_qos: None,
            topic_alias_max: None,
            retain_available: None,
            sub_ids_available: None,
            session_expiry: None,
        }
    }
}

#[derive(Debug, Clone)]
pub struct ConnCfg {
    pub role: Role,
    pub max_qos: u8,
    pub max_size: u32,
    pub max_receive: u16,
    pub max_receive_size: usize,
    pub max_topic_alias: u16,
    pub max_send: u16,
    pub min_chunk_size: u32,
    pub max_payload_buffer: usize,
    pub handle_qos_after_disconnect: Option<u8>,
    pub connect_timeout: u16,
    /// (high, low) watermark of the endpoint's write buffer; None = default
    pub write_buf: Option<(usize, usize)>,
    pub disconnect_timeout: u16,
    pub frame_read_rate: Option<(u16, u16, u32)>,
    pub hs: HsPlan,
    /// server roles: CONNECT the peer sends. client roles: parameters the library's CONNECT carries
    pub keep_alive: u16,
    pub peer_receive_max: Option<u16>,
    pub peer_max_packet_size: Option<u32>,
    pub session_expiry: u32,
    pub request_problem_info: bool,
    pub peer_topic_alias_max: u16,
    /// client roles: CONNACK the peer answers with (v5 properties)
    pub connack_props: Vec<Prop>,
    pub connack_code: u8,
    /// client roles: topics routed to the publish handler (`resource`); empty = everything goes to the protocol service
    pub client_resources: Vec<String>,
    /// server roles: wrap the publish handler in the topic Router with these resources (others -> default handler)
    pub router: Vec<String>,
    /// server roles: keep the default in-flight middleware (v3: count+size, v5: size)
    pub inflight_middleware: bool,
    /// server roles: go through the version-sniffing `ntex_mqtt::MqttServer`
    pub combined: bool,
    /// combined server: protocol_version_timeout(0) - no deadline for the protocol-version detection
    pub version_timeout_off: bool,
    /// keep-alive configured at the I/O layer (`IoConfig`), the default a dispatcher starts from
    pub io_keepalive: Option<u16>,
    /// bytes the endpoint may write before the peer "stops reading" (None = unlimited)
    pub initial_write_budget: Option<usize>,
    /// v5 client role: Topic Alias Maximum the library's CONNECT advertises (None = property absent)
    pub client_topic_alias_max: Option<u16>,
    /// v5 client role: the application does not set a Receive Maximum in CONNECT (the protocol
    /// default of 65535 applies, whatever the service configuration says)
    pub client_receive_max_unset: bool,
}

impl ConnCfg {
    pub fn new(role: Role) -> Self {
        ConnCfg {
            role,
            max_qos: 2,
            max_size: 0,
            max_receive: 16,
            max_receive_size: 65535,
            max_topic_alias: 32,
            max_send: 16,
            min_chunk_size: 32 * 1024,
            max_payload_buffer: 32 * 1024,
            handle_qos_after_disconnect: None,
            connect_timeout: 0,
            write_buf: None,
            disconnect_timeout: 1,
            frame_read_rate: None,
            hs: HsPlan::default(),
            keep_alive: 0,
            peer_receive_max: None,
            peer_max_packet_size: None,
            session_expiry: 0,
            request_problem_info: true,
            peer_topic_alias_max: 0,
            connack_props: vec![],
            connack_code: 0,
            client_resources: vec![],
            router: vec![],
            inflight_middleware: true,
            combined: false,
            version_timeout_off: false,
            io_keepalive: None,
            initial_write_budget: None,
            client_topic_alias_max: None,
            client_receive_max_unset: false,
        }
    }

    fn qos(q: u8) -> ntex_mqtt::QoS {
        ntex_mqtt::QoS::try_from(q).unwrap()
    }

    fn build_shared_cfg(&self, tag: &'static str) -> SharedCfg {
        let mut m = MqttServiceConfig::new()
            .set_max_qos(Self::qos(self.max_qos))
            .set_max_size(self.max_size)
            .set_max_receive(self.max_receive)
            .set_max_receive_size(self.max_receive_size)
            .set_max_topic_alias(self.max_topic_alias)
            .set_max_send(self.max_send)
            .set_min_chunk_size(self.min_chunk_size)
            .set_max_payload_buffer_size(self.max_payload_buffer)
            .set_handle_qos_after_disconnect(self.handle_qos_after_disconnect.map(Self::qos));
        if self.connect_timeout != 0 {
            m = m.set_connect_timeout(Seconds(self.connect_timeout));
            // combined server: the protocol-version detection has its own deadline
            m = m.protocol_version_timeout(Seconds(self.connect_timeout));
        }
        if self.version_timeout_off {
            m = m.protocol_version_timeout(Seconds::ZERO);
        }
        let mut io = IoConfig::new().set_disconnect_timeout(Seconds(self.disconnect_timeout));
        if let Some((h, l)) = self.write_buf {
            io = io.set_write_buf(h, l, 16);
        }
        if let Some(k) = self.io_keepalive {
            io = io.set_keepalive_timeout(Seconds(k));
        }
        if let Some((t, mt, r)) = self.frame_read_rate {
            io = io.set_frame_read_rate(Seconds(t), Seconds(mt), r);
        }
        SharedCfg::new(tag).add(m).add(io).into()
    }

    /// Configuration object for the library. Every `IoConfig` instance owns a slot in the
    /// per-thread buffer cache of the I/O layer, so building a fresh one per scenario makes that
    /// cache grow without bound: equal parameter sets share one instance per thread.
    pub fn shared_cfg(&self, tag: &'static str) -> SharedCfg {
        thread_local! {
            static CFGS: RefCell<std::collections::HashMap<String, SharedCfg>> = RefCell::new(std::collections::HashMap::new());
        }
        let key = format!(
            "{tag}|{}|{}|{}|{}|{}|{}|{}|{}|{:?}|{}|{:?}|{}|{:?}|{}|{:?}",
            self.max_qos, self.max_size, self.max_receive, self.max_receive_size, self.max_topic_alias, self.max_send, self.min_chunk_size,
            self.max_payload_buffer, self.handle_qos_after_disconnect, self.connect_timeout, self.write_buf, self.disconnect_timeout, self.frame_read_rate, self.version_timeout_off, self.io_keepalive
        );
        CFGS.with(|c| c.borrow_mut().entry(key).or_insert_with(|| self.build_shared_cfg(tag)).clone())
    }

    /// the CONNECT a scripted peer sends to a server role
    pub fn peer_connect(&self) -> R {
        let mut props = Vec::new();
        if self.role.is_v5() {
            if self.session_expiry != 0 {
                props.push(Prop::U32(0x11, self.session_expiry));
            }
            if let Some(r) = self.peer_receive_max {
                props.push(Prop::U16(0x21, r));
            }
            if let Some(r) = self.peer_max_packet_size {
                props.push(Prop::U32(0x27, r));
            }
            if self.peer_topic_alias_max != 0 {
                props.push(Prop::U16(0x22, self.peer_topic_alias_max));
            }
            if !self.request_problem_info {
                props.push(Prop::Byte(0x17, 0));
            }
        }
        R::Connect {
            level: if self.role.is_v5() { 5 } else { 4 },
            clean: true,
            keep_alive: self.keep_alive,
            props,
            client_id: "peer".into(),
            will: None,
            username: None,
            password: None,
        }
    }

    /// the CONNACK a scripted peer answers a client role with
    pub fn peer_connack(&self) -> R {
        R::ConnAck { session_present: false, code: self.connack_code, props: if self.role.is_v5() { self.connack_props.clone() } else { vec![] } }
    }
}

const BIG: usize = usize::MAX / 4;

pub struct Peer {
    io: Option<IoTest>,
    pub ver: Ver,
    dec: StreamDecoder,
    /// every byte the endpoint wrote
    pub raw: Vec<u8>,
    pub app: Rc<App>,
    pub garbage: Option<String>,
    pub packets_read: usize,
}

impl Peer {
    fn new(io: IoTest, ver: Ver, app: Rc<App>, budget: Option<usize>) -> Self {
        io.remote_buffer_cap(budget.unwrap_or(BIG));
        Peer { io: Some(io), ver, dec: StreamDecoder::new(ver), raw: Vec::new(), app, garbage: None, packets_read: 0 }
    }

    pub fn send(&self, p: &R) -> Vec<u8> {
        let b = refcodec::encode(self.ver, p).expect("peer packet encodes");
        self.app.log_peer(p);
        if let Some(io) = &self.io {
            io.write(&b);
        }
        b
    }

    pub fn send_bytes(&self, b: &[u8], label: &str) {
        self.app.log(Ev::PeerSent(format!("raw {label} {}B", b.len())));
        self.app.raw_writes.set(true);
        if let Some(io) = &self.io {
            io.write(b);
        }
    }

    /// write (a fragment of) a packet that was logged with `App::log_peer`
    pub fn write_part(&self, b: &[u8]) {
        if let Some(io) = &self.io {
            io.write(b);
        }
    }

    /// write without logging (fragments of something already logged)
    pub fn write_quiet(&self, b: &[u8]) {
        self.app.raw_writes.set(true);
        if let Some(io) = &self.io {
            io.write(b);
        }
    }

    /// read everything the endpoint has written so far; log complete packets. Returns bytes read.
    pub fn drain(&mut self) -> usize {
        let Some(io) = &self.io else { return 0 };
        let b = io.read_any();
        if b.is_empty() {
            return 0;
        }
        self.raw.extend_from_slice(&b);
        if self.garbage.is_none() {
            self.dec.feed(&b);
            loop {
                match self.dec.next() {
                    Ok(Some((p, _raw))) => {
                        self.packets_read += 1;
                        self.app.log(Ev::Wire(p));
                    }
                    Ok(None) => break,
                    Err(e) => {
                        self.app.log(Ev::WireGarbage(e.clone()));
                        self.garbage = Some(e);
                        break;
                    }
                }
            }
        }
        b.len()
    }

    /// parse the endpoint's output as this protocol version from now on (combined server)
    pub fn reset_decoder(&mut self, ver: Ver) {
        self.ver = ver;
        self.dec = StreamDecoder::new(ver);
    }

    /// bytes of an incomplete packet at the end of the endpoint's output
    pub fn partial_tail(&self) -> usize {
        self.dec.buffered()
    }

    /// allow the endpoint to write `n` more bytes (0 = the peer stops reading => back-pressure)
    pub fn set_budget(&self, n: usize) {
        if let Some(io) = &self.io {
            io.remote_buffer_cap(n);
        }
    }
    pub fn unlimited(&self) {
        self.set_budget(BIG);
    }

    /// bytes the peer wrote that the endpoint has not consumed from the transport yet
    pub fn unread_by_endpoint(&self) -> usize {
        self.io.as_ref().map_or(0, |io| io.remote_buffer(|b| b.len()))
    }

    /// the endpoint closed its write side
    pub fn endpoint_closed(&self) -> bool {
        self.io.as_ref().is_some_and(IoTest::is_closed)
    }

    pub fn is_open(&self) -> bool {
        self.io.is_some()
    }

    /// peer closes the connection (drop of the transport half)
    pub fn close(&mut self) {
        if let Some(io) = self.io.take() {
            // keep what is still readable
            let b = io.read_any();
            if !b.is_empty() {
                self.raw.extend_from_slice(&b);
                if self.garbage.is_none() {
                    self.dec.feed(&b);
                    while let Ok(Some((p, _))) = self.dec.next() {
                        self.packets_read += 1;
                        self.app.log(Ev::Wire(p));
                    }
                }
            }
            self.app.log(Ev::PeerSent("CLOSE".into()));
            drop(io);
        }
    }

    pub fn read_error(&self) {
        if let Some(io) = &self.io {
            self.app.log(Ev::PeerSent("READ-ERROR".into()));
            io.read_error(std::io::Error::other("injected read error"));
        }
    }

    pub fn write_error(&self) {
        if let Some(io) = &self.io {
            self.app.log(Ev::PeerSent("WRITE-ERROR".into()));
            io.write_error(std::io::Error::other("injected write error"));
        }
    }
}

pub struct Conn {
    pub role: Role,
    pub app: Rc<App>,
    pub peer: Peer,
    pub cfg: ConnCfg,
}

impl Conn {
    /// run until nothing can move, then read what the endpoint wrote
    pub async fn settle(&mut self) {
        loop {
            rt::quiesce().await;
            if self.peer.drain() == 0 {
                break;
            }
        }
    }

    pub fn sink(&self) -> Sink {
        self.app.sink.borrow().clone().expect("sink available after the handshake")
    }

    pub fn has_sink(&self) -> bool {
        self.app.sink.borrow().is_some()
    }

    /// end of scenario: open every gate, let the peer go away, run to quiescence
    pub async fn finish(&mut self) {
        self.settle().await;
        self.app.open_all(Outcome::Ok);
        self.peer.unlimited();
        self.settle().await;
        self.peer.close();
        self.settle().await;
        // handlers gated after the close
        if self.app.open_all(Outcome::Ok) > 0 {
            self.settle().await;
        }
        // scenario-independent monitors over the complete boundary log of this connection
        if !self.app.judged.replace(true) {
            crate::universal::judge(self);
        }
    }

    pub fn done(&self) -> bool {
        self.app.done.get()
    }
}

// ===================================================================================== handlers

/// A user-supplied service whose readiness (`Service::ready`) is scripted by the controller
/// (`App::set_ready`): ready, failing, or not ready for a while.
pub struct Svc<F> {
    app: Rc<App>,
    which: usize,
    f: F,
}

impl<F> Svc<F> {
    pub fn new(app: &Rc<App>, which: usize, f: F) -> Self {
        Svc { app: app.clone(), which, f }
    }
}

impl<Req, Res, F, Fut> Service<Req> for Svc<F>
where
    F: Fn(Req) -> Fut,
    Fut: Future<Output = Result<Res, TestErr>>,
{
    type Response = Res;
    type Error = TestErr;

    async fn ready(&self, _: ServiceCtx<'_, Self>) -> Result<(), TestErr> {
        if self.app.service_ready(self.which).await { Ok(()) } else { Err(TestErr::Plain) }
    }

    async fn call(&self, req: Req, _: ServiceCtx<'_, Self>) -> Result<Res, TestErr> {
        (self.f)(req).await
    }
}

/// logs `SinkRet(Dropped)` if the handler is cancelled while it awaits its inner operation
struct InnerGuard {
    app: Rc<App>,
    op: u32,
    armed: bool,
}

impl Drop for InnerGuard {
    fn drop(&mut self) {
        if self.armed {
            self.app.log(Ev::SinkRet { op: self.op, n: 0, res: SinkRes::Dropped });
        }
    }
}

/// a handler uses the sink and awaits the result before it answers
async fn inner_op(app: &Rc<App>, op: InnerOp) {
    let sink = app.sink.borrow().clone();
    let Some(sink) = sink else { return };
    let id = crate::sink::next_op_id();
    let (what, fut) = match op {
        InnerOp::SendQ1 => ("inner-q1", sink.send_qos1(&crate::sink::PubSpec::new("inner/t", vec![7; 5]))),
        InnerOp::Ready => ("inner-ready", sink.ready()),
    };
    app.log(Ev::SinkCall { op: id, n: 0, what: what.into() });
    let mut g = InnerGuard { app: app.clone(), op: id, armed: true };
    let r = fut.await;
    g.armed = false;
    app.log(Ev::SinkRet { op: id, n: 0, res: r });
}

fn classify_stop<E: std::fmt::Debug>(msg: &Control<E>) -> (String, Option<StopClass>, String) {
    match msg {
        Control::WrBackpressure(s) => (format!("wr({})", s.enabled()), None, String::new()),
        Control::Stop(Reason::Error(e)) => ("stop".into(), Some(StopClass::Error), format!("{:?}", e.get_ref())),
        Control::Stop(Reason::Protocol(e)) => ("stop".into(), Some(StopClass::Protocol), format!("{:?}", e.get_ref())),
        Control::Stop(Reason::PeerGone(e)) => ("stop".into(), Some(StopClass::PeerGone), format!("{:?}", e.err().map(|e| e.to_string()))),
    }
}

async fn control_common<E: std::fmt::Debug>(app: Rc<App>, msg: Control<E>) -> ControlAnswer {
    let call = app.next_call();
    let (what, stop, detail) = classify_stop(&msg);
    let is_stop = stop.is_some();
    let slow = app.wr_on_gated.get() && what == "wr(true)";
    app.log(Ev::CtlEnter { call, what, stop, detail });
    let guard = DropGuard::new(&app, GateKind::Ctl, call, 0);
    let plan = app.take_ctl_plan(is_stop);
    if plan.gated || slow {
        let g = app.gate(GateKind::Ctl, call);
        g.wait().await;
    }
    app.log(Ev::CtlExit { call });
    guard.disarm();
    drop(msg);
    plan.answer
}

/// shared part of every publish handler: returns the scripted outcome
#[allow(clippy::too_many_arguments)]
async fn publish_common<FRead, FutRead, FAll, FutAll>(
    app: &Rc<App>,
    topic: String,
    route: String,
    qos: u8,
    dup: bool,
    retain: bool,
    pid: Option<u16>,
    props: Vec<Prop>,
    size: u32,
    read: FRead,
    read_all: FAll,
    detached: Option<ntex_mqtt::Payload>,
) -> Outcome
where
    FRead: Fn() -> FutRead,
    FutRead: Future<Output = Result<Option<ntex_bytes::Bytes>, String>>,
    FAll: Fn() -> FutAll,
    FutAll: Future<Output = Result<ntex_bytes::Bytes, String>>,
{
    let call = app.next_call();
    app.log(Ev::PubEnter { call, topic, route, qos, dup, retain, pid, props, size });
    let guard = DropGuard::new(app, GateKind::Pub, call, size as u64);
    let mut plan = app.take_pub_plan();
    if qos == 0 && app.refusals_need_an_ack.get() && matches!(plan.outcome, Outcome::Nack(_)) {
        // plans are taken in invocation order; a refusal planned for a QoS 1/2 publish that never
        // reached its handler must not turn into the failure of a QoS 0 handler
        plan.outcome = Outcome::Ok;
    }
    let mut got: Vec<u8> = Vec::new();
    if plan.read == ReadMode::LateAll {
        let g = app.gate(GateKind::PubRead, call * 1000);
        g.wait().await;
    }
    match plan.read {
        ReadMode::Eager | ReadMode::LateAll => match read_all().await {
            Ok(b) => {
                app.log(Ev::PubRead { call, res: Ok(b.len()) });
                got.extend_from_slice(&b);
                app.log(Ev::PubPayload { call, bytes: got.clone() });
            }
            Err(e) => {
                app.log(Ev::PubRead { call, res: Err(e) });
            }
        },
        ReadMode::Chunks | ReadMode::Lazy => {
            let mut k = 0u32;
            loop {
                if plan.read == ReadMode::Lazy {
                    let g = app.gate(GateKind::PubRead, call * 1000 + k);
                    g.wait().await;
                    k += 1;
                }
                match read().await {
                    Ok(Some(b)) => {
                        app.log(Ev::PubRead { call, res: Ok(b.len()) });
                        got.extend_from_slice(&b);
                    }
                    Ok(None) => {
                        app.log(Ev::PubPayload { call, bytes: got.clone() });
                        break;
                    }
                    Err(e) => {
                        app.log(Ev::PubRead { call, res: Err(e) });
                        break;
                    }
                }
            }
        }
        ReadMode::Abandon => {}
        ReadMode::Detached | ReadMode::DetachedLate => {
            if let Some(pl) = detached {
                let app2 = app.clone();
                let late = plan.read == ReadMode::DetachedLate;
                let _ = ntex_util::spawn(async move {
                    if late {
                        let g = app2.gate(GateKind::PubRead, call * 1000 + 999);
                        g.wait().await;
                    }
                    let mut got: Vec<u8> = Vec::new();
                    loop {
                        match pl.read().await {
                            Ok(Some(b)) => {
                                app2.log(Ev::PubRead { call, res: Ok(b.len()) });
                                got.extend_from_slice(&b);
                            }
                            Ok(None) => {
                                app2.log(Ev::PubPayload { call, bytes: got.clone() });
                                break;
                            }
                            Err(e) => {
                                app2.log(Ev::PubRead { call, res: Err(perr(e)) });
                                break;
                            }
                        }
                    }
                });
            }
        }
    }
    let inner = app.pub_inner.borrow_mut().pop_front().flatten();
    if let Some(op) = inner {
        inner_op(app, op).await;
    }
    let outcome = if plan.gated {
        let g = app.gate(GateKind::Pub, call);
        g.wait().await
    } else {
        plan.outcome.clone()
    };
    app.log(Ev::PubExit { call, outcome: outcome.clone() });
    guard.disarm();
    outcome
}

async fn proto_common(app: &Rc<App>, kind: &'static str, pid: Option<u16>) -> ProtoAnswer {
    let call = app.next_call();
    app.log(Ev::ProtoEnter { call, kind, pid });
    let guard = DropGuard::new(app, GateKind::Proto, call, 0);
    let plan = app.take_proto_plan();
    let inner = app.proto_inner.borrow_mut().pop_front().flatten();
    if let Some(op) = inner {
        inner_op(app, op).await;
    }
    if plan.gated {
        let g = app.gate(GateKind::Proto, call);
        g.wait().await;
    }
    let answer = match plan.answer.clone() {
        ProtoAnswer::CloseSinkThenAck(code) => {
            let sink = app.sink.borrow().clone();
            if let Some(s) = sink {
                match code {
                    Some(c) if s.is_v5() => s.close_with_reason(c),
                    _ => s.close(),
                }
            }
            ProtoAnswer::Ack
        }
        a => a,
    };
    app.log(Ev::ProtoExit { call, answer: plan.answer.clone() });
    guard.disarm();
    answer
}

fn perr(e: ntex_mqtt::error::PayloadError) -> String {
    format!("{e:?}")
}

// ------------------------------------------------------------------------------- v3 handlers

async fn v3_publish(app: Rc<App>, mut p: v3::Publish, route: String) -> Result<(), TestErr> {
    let detached = matches!(app.peek_pub_read(), ReadMode::Detached | ReadMode::DetachedLate).then(|| p.take_payload());
    let pk = p.packet().clone();
    let size = p.packet_size();
    let o = publish_common(
        &app,
        p.publish_topic().to_string(),
        route,
        u8::from(pk.qos),
        pk.dup,
        pk.retain,
        pk.packet_id.map(|x| x.get()),
        vec![],
        size,
        || async { p.read().await.map_err(perr) },
        || async { p.read_all().await.map_err(perr) },
        detached,
    )
    .await;
    match o {
        Outcome::Ok | Outcome::AckCode(_) => Ok(()),
        Outcome::Err => Err(TestErr::Plain),
        Outcome::Nack(c) => Err(TestErr::Nack(c)),
    }
}

async fn v3_protocol(app: Rc<App>, msg: v3::ProtocolMessage) -> Result<v3::ProtocolMessageAck, TestErr> {
    let (kind, pid): (&'static str, Option<u16>) = match &msg {
        v3::ProtocolMessage::Ping(_) => ("ping", None),
        v3::ProtocolMessage::Disconnect(_) => ("disconnect", None),
        v3::ProtocolMessage::Subscribe(s) => ("subscribe", Some(packet_id_of_v3_sub(s))),
        v3::ProtocolMessage::Unsubscribe(_) => ("unsubscribe", None),
        v3::ProtocolMessage::PublishRelease(r) => ("pubrel", Some(r.packet_id.get())),
    };
    match proto_common(&app, kind, pid).await {
        ProtoAnswer::Ack => Ok(match msg {
            v3::ProtocolMessage::Subscribe(mut s) => {
                for mut sub in &mut s {
                    let q = sub.qos();
                    sub.confirm(q);
                }
                s.ack()
            }
            // ProtocolMessage::ack() answers "not supported" (disconnect) for these two
            v3::ProtocolMessage::Unsubscribe(u) => u.ack(),
            other => other.ack(),
        }),
        ProtoAnswer::Disconnect | ProtoAnswer::DisconnectWith(_) => Ok(msg.disconnect()),
        ProtoAnswer::Err => Err(TestErr::Plain),
        ProtoAnswer::CloseSinkThenAck(_) => unreachable!("resolved in proto_common"),
    }
}

fn packet_id_of_v3_sub(_s: &v3::control::Subscribe) -> u16 {
    0
}

// ------------------------------------------------------------------------------- v5 handlers

async fn v5_publish(app: Rc<App>, mut p: v5::Publish, route: String) -> Result<v5::PublishAck, TestErr> {
    let detached = matches!(app.peek_pub_read(), ReadMode::Detached | ReadMode::DetachedLate).then(|| p.take_payload());
    // resources with a dynamic segment: record what the router's match says about this message
    let route = if route.contains('{') { format!("{route}[id={}]", p.topic().get("id").unwrap_or("-")) } else { route };
    let pk = p.packet().clone();
    let size = p.packet_size();
    let props = crate::map::v5_publish_props(&pk.properties);
    let o = publish_common(
        &app,
        p.publish_topic().to_string(),
        route,
        u8::from(pk.qos),
        pk.dup,
        pk.retain,
        pk.packet_id.map(|x| x.get()),
        props,
        size,
        || async { p.read().await.map_err(perr) },
        || async { p.read_all().await.map_err(perr) },
        detached,
    )
    .await;
    let decor = app.ack_decor.borrow().clone();
    let decorate = move |mut a: v5::PublishAck| {
        if let Some((reason, ups)) = decor {
            a = a.properties(|p| {
                for (k, v) in &ups {
                    p.push((ByteString::from(k.as_str()), ByteString::from(v.as_str())));
                }
            });
            if let Some(r) = reason {
                a = a.reason(ByteString::from(r));
            }
        }
        a
    };
    match o {
        Outcome::Ok => Ok(decorate(p.ack())),
        Outcome::AckCode(c) => Ok(decorate(p.ack().reason_code(v5::codec::PublishAckReason::try_from(c).unwrap_or(v5::codec::PublishAckReason::UnspecifiedError)))),
        Outcome::Err => Err(TestErr::Plain),
        Outcome::Nack(c) => Err(TestErr::Nack(c)),
    }
}

async fn v5_protocol(app: Rc<App>, msg: v5::ProtocolMessage) -> Result<v5::ProtocolMessageAck, TestErr> {
    let (kind, pid): (&'static str, Option<u16>) = match &msg {
        v5::ProtocolMessage::Auth(_) => ("auth", None),
        v5::ProtocolMessage::Ping(_) => ("ping", None),
        v5::ProtocolMessage::Disconnect(_) => ("disconnect", None),
        v5::ProtocolMessage::Subscribe(s) => ("subscribe", Some(s.packet().packet_id.get())),
        v5::ProtocolMessage::Unsubscribe(s) => ("unsubscribe", Some(s.packet().packet_id.get())),
        v5::ProtocolMessage::PublishRelease(r) => ("pubrel", Some(r.packet().packet_id.get())),
    };
    match proto_common(&app, kind, pid).await {
        ProtoAnswer::Ack => Ok(match msg {
            v5::ProtocolMessage::Subscribe(mut s) => {
                for mut sub in &mut s {
                    let q = sub.options().qos;
                    sub.confirm(q);
                }
                if let Some((reason, ups)) = app.ack_decor.borrow().clone() {
                    s = s.ack_properties(|p| {
                        for (k, v) in &ups {
                            p.push((ByteString::from(k.as_str()), ByteString::from(v.as_str())));
                        }
                    });
                    if let Some(r) = reason {
                        s = s.ack_reason(ByteString::from(r));
                    }
                }
                s.ack()
            }
            v5::ProtocolMessage::Unsubscribe(mut s) => {
                for mut it in &mut s {
                    it.success();
                }
                if let Some((reason, ups)) = app.ack_decor.borrow().clone() {
                    s = s.ack_properties(|p| {
                        for (k, v) in &ups {
                            p.push((ByteString::from(k.as_str()), ByteString::from(v.as_str())));
                        }
                    });
                    if let Some(r) = reason {
                        s = s.ack_reason(ByteString::from(r));
                    }
                }
                s.ack()
            }
            v5::ProtocolMessage::PublishRelease(mut r) => {
                if let Some((reason, ups)) = app.ack_decor.borrow().clone() {
                    r = r.properties(|p| {
                        for (k, v) in &ups {
                            p.push((ByteString::from(k.as_str()), ByteString::from(v.as_str())));
                        }
                    });
                    if let Some(rs) = reason {
                        r = r.reason(ByteString::from(rs));
                    }
                }
                r.ack()
            }
            v5::ProtocolMessage::Auth(a) => a.ack(v5::codec::Auth::default()),
            other => other.ack(),
        }),
        ProtoAnswer::Disconnect => Ok(msg.disconnect()),
        ProtoAnswer::DisconnectWith(code) => Ok(msg.disconnect_with(v5::codec::Disconnect::new(
            v5::codec::DisconnectReasonCode::try_from(code).unwrap_or(v5::codec::DisconnectReasonCode::UnspecifiedError),
        ))),
        ProtoAnswer::Err => Err(TestErr::Plain),
        ProtoAnswer::CloseSinkThenAck(_) => unreachable!("resolved in proto_common"),
    }
}

fn v5_control_answer(a: ControlAnswer) -> Result<Option<v5::codec::Encoded>, TestErr> {
    match a {
        ControlAnswer::None => Ok(None),
        ControlAnswer::OwnDisconnect(code) => Ok(Some(v5::codec::Encoded::Packet(v5::codec::Packet::Disconnect(v5::codec::Disconnect::new(
            v5::codec::DisconnectReasonCode::try_from(code).unwrap_or(v5::codec::DisconnectReasonCode::UnspecifiedError),
        ))))),
        ControlAnswer::Err => Err(TestErr::Plain),
    }
}

fn v3_control_answer(a: ControlAnswer) -> Result<Option<v3::codec::Encoded>, TestErr> {
    match a {
        ControlAnswer::None | ControlAnswer::OwnDisconnect(_) => Ok(None),
        ControlAnswer::Err => Err(TestErr::Plain),
    }
}

// ===================================================================================== servers

/// apps waiting to be bound to the next connections of a shared server
pub type AppQueue = Rc<RefCell<VecDeque<(Rc<App>, HsPlan)>>>;

type ConnectFn = Rc<dyn Fn(IoTest, Rc<App>)>;

/// A server instance that can accept several connections (shared factory, shared sink pool).
pub struct Server {
    pub cfg: ConnCfg,
    queue: AppQueue,
    connect: ConnectFn,
}

impl Server {
    pub async fn new(cfg: &ConnCfg) -> Server {
        let queue: AppQueue = Rc::new(RefCell::new(VecDeque::new()));
        let scfg = cfg.shared_cfg("SRV");
        let connect: ConnectFn = match (cfg.role, cfg.combined) {
            (Role::V3Server, false) => build_v3_server(cfg, queue.clone(), scfg).await,
            (Role::V5Server, false) => build_v5_server(cfg, queue.clone(), scfg).await,
            (Role::V3Server | Role::V5Server, true) => build_combined_server(cfg, queue.clone(), scfg).await,
            _ => panic!("Server::new needs a server role"),
        };
        Server { cfg: cfg.clone(), queue, connect }
    }

    /// open a new connection; the handshake binds it to `app`
    pub fn connect(&self, app: Rc<App>, hs: HsPlan, ver: Ver) -> Conn {
        let (peer_side, endpoint_side) = IoTest::create();
        self.queue.borrow_mut().push_back((app.clone(), hs));
        let peer = Peer::new(peer_side, ver, app.clone(), self.cfg.initial_write_budget);
        (self.connect)(endpoint_side, app.clone());
        Conn { role: self.cfg.role, app, peer, cfg: self.cfg.clone() }
    }
}

fn spawn_conn<S>(pl: Pipeline<S>, io: IoTest, scfg: SharedCfg, app: Rc<App>)
where
    S: Service<IoBoxed, Response = ()> + 'static,
    S::Error: std::fmt::Debug,
{
    let _ = ntex_util::spawn(async move {
        let io = IoBoxed::from(Io::new(io, scfg));
        // "pre-buffered" connections: let the transport's read task fill the read buffer before
        // the service is called (what happens behind TLS or any other asynchronous pipeline stage)
        let pre = app.extra.borrow().get("prebuffer").is_some();
        if pre {
            crate::rt::rounds(6).await;
        }
        let r = pl.call(io).await;
        app.done.set(true);
        app.log(Ev::ConnDone(match r {
            Ok(()) => "ok".to_string(),
            Err(e) => {
                let mut s = format!("err {e:?}");
                s.truncate(160);
                s
            }
        }));
    });
}

macro_rules! v3_server {
    ($queue:expr) => {{
        let queue = $queue;
        v3::MqttServer::new(move |h: v3::Handshake| {
            let queue = queue.clone();
            async move {
                let (app, plan) = queue.borrow_mut().pop_front().expect("an app is queued for every connection");
                app.log(Ev::HandshakeEnter);
                *app.sink.borrow_mut() = Some(Sink::V3(h.sink()));
                if plan.gated {
                    let g = app.gate(GateKind::Handshake, 0);
                    g.wait().await;
                }
                if plan.error {
                    app.log(Ev::HandshakeExit("error".into()));
                    return Err(TestErr::Plain);
                }
                if !plan.accept {
                    app.log(Ev::HandshakeExit(format!("refuse {}", plan.refuse_code)));
                    let code = v3::codec::ConnectAckReason::try_from(plan.refuse_code).unwrap_or(v3::codec::ConnectAckReason::NotAuthorized);
                    return Ok(h.failed::<Rc<App>>(code));
                }
                app.log(Ev::HandshakeExit("accept".into()));
                let mut ack = h.ack(app.clone(), false);
                if let Some(ka) = plan.keepalive {
                    ack = ack.idle_timeout(Seconds(ka));
                }
                if plan.max_send.is_some() {
                    ack = ack.max_send(plan.max_send);
                }
                if let Some(m) = plan.max_packet_size.and_then(std::num::NonZeroU32::new) {
                    ack = ack.max_packet_size(m);
                }
                Ok::<_, TestErr>(ack)
            }
        })
        .protocol(fn_factory_with_config(|session: v3::Session<Rc<App>>| async move {
            let app = (*session).clone();
            let app2 = app.clone();
            Ok::<_, TestErr>(Svc::new(&app2, SVC_PROTO, move |msg: v3::ProtocolMessage| v3_protocol(app.clone(), msg)))
        }))
        .control(fn_factory_with_config(|session: v3::Session<Rc<App>>| async move {
            let app = (*session).clone();
            let app2 = app.clone();
            Ok::<_, TestErr>(Svc::new(&app2, SVC_CTL, move |msg: Control<TestErr>| {
                let app = app.clone();
                async move { v3_control_answer(control_common(app, msg).await) }
            }))
        }))
    }};
}

async fn build_v3_server(cfg: &ConnCfg, queue: AppQueue, scfg: SharedCfg) -> ConnectFn {
    macro_rules! finish {
        ($srv:expr) => {{
            let srv = $srv;
            let pl = ServiceFactory::<IoBoxed, SharedCfg>::pipeline(&srv, scfg.clone()).await.expect("v3 server factory");
            let scfg2 = scfg.clone();
            Rc::new(move |io: IoTest, app: Rc<App>| spawn_conn(pl.clone(), io, scfg2.clone(), app)) as ConnectFn
        }};
    }
    if cfg.inflight_middleware {
        finish!(v3_server!(queue).publish(v3_publish_factory(cfg)))
    } else {
        finish!(v3_server!(queue).replace_middlewares(ntex_service::Identity).publish(v3_publish_factory(cfg)))
    }
}

fn v3_publish_factory(cfg: &ConnCfg) -> ntex_service::boxed::BoxServiceFactory<v3::Session<Rc<App>>, v3::Publish, (), TestErr, TestErr> {
    let routes = cfg.router.clone();
    let handler = |route: String| {
        fn_factory_with_config(move |session: v3::Session<Rc<App>>| {
            let route = route.clone();
            async move {
                let app = (*session).clone();
                let app2 = app.clone();
                Ok::<_, TestErr>(Svc::new(&app2, SVC_PUB, move |p: v3::Publish| v3_publish(app.clone(), p, route.clone())))
            }
        })
    };
    if routes.is_empty() {
        ntex_service::boxed::factory(handler(String::new()))
    } else {
        // the library's own topic router (src/v3/router.rs)
        let mut router = v3::Router::<Rc<App>, TestErr>::new(handler("<default>".to_string()));
        for r in &routes {
            router = router.resource(r.as_str(), handler(r.clone()));
        }
        ntex_service::boxed::factory(ntex_service::IntoServiceFactory::into_factory(router))
    }
}

macro_rules! v5_server {
    ($queue:expr) => {{
        let queue = $queue;
        v5::MqttServer::new(move |h: v5::Handshake| {
        let queue = queue.clone();
        async move {
            let (app, plan) = queue.borrow_mut().pop_front().expect("an app is queued for every connection");
            app.log(Ev::HandshakeEnter);
            *app.sink.borrow_mut() = Some(Sink::V5(h.sink()));
            if plan.gated {
                let g = app.gate(GateKind::Handshake, 0);
                g.wait().await;
            }
            if plan.error {
                app.log(Ev::HandshakeExit("error".into()));
                return Err(TestErr::Plain);
            }
            if !plan.accept {
                app.log(Ev::HandshakeExit(format!("refuse {}", plan.refuse_code)));
                let code = v5::codec::ConnectAckReason::try_from(plan.refuse_code).unwrap_or(v5::codec::ConnectAckReason::NotAuthorized);
                return Ok(h.failed::<Rc<App>>(code));
            }
            app.log(Ev::HandshakeExit("accept".into()));
            let mut ack = h.ack(app.clone());
            if let Some(ka) = plan.keepalive {
                ack = ack.keep_alive(ka);
            }
            if plan.max_send.is_some() {
                ack = ack.max_send(plan.max_send);
            }
            let plan2 = plan.clone();
            ack = ack.with(move |p| {
                if let Some(v) = plan2.receive_max.and_then(std::num::NonZeroU16::new) {
                    p.receive_max = v;
                }
                if let Some(q) = plan2.max_qos {
                    p.max_qos = ntex_mqtt::QoS::try_from(q).unwrap();
                }
                if let Some(v) = plan2.topic_alias_max {
                    p.topic_alias_max = v;
                }
                if let Some(v) = plan2.retain_available {
                    p.retain_available = v;
                }
                if let Some(v) = plan2.sub_ids_available {
                    p.subscription_identifiers_available = v;
                }
                if let Some(v) = plan2.max_packet_size {
                    // 0 = the handshake service lifts the configured limit for this connection
                    p.max_packet_size = if v == 0 { None } else { Some(v) };
                }
                if let Some(v) = plan2.session_expiry {
                    p.session_expiry_interval_secs = Some(v);
                }
            });
            Ok::<_, TestErr>(ack)
        }
    })
    .protocol(fn_factory_with_config(|session: v5::Session<Rc<App>>| async move {
        let app = (*session).clone();
        let app2 = app.clone();
        Ok::<_, TestErr>(Svc::new(&app2, SVC_PROTO, move |msg: v5::ProtocolMessage| v5_protocol(app.clone(), msg)))
    }))
    .control(fn_factory_with_config(|session: v5::Session<Rc<App>>| async move {
        let app = (*session).clone();
        let app2 = app.clone();
        Ok::<_, TestErr>(Svc::new(&app2, SVC_CTL, move |msg: Control<TestErr>| {
            let app = app.clone();
            async move { v5_control_answer(control_common(app, msg).await) }
        }))
    }))
    }};
}

async fn build_v5_server(cfg: &ConnCfg, queue: AppQueue, scfg: SharedCfg) -> ConnectFn {
    macro_rules! finish {
        ($srv:expr) => {{
            let srv = $srv;
            let pl = ServiceFactory::<IoBoxed, SharedCfg>::pipeline(&srv, scfg.clone()).await.expect("v5 server factory");
            let scfg2 = scfg.clone();
            Rc::new(move |io: IoTest, app: Rc<App>| spawn_conn(pl.clone(), io, scfg2.clone(), app)) as ConnectFn
        }};
    }
    if cfg.inflight_middleware {
        finish!(v5_server!(queue).publish(v5_publish_factory(cfg)))
    } else {
        finish!(v5_server!(queue).replace_middlewares(ntex_service::Identity).publish(v5_publish_factory(cfg)))
    }
}

fn v5_publish_factory(
    cfg: &ConnCfg,
) -> ntex_service::boxed::BoxServiceFactory<v5::Session<Rc<App>>, v5::Publish, v5::PublishAck, TestErr, TestErr> {
    let routes = cfg.router.clone();
    let handler = |route: String| {
        fn_factory_with_config(move |session: v5::Session<Rc<App>>| {
            let route = route.clone();
            async move {
                let app = (*session).clone();
                let app2 = app.clone();
                Ok::<_, TestErr>(Svc::new(&app2, SVC_PUB, move |p: v5::Publish| v5_publish(app.clone(), p, route.clone())))
            }
        })
    };
    if routes.is_empty() {
        ntex_service::boxed::factory(handler(String::new()))
    } else {
        // the library's own topic router (src/v5/router.rs)
        let mut router = v5::Router::<Rc<App>, TestErr>::new(handler("<default>".to_string()));
        for r in &routes {
            router = router.resource(r.as_str(), handler(r.clone()));
        }
        ntex_service::boxed::factory(router.build())
    }
}

async fn build_combined_server(cfg: &ConnCfg, queue: AppQueue, scfg: SharedCfg) -> ConnectFn {
    let srv = ntex_mqtt::MqttServer::new()
        .v3(v3_server!(queue.clone()).publish(v3_publish_factory(cfg)))
        .v5(v5_server!(queue).publish(v5_publish_factory(cfg)));
    let pl = ServiceFactory::<IoBoxed, SharedCfg>::pipeline(&srv, scfg.clone()).await.expect("combined server factory");
    let scfg2 = scfg.clone();
    Rc::new(move |io: IoTest, app: Rc<App>| spawn_conn(pl.clone(), io, scfg2.clone(), app)) as ConnectFn
}

/// Start one connection to a fresh server of `cfg.role`; the peer has NOT sent CONNECT yet.
pub async fn start_server_raw(cfg: &ConnCfg, app: Rc<App>) -> Conn {
    let srv = Server::new(cfg).await;
    srv.connect(app, cfg.hs.clone(), cfg.role.ver())
}

/// Start a server connection and perform the handshake (CONNECT from the peer, CONNACK read).
pub async fn start_server(cfg: &ConnCfg, app: Rc<App>) -> Conn {
    let mut c = start_server_raw(cfg, app).await;
    c.peer.send(&cfg.peer_connect());
    c.settle().await;
    c
}

// ===================================================================================== clients

/// Start a client role: the library connects over the in-memory transport, the peer answers
/// CONNACK, the dispatcher is started with the instrumented services.
pub async fn start_client(cfg: &ConnCfg, app: Rc<App>) -> Conn {
    start_client_opts(cfg, app, true).await
}

/// `send_connack = false`: the peer does not answer the CONNECT (the caller writes what it wants)
pub async fn start_client_opts(cfg: &ConnCfg, app: Rc<App>, send_connack: bool) -> Conn {
    let (peer_side, endpoint_side) = IoTest::create();
    let ver = cfg.role.ver();
    let mut peer = Peer::new(peer_side, ver, app.clone(), cfg.initial_write_budget);
    let scfg = cfg.shared_cfg("CLI");
    let slot = Rc::new(RefCell::new(Some(endpoint_side)));
    let cfg2 = cfg.clone();
    let app2 = app.clone();
    let scfg2 = scfg.clone();
    let started = Rc::new(std::cell::Cell::new(false));
    let started2 = started.clone();
    let _ = ntex_util::spawn(async move {
        let scfg3 = scfg2.clone();
        let connector = fn_service(move |_: ntex_net::connect::Connect<String>| {
            let io = slot.borrow_mut().take().expect("one connection per client");
            let scfg = scfg3.clone();
            async move { Ok::<_, ntex_net::connect::ConnectError>(Io::new(io, scfg)) }
        });
        match cfg2.role {
            Role::V3Client => {
                let pl = v3::client::MqttConnector::<String, _>::new().connector(connector).pipeline(scfg2.clone()).await.expect("connector");
                let c = v3::client::Connect::new("peer".to_string()).client_id("lib").keep_alive(Seconds(cfg2.keep_alive));
                match pl.call(c).await {
                    Ok(client) => {
                        *app2.sink.borrow_mut() = Some(Sink::V3(client.sink()));
                        started2.set(true);
                        app2.log(Ev::HandshakeExit("connected".into()));
                        let appc = app2.clone();
                        let appp = app2.clone();
                        let control = Svc::new(&app2, SVC_CTL, move |msg: Control<TestErr>| {
                            let app = appc.clone();
                            async move { v3_control_answer(control_common(app, msg).await) }
                        });
                        let proto = Svc::new(&app2, SVC_PROTO, move |msg: v3::client::ProtocolMessage| v3_client_protocol(appp.clone(), msg));
                        let r = if cfg2.client_resources.is_empty() {
                            client.start_with_control(proto, control).await.map_err(|e| format!("{e:?}"))
                        } else {
                            let apph = app2.clone();
                            let first = cfg2.client_resources[0].clone();
                            let f1 = first.clone();
                            let mut router = client.resource(first.as_str(), Svc::new(&app2, SVC_PUB, move |p: v3::Publish| v3_publish(apph.clone(), p, f1.clone())));
                            for r in cfg2.client_resources.iter().skip(1) {
                                let apph = app2.clone();
                                let r2 = r.clone();
                                router = router.resource(r.as_str(), Svc::new(&app2, SVC_PUB, move |p: v3::Publish| v3_publish(apph.clone(), p, r2.clone())));
                            }
                            router.start(proto).await.map_err(|e| format!("{e:?}"))
                        };
                        app2.done.set(true);
                        app2.log(Ev::ConnDone(match r {
                            Ok(()) => "ok".into(),
                            Err(e) => format!("err {e}"),
                        }));
                    }
                    Err(e) => {
                        started2.set(true);
                        app2.done.set(true);
                        app2.log(Ev::HandshakeExit(format!("connect failed: {e:?}")));
                        app2.log(Ev::ConnDone("connect-failed".into()));
                    }
                }
            }
            Role::V5Client => {
                let pl = v5::client::MqttConnector::<String, _>::new().connector(connector).pipeline(scfg2.clone()).await.expect("connector");
                let mut c = v5::client::Connect::new("peer".to_string()).client_id("lib").keep_alive(Seconds(cfg2.keep_alive));
                if !cfg2.client_receive_max_unset {
                    c = c.max_receive(cfg2.max_receive);
                }
                if let Some(m) = cfg2.hs.max_packet_size {
                    c = c.max_packet_size(m);
                }
                if let Some(m) = cfg2.client_topic_alias_max {
                    c = c.packet(|p| p.topic_alias_max = m);
                }
                match pl.call(c).await {
                    Ok(client) => {
                        *app2.sink.borrow_mut() = Some(Sink::V5(client.sink()));
                        started2.set(true);
                        app2.log(Ev::HandshakeExit("connected".into()));
                        let appc = app2.clone();
                        let appp = app2.clone();
                        let control = Svc::new(&app2, SVC_CTL, move |msg: Control<TestErr>| {
                            let app = appc.clone();
                            async move { v5_control_answer(control_common(app, msg).await) }
                        });
                        let proto = Svc::new(&app2, SVC_PROTO, move |msg: v5::client::ProtocolMessage| v5_client_protocol(appp.clone(), msg));
                        let r = if cfg2.client_resources.is_empty() {
                            client.start_with_control(proto, control).await.map_err(|e| format!("{e:?}"))
                        } else {
                            let apph = app2.clone();
                            let first = cfg2.client_resources[0].clone();
                            let f1 = first.clone();
                            let mut router = client.resource(first.as_str(), Svc::new(&app2, SVC_PUB, move |p: v5::Publish| v5_publish(apph.clone(), p, f1.clone())));
                            for r in cfg2.client_resources.iter().skip(1) {
                                let apph = app2.clone();
                                let r2 = r.clone();
                                router = router.resource(r.as_str(), Svc::new(&app2, SVC_PUB, move |p: v5::Publish| v5_publish(apph.clone(), p, r2.clone())));
                            }
                            router.start(proto).await.map_err(|e| format!("{e:?}"))
                        };
                        app2.done.set(true);
                        app2.log(Ev::ConnDone(match r {
                            Ok(()) => "ok".into(),
                            Err(e) => format!("err {e}"),
                        }));
                    }
                    Err(e) => {
                        started2.set(true);
                        app2.done.set(true);
                        app2.log(Ev::HandshakeExit(format!("connect failed: {e:?}")));
                        app2.log(Ev::ConnDone("connect-failed".into()));
                    }
                }
            }
            _ => panic!("start_client needs a client role"),
        }
    });
    // the library writes CONNECT; the peer answers
    loop {
        rt::quiesce().await;
        if peer.drain() == 0 {
            break;
        }
    }
    if send_connack {
        peer.send(&cfg.peer_connack());
    }
    let mut c = Conn { role: cfg.role, app, peer, cfg: cfg.clone() };
    c.settle().await;
    let _ = started;
    c
}

async fn v3_client_protocol(app: Rc<App>, msg: v3::client::ProtocolMessage) -> Result<v3::ProtocolMessageAck, TestErr> {
    match msg {
        v3::client::ProtocolMessage::Publish(p) => {
            // the protocol-service form of a publish cannot give its payload away
            let detached = None;
            let pk = p.packet().clone();
            let size = p.packet_size();
            let o = publish_common(
                &app,
                pk.topic.to_string(),
                "<protocol>".into(),
                u8::from(pk.qos),
                pk.dup,
                pk.retain,
                pk.packet_id.map(|x| x.get()),
                vec![],
                size,
                || async { p.read().await.map_err(perr) },
                || async { p.read_all().await.map_err(perr) },
                detached,
            )
            .await;
            match o {
                Outcome::Ok | Outcome::AckCode(_) => Ok(p.ack()),
                _ => Err(TestErr::Plain),
            }
        }
        v3::client::ProtocolMessage::PublishRelease(r) => match proto_common(&app, "pubrel", Some(r.packet_id.get())).await {
            ProtoAnswer::Err => Err(TestErr::Plain),
            _ => Ok(r.ack()),
        },
        v3::client::ProtocolMessage::Ping(p) => match proto_common(&app, "ping", None).await {
            ProtoAnswer::Err => Err(TestErr::Plain),
            _ => Ok(p.ack()),
        },
    }
}

async fn v5_client_protocol(app: Rc<App>, msg: v5::client::ProtocolMessage) -> Result<v5::ProtocolMessageAck, TestErr> {
    match msg {
        v5::client::ProtocolMessage::Publish(p) => {
            let detached = None;
            let pk = p.packet().clone();
            let size = p.packet_size();
            let props = crate::map::v5_publish_props(&pk.properties);
            let o = publish_common(
                &app,
                pk.topic.to_string(),
                "<protocol>".into(),
                u8::from(pk.qos),
                pk.dup,
                pk.retain,
                pk.packet_id.map(|x| x.get()),
                props,
                size,
                || async { p.read().await.map_err(perr) },
                || async { p.read_all().await.map_err(perr) },
                detached,
            )
            .await;
            match o {
                Outcome::Ok => Ok(p.ack(v5::codec::PublishAckReason::Success)),
                Outcome::AckCode(c) | Outcome::Nack(c) => Ok(p.ack(v5::codec::PublishAckReason::try_from(c).unwrap_or(v5::codec::PublishAckReason::UnspecifiedError))),
                Outcome::Err => Err(TestErr::Plain),
            }
        }
        v5::client::ProtocolMessage::PublishRelease(r) => {
            let pid = r.packet().packet_id.get();
            match proto_common(&app, "pubrel", Some(pid)).await {
                ProtoAnswer::Err => Err(TestErr::Plain),
                _ => Ok(r.ack()),
            }
        }
        v5::client::ProtocolMessage::Disconnect(d) => match proto_common(&app, "disconnect", None).await {
            ProtoAnswer::Err => Err(TestErr::Plain),
            _ => Ok(d.ack()),
        },
        v5::client::ProtocolMessage::Ping(p) => match proto_common(&app, "ping", None).await {
            ProtoAnswer::Err => Err(TestErr::Plain),
            _ => Ok(p.ack()),
        },
    }
}

/// Start any role (handshake included).
pub async fn start(cfg: &ConnCfg, app: Rc<App>) -> Conn {
    if cfg.role.is_server() { start_server(cfg, app).await } else { start_client(cfg, app).await }
}

pub fn topic(s: &str) -> ByteString {
    ByteString::from(s)
}
