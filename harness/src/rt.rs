//! Deterministic single-threaded driver for the ntex runtime with quiescence detection.
//!
//! The harness supplies its own `ntex_rt::Driver`: there is no epoll and no socket. The driver
//! polls the runtime until nothing is runnable; if the controller task has armed a
//! *quiescence waker* it is woken at that moment (this is `quiesce().await`), otherwise the
//! thread parks until the timer helper thread (futures-timer) notifies it.
//!
//! Two budgets bound every scenario: a *logical* budget in runtime polls (live-lock detection,
//! machine-load independent) and a generous wall-clock watchdog (only ever "inconclusive").
use std::cell::{Cell, RefCell};
use std::future::Future;
use std::pin::Pin;
use std::sync::{Arc, Condvar, Mutex};
use std::task::{Context, Poll, Waker};
use std::time::{Duration, Instant};

use ntex_rt::{Driver, Notify, PollResult, Runtime};

/// polls a quiescence wait tolerates before it is declared "quiescent apart from a spinner"
pub const SPIN_LIMIT: u64 = 4_000;

thread_local! {
    static QUIESCE: RefCell<Option<Waker>> = const { RefCell::new(None) };
    static POLLS: Cell<u64> = const { Cell::new(0) };
    static ABORT: Cell<Abort> = const { Cell::new(Abort::None) };
    static QUIESCES: Cell<u64> = const { Cell::new(0) };
    static SPINS: Cell<u64> = const { Cell::new(0) };
    static ARM_EPOCH: Cell<u64> = const { Cell::new(0) };
}

#[derive(Copy, Clone, Debug, PartialEq, Eq)]
pub enum Abort {
    None,
    /// logical step budget exhausted: the system never became quiescent
    StepBudget,
    /// wall clock watchdog: inconclusive
    Watchdog,
}

#[derive(Debug)]
struct Flag(Mutex<bool>, Condvar);

#[derive(Debug)]
struct HNotify(Arc<Flag>);

impl Notify for HNotify {
    fn notify(&self) -> std::io::Result<()> {
        let mut g = self.0.0.lock().unwrap();
        *g = true;
        self.0.1.notify_one();
        Ok(())
    }
}

pub struct HDriver {
    flag: Arc<Flag>,
    step_budget: u64,
    deadline: Instant,
}

impl Driver for HDriver {
    fn handle(&self) -> Box<dyn Notify> {
        Box::new(HNotify(self.flag.clone()))
    }

    fn run(&self, rt: &Runtime) -> std::io::Result<()> {
        let mut armed: u64 = 0;
        let mut last_epoch: u64 = u64::MAX;
        // consecutive polls without the run queue ever draining
        let mut busy: u64 = 0;
        loop {
            crate::pool::tick();
            match rt.poll() {
                PollResult::Ready => return Ok(()),
                PollResult::PollAgain => {
                    busy += 1;
                    // a self-waking task while the controller sleeps on a real timer (C20): do
                    // not burn a core, the other scenario threads need it to keep their schedule
                    if busy > 20_000 && busy % 64 == 0 && QUIESCE.with(|q| q.borrow().is_none()) {
                        std::thread::sleep(Duration::from_millis(1));
                    }
                    let n = POLLS.with(|p| {
                        let n = p.get() + 1;
                        p.set(n);
                        n
                    });
                    // busy-wait tolerance: a task that keeps re-scheduling itself while it waits
                    // (observed in the readiness plumbing of the service stack) would keep the
                    // run queue non-empty for ever. If the controller has been waiting for
                    // quiescence for SPIN_LIMIT polls, hand control back to it and remember that
                    // this quiescence was only "nothing but a spinner is runnable".
                    let epoch = ARM_EPOCH.with(Cell::get);
                    if epoch != last_epoch {
                        // a new quiescence wait started: count from zero
                        last_epoch = epoch;
                        armed = 0;
                    }
                    if QUIESCE.with(|q| q.borrow().is_some()) {
                        armed += 1;
                        if armed > SPIN_LIMIT {
                            armed = 0;
                            if let Some(w) = QUIESCE.with(|q| q.borrow_mut().take()) {
                                SPINS.with(|s| s.set(s.get() + 1));
                                QUIESCES.with(|q| q.set(q.get() + 1));
                                w.wake();
                            }
                        }
                    } else {
                        armed = 0;
                    }
                    if n > self.step_budget {
                        ABORT.with(|a| a.set(Abort::StepBudget));
                        return Err(std::io::Error::other("step budget"));
                    }
                    if n & 0xfff == 0 && Instant::now() > self.deadline {
                        ABORT.with(|a| a.set(Abort::Watchdog));
                        return Err(std::io::Error::other("watchdog"));
                    }
                }
                PollResult::Pending => {
                    busy = 0;
                    POLLS.with(|p| p.set(p.get() + 1));
                    // a cross-thread wake-up may already be pending
                    {
                        let mut g = self.flag.0.lock().unwrap();
                        if *g {
                            *g = false;
                            // local schedule() also notifies when the queue was idle; polling
                            // again is always safe
                            continue;
                        }
                    }
                    if let Some(w) = QUIESCE.with(|q| q.borrow_mut().take()) {
                        QUIESCES.with(|q| q.set(q.get() + 1));
                        w.wake();
                        continue;
                    }
                    // nothing runnable and nobody waits for quiescence: wait for a timer
                    let mut g = self.flag.0.lock().unwrap();
                    while !*g {
                        let now = Instant::now();
                        if now >= self.deadline {
                            ABORT.with(|a| a.set(Abort::Watchdog));
                            return Err(std::io::Error::other("watchdog"));
                        }
                        let (ng, _) = self
                            .flag
                            .1
                            .wait_timeout(g, (self.deadline - now).min(Duration::from_millis(50)))
                            .unwrap();
                        g = ng;
                    }
                    *g = false;
                }
            }
        }
    }
}

/// Result of running one scenario future to completion on a fresh runtime.
pub struct RunStats {
    pub polls: u64,
    pub quiesces: u64,
    /// quiescence points that were reached only by the busy-wait tolerance
    pub spins: u64,
}

/// Run `fut` on a fresh ntex runtime driven by the harness driver.
/// Panics (caught by the caller) if a budget is exceeded — `take_abort()` tells which.
pub fn run<F: Future>(fut: F, step_budget: u64, watchdog: Duration) -> (F::Output, RunStats) {
    POLLS.with(|p| p.set(0));
    QUIESCES.with(|p| p.set(0));
    SPINS.with(|p| p.set(0));
    ABORT.with(|a| a.set(Abort::None));
    QUIESCE.with(|q| q.borrow_mut().take());
    let driver = HDriver {
        flag: Arc::new(Flag(Mutex::new(false), Condvar::new())),
        step_budget,
        deadline: Instant::now() + watchdog,
    };
    let rt = Runtime::builder().event_interval(2).build(driver.handle());
    let out = rt.block_on(fut, &driver);
    drop(rt);
    (out, RunStats { polls: POLLS.with(Cell::get), quiesces: QUIESCES.with(Cell::get), spins: SPINS.with(Cell::get) })
}

pub fn take_abort() -> Abort {
    ABORT.with(|a| a.replace(Abort::None))
}

pub fn spins() -> u64 {
    SPINS.with(Cell::get)
}

pub fn polls() -> u64 {
    POLLS.with(Cell::get)
}

/// Resolves when no task is runnable any more (every task is waiting for an external event).
pub fn quiesce() -> Quiesce {
    Quiesce(false)
}

pub struct Quiesce(bool);

impl Future for Quiesce {
    type Output = ();
    fn poll(mut self: Pin<&mut Self>, cx: &mut Context<'_>) -> Poll<()> {
        if self.0 {
            Poll::Ready(())
        } else {
            self.0 = true;
            ARM_EPOCH.with(|e| e.set(e.get() + 1));
            QUIESCE.with(|q| *q.borrow_mut() = Some(cx.waker().clone()));
            Poll::Pending
        }
    }
}

/// Yield once: every task that is runnable *now* gets polled before the caller continues.
pub fn yield_now() -> YieldNow {
    YieldNow(false)
}

pub struct YieldNow(bool);

impl Future for YieldNow {
    type Output = ();
    fn poll(mut self: Pin<&mut Self>, cx: &mut Context<'_>) -> Poll<()> {
        if self.0 {
            Poll::Ready(())
        } else {
            self.0 = true;
            cx.waker().wake_by_ref();
            Poll::Pending
        }
    }
}

/// Let every runnable task be polled `k` times.
pub async fn rounds(k: usize) {
    for _ in 0..k {
        yield_now().await;
    }
}
