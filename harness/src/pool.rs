//! Worker pool, panic capture and small utilities shared by all checks.
use std::cell::RefCell;
use std::collections::HashMap;
use std::panic::{self, AssertUnwindSafe};
use std::sync::atomic::{AtomicBool, AtomicU64, Ordering};
use std::sync::{Mutex, OnceLock};
use std::time::Instant;

#[derive(Debug, Clone)]
pub struct PanicInfo {
    pub msg: String,
    /// file:line:col of the panic
    pub location: String,
    /// symbol of the first frame that lives in /repo/src (hash stripped), if any
    pub repo_symbol: Option<String>,
    /// first few frames inside /repo/src ("symbol @ file:line")
    pub repo_frames: Vec<String>,
}

impl PanicInfo {
    /// Stable identity of the panic site: symbol in /repo (or file of the location) + message
    /// with numbers abstracted. Line numbers are deliberately not part of it.
    pub fn signature(&self) -> String {
        let site = self.repo_symbol.clone().unwrap_or_else(|| {
            let f = self.location.split(':').next().unwrap_or("?");
            f.to_string()
        });
        format!("panic@{} :: {}", site, abstract_numbers(&self.msg))
    }
    pub fn in_repo(&self) -> bool {
        self.repo_symbol.is_some() || self.location.contains("/repo/src")
    }
}

pub fn abstract_numbers(s: &str) -> String {
    let mut out = String::new();
    let mut in_num = false;
    for c in s.chars() {
        if c.is_ascii_digit() {
            if !in_num {
                out.push('N');
            }
            in_num = true;
        } else {
            in_num = false;
            out.push(c);
        }
    }
    if out.len() > 160 {
        out.truncate(160);
    }
    out
}

thread_local! {
    static LAST_PANIC: RefCell<Option<PanicInfo>> = const { RefCell::new(None) };
}

static SYMBOL_CACHE: OnceLock<Mutex<HashMap<String, (Option<String>, Vec<String>)>>> =
    OnceLock::new();
static VERBOSE: AtomicBool = AtomicBool::new(false);

pub fn set_verbose(v: bool) {
    VERBOSE.store(v, Ordering::Relaxed);
}

pub fn install_panic_hook() {
    panic::set_hook(Box::new(|info| {
        let msg = if let Some(s) = info.payload().downcast_ref::<&str>() {
            (*s).to_string()
        } else if let Some(s) = info.payload().downcast_ref::<String>() {
            s.clone()
        } else {
            "<non-string panic payload>".to_string()
        };
        let location = info
            .location()
            .map(|l| format!("{}:{}:{}", l.file(), l.line(), l.column()))
            .unwrap_or_else(|| "?".into());
        let cache = SYMBOL_CACHE.get_or_init(|| Mutex::new(HashMap::new()));
        let cached = cache.lock().unwrap().get(&location).cloned();
        let (repo_symbol, repo_frames) = match cached {
            Some(v) => v,
            None => {
                let bt = std::backtrace::Backtrace::force_capture().to_string();
                let v = parse_backtrace(&bt);
                cache.lock().unwrap().insert(location.clone(), v.clone());
                v
            }
        };
        if VERBOSE.load(Ordering::Relaxed) {
            eprintln!("[panic] {msg} at {location} ({repo_symbol:?})");
        }
        let fatal_kind = msg.contains("unsafe precondition") || msg.contains("in a destructor") || msg.contains("misaligned") || msg.contains("null pointer") || msg.contains("cannot unwind");
        if fatal_kind || std::thread::panicking() || std::env::var("VERIF_PANIC_TRACE").is_ok() {
            // the process is about to abort (panic inside a destructor while unwinding, in a
            // thread-local destructor, ...): say where, nothing else will
            eprintln!("[panic while panicking / trace] {msg} at {location}\n{}", std::backtrace::Backtrace::force_capture());
        }
        LAST_PANIC.with(|p| {
            *p.borrow_mut() = Some(PanicInfo { msg, location, repo_symbol, repo_frames })
        });
    }));
}

fn parse_backtrace(bt: &str) -> (Option<String>, Vec<String>) {
    // format:  "  12: symbol::path\n             at /path/file.rs:LINE:COL"
    let mut frames = Vec::new();
    let mut cur_sym: Option<String> = None;
    for line in bt.lines() {
        let t = line.trim_start();
        if let Some(rest) = t.strip_prefix("at ") {
            if rest.starts_with("/repo/src") {
                if let Some(sym) = &cur_sym {
                    frames.push(format!("{} @ {}", sym, rest.trim()));
                }
            }
        } else if let Some(pos) = t.find(": ") {
            if t[..pos].chars().all(|c| c.is_ascii_digit()) {
                let mut sym = t[pos + 2..].trim().to_string();
                // strip trailing ::h<hash>
                if let Some(h) = sym.rfind("::h") {
                    if sym[h + 3..].chars().all(|c| c.is_ascii_hexdigit()) && sym.len() - h == 19
                    {
                        sym.truncate(h);
                    }
                }
                cur_sym = Some(sym);
            }
        }
    }
    let first = frames.first().map(|f| f.split(" @ ").next().unwrap().to_string());
    frames.truncate(6);
    (first, frames)
}

/// Run `f`, turning a panic into `Err(PanicInfo)`.
pub fn catch<R>(f: impl FnOnce() -> R) -> Result<R, PanicInfo> {
    LAST_PANIC.with(|p| p.borrow_mut().take());
    match panic::catch_unwind(AssertUnwindSafe(f)) {
        Ok(r) => Ok(r),
        Err(_) => Err(LAST_PANIC.with(|p| p.borrow_mut().take()).unwrap_or(PanicInfo {
            msg: "<panic without hook record>".into(),
            location: "?".into(),
            repo_symbol: None,
            repo_frames: vec![],
        })),
    }
}

pub fn workers() -> usize {
    std::env::var("VERIF_JOBS")
        .ok()
        .and_then(|v| v.parse().ok())
        .unwrap_or_else(|| std::thread::available_parallelism().map(|n| n.get()).unwrap_or(8))
        .max(1)
}

/// (stride, shard) from VERIF_STRIDE / VERIF_SHARD: run only the cases whose hashed index falls
/// into this shard (default: everything)
pub fn stride() -> (u64, u64) {
    let k = std::env::var("VERIF_STRIDE").ok().and_then(|v| v.parse::<u64>().ok()).unwrap_or(1).max(1);
    let s = std::env::var("VERIF_SHARD").ok().and_then(|v| v.parse::<u64>().ok()).unwrap_or(0) % k;
    (k, s)
}

/// sanitizer stages: additional thinning of heavy inner loops (VERIF_INNER=k keeps every k-th
/// element, offset by the shard); 1 = keep everything
pub fn inner_keep(i: usize) -> bool {
    thread_local! {
        static INNER: (u64, u64) = {
            let k = std::env::var("VERIF_INNER").ok().and_then(|v| v.parse::<u64>().ok()).unwrap_or(1).max(1);
            (k, stride().1 % k)
        };
    }
    INNER.with(|(k, o)| *k == 1 || (i as u64) % *k == *o)
}

/// Tells a worker whether its thread must be retired (fresh thread-locals) before continuing.
#[derive(PartialEq, Eq, Clone, Copy)]
pub enum After {
    Continue,
    RetireThread,
}

/// Run `f(index)` for index in 0..total on all cores. `f` returns `After::RetireThread` when the
/// scenario panicked inside the async runtime (ntex keeps thread-local state that may be
/// poisoned); the slot then continues on a brand new thread. Stops early when `deadline` passes
/// (returns the number of indices actually executed).
pub fn par_for<F>(total: u64, deadline: Option<Instant>, f: F) -> u64
where
    F: Fn(u64) -> After + Sync,
{
    par_for_n(workers(), total, deadline, f)
}

/// cases one worker thread executes before it is replaced by a fresh one
pub const LIFE: u64 = 400;

static PHASE: AtomicU64 = AtomicU64::new(0);
static REPLAY_ONLY: std::sync::OnceLock<(u64, u64)> = std::sync::OnceLock::new();

thread_local! {
    static CURRENT_CASE: std::cell::Cell<(u64, u64)> = const { std::cell::Cell::new((u64::MAX, 0)) };
}

// ------------------------------------------------------------------------- stuck-step watchdog
//
// Every budget of the harness is checked between two steps of the cooperative scheduler. Code
// under test that loops without ever yielding never comes back to that check. A monitor thread
// therefore watches a heartbeat every worker thread advances between scheduler steps (and
// between cases); a worker whose heartbeat stands still while the thread burns CPU time (its own
// CPU clock, not the wall clock: a loaded machine does not advance it) for longer than
// `STUCK_CPU_S` is executing a step that does not end. The process cannot unwind out of that:
// the monitor writes the verdict itself and exits.
pub struct Beat {
    pub beat: AtomicU64,
    pub phase: AtomicU64,
    pub index: AtomicU64,
    pub tid: u64,
    pub alive: std::sync::atomic::AtomicBool,
}

static BEATS: std::sync::Mutex<Vec<std::sync::Arc<Beat>>> = std::sync::Mutex::new(Vec::new());
/// (property, tier, seed, cross mode) of the check that is running (set by Report::new)
pub static RUNNING: std::sync::Mutex<Option<(String, String, u64, bool)>> = std::sync::Mutex::new(None);

thread_local! {
    static MY_BEAT: std::cell::RefCell<Option<std::sync::Arc<Beat>>> = const { std::cell::RefCell::new(None) };
}

fn my_tid() -> u64 {
    std::fs::read_link("/proc/thread-self").ok().and_then(|p| p.file_name().and_then(|f| f.to_str().and_then(|s| s.parse().ok()))).unwrap_or(0)
}

/// advance the calling worker's heartbeat (cheap: one relaxed atomic add)
pub fn tick() {
    MY_BEAT.with(|b| {
        if let Some(b) = b.borrow().as_ref() {
            b.beat.fetch_add(1, Ordering::Relaxed);
        }
    });
}

struct BeatGuard(std::sync::Arc<Beat>);
impl Drop for BeatGuard {
    fn drop(&mut self) {
        self.0.alive.store(false, Ordering::SeqCst);
        MY_BEAT.with(|b| *b.borrow_mut() = None);
    }
}

fn register_worker() -> BeatGuard {
    let b = std::sync::Arc::new(Beat {
        beat: AtomicU64::new(0),
        phase: AtomicU64::new(u64::MAX),
        index: AtomicU64::new(0),
        tid: if std::env::var("VERIF_SANITIZER").as_deref() == Ok("miri") { 0 } else { my_tid() },
        alive: std::sync::atomic::AtomicBool::new(true),
    });
    // (not under the interpreter: no /proc there, and a step takes as long as it takes)
    if std::env::var("VERIF_SANITIZER").as_deref() != Ok("miri") && b.tid != 0 {
        MY_BEAT.with(|m| *m.borrow_mut() = Some(b.clone()));
        BEATS.lock().unwrap().push(b.clone());
        start_monitor();
    }
    BeatGuard(b)
}

/// CPU seconds (user + system) thread `tid` of this process has consumed
fn thread_cpu_s(tid: u64) -> Option<f64> {
    let s = std::fs::read_to_string(format!("/proc/self/task/{tid}/stat")).ok()?;
    // fields after the command name (which may contain spaces): skip to the last ')'
    let rest = &s[s.rfind(')')? + 1..];
    let f: Vec<&str> = rest.split_whitespace().collect();
    // rest[0] = state (field 3); utime = field 14, stime = field 15
    let ut: f64 = f.get(11)?.parse().ok()?;
    let st: f64 = f.get(12)?.parse().ok()?;
    Some((ut + st) / 100.0)
}

pub fn stuck_cpu_limit() -> f64 {
    let base = std::env::var("VERIF_STUCK_CPU_S").ok().and_then(|s| s.parse::<f64>().ok()).unwrap_or(60.0);
    // interpreters and sanitizers slow every step down by orders of magnitude
    if std::env::var("VERIF_SANITIZER").is_ok() { base * 50.0 } else { base }
}

fn start_monitor() {
    static STARTED: std::sync::Once = std::sync::Once::new();
    STARTED.call_once(|| {
        let _ = std::thread::Builder::new().name("stuck-monitor".into()).spawn(|| {
            let limit = stuck_cpu_limit();
            // per worker: (last beat seen, cpu at the time the beat last moved)
            let mut seen: std::collections::HashMap<u64, (u64, f64)> = std::collections::HashMap::new();
            loop {
                std::thread::sleep(std::time::Duration::from_millis(1500));
                let beats: Vec<std::sync::Arc<Beat>> = {
                    let mut g = BEATS.lock().unwrap();
                    g.retain(|b| b.alive.load(Ordering::SeqCst));
                    g.clone()
                };
                for b in beats {
                    let now = b.beat.load(Ordering::Relaxed);
                    let Some(cpu) = thread_cpu_s(b.tid) else { continue };
                    let e = seen.entry(b.tid).or_insert((now, cpu));
                    if e.0 != now {
                        *e = (now, cpu);
                        continue;
                    }
                    let phase = b.phase.load(Ordering::SeqCst);
                    if phase == u64::MAX {
                        *e = (now, cpu);
                        continue;
                    }
                    if cpu - e.1 >= limit {
                        report_stuck(phase, b.index.load(Ordering::SeqCst), cpu - e.1);
                    }
                }
            }
        });
    });
}

fn report_stuck(phase: u64, index: u64, cpu: f64) -> ! {
    let (prop, tier, seed, cross) = RUNNING.lock().unwrap().clone().unwrap_or(("?".into(), "quick".into(), 1, false));
    let dir = std::path::PathBuf::from(crate::report::VERIF_DIR).join("out/replay");
    let _ = std::fs::create_dir_all(&dir);
    let path = dir.join(format!("{prop}-stuck-{phase}-{index}.json"));
    let sig = "a scheduler step of the code under test does not end (non-yielding loop)";
    let what = format!("case {index} of parallel loop {phase}: one step of the cooperative scheduler consumed {cpu:.0} s of CPU time without returning (normal steps take microseconds); the process had to be ended from outside the scenario");
    let body = serde_json::json!({"property": prop, "seed": seed, "tier": tier, "signature": sig, "what": what, "occurrences": 1,
        "replay": {"_case": {"phase": phase, "index": index}, "stuck_step": true}});
    let _ = std::fs::write(&path, serde_json::to_string_pretty(&body).unwrap());
    if cross {
        println!("INCONCLUSIVE: {what} (while running the workload of another check: {prop})");
        std::process::exit(2);
    }
    if replay_only().is_none() && std::env::var("VERIF_SANITIZER").is_err() {
        let ev = serde_json::json!({"property_id": prop, "tier": tier, "seed": seed, "level": "exploration",
            "coverage": {"evaluations": 0, "distinct_nontrivial": 0, "rule": "run ended by the stuck-step monitor", "notes": [what.clone()]},
            "assumptions": [], "wall_s": 0.0, "violations": 1, "known_findings_reproduced": 0});
        let _ = std::fs::write(std::path::PathBuf::from(crate::report::VERIF_DIR).join(format!("evidence/{prop}.json")), serde_json::to_string_pretty(&ev).unwrap());
    }
    println!("VIOLATION property={prop} replay={}", path.display());
    println!("  signature: {sig}");
    println!("  what: {what}");
    std::process::exit(1);
}

/// generic replay: run only case `index` of the `phase`-th parallel loop of this check
pub fn set_replay_only(phase: u64, index: u64) {
    let _ = REPLAY_ONLY.set((phase, index));
}

pub fn replay_only() -> Option<(u64, u64)> {
    REPLAY_ONLY.get().copied()
}

/// (phase, index) of the case the calling worker thread is executing (phase = how many parallel
/// loops this check had started before; u64::MAX outside of a loop)
pub fn current_case() -> (u64, u64) {
    CURRENT_CASE.with(|c| c.get())
}

/// `par_for` with an explicit number of slots (real-time scenarios mostly sleep)
pub fn par_for_n<F>(n: usize, total: u64, deadline: Option<Instant>, f: F) -> u64
where
    F: Fn(u64) -> After + Sync,
{
    let phase = PHASE.fetch_add(1, Ordering::SeqCst);
    let only = replay_only();
    if let Some((p, _)) = only {
        if p != phase {
            return 0;
        }
    }
    // interpreter stages: a fixed number of cases per loop and shard (VERIF_TAKE), picked by hash
    let take = if only.is_some() { 0 } else { std::env::var("VERIF_TAKE").ok().and_then(|v| v.parse::<u64>().ok()).unwrap_or(0) };
    if take > 0 && total > 0 {
        let shard = stride().1;
        let mut picked: Vec<u64> = (0..take.min(total)).map(|j| splitmix(&mut (shard.wrapping_mul(1_000_003) ^ (phase << 32) ^ j)) % total).collect();
        picked.sort();
        picked.dedup();
        let mut done = 0;
        for i in picked {
            CURRENT_CASE.with(|c| c.set((phase, i)));
            let _ = f(i);
            crate::universal::flush_case(phase, i);
            CURRENT_CASE.with(|c| c.set((u64::MAX, 0)));
            done += 1;
        }
        return done;
    }
    let next = AtomicU64::new(only.map_or(0, |o| o.1));
    let total = only.map_or(total, |o| (o.1 + 1).min(total));
    let done = AtomicU64::new(0);
    // sanitizer stages (Miri, ASan) run the same checks on every k-th case only
    let (stride, shard) = if only.is_some() { (1, 0) } else { stride() };
    let n = if only.is_some() { 1 } else if stride > 1 { n.min(workers()) } else { n };
    std::thread::scope(|s| {
        for _ in 0..n {
            s.spawn(|| {
                loop {
                    // one "life" of this slot
                    let finished = std::thread::scope(|s2| {
                        std::thread::Builder::new()
                            .stack_size(16 << 20)
                            .spawn_scoped(s2, || {
                                let guard = register_worker();
                                let mut life = 0u64;
                                loop {
                                    if let Some(d) = deadline {
                                        if Instant::now() > d {
                                            return true;
                                        }
                                    }
                                    let i = next.fetch_add(1, Ordering::Relaxed);
                                    if i >= total || gave_up() {
                                        return true;
                                    }
                                    if stride > 1 && splitmix(&mut i.clone()) % stride != shard {
                                        continue;
                                    }
                                    CURRENT_CASE.with(|c| c.set((phase, i)));
                                    guard.0.index.store(i, Ordering::SeqCst);
                                    guard.0.phase.store(phase, Ordering::SeqCst);
                                    guard.0.beat.fetch_add(1, Ordering::Relaxed);
                                    let r = f(i);
                                    guard.0.phase.store(u64::MAX, Ordering::SeqCst);
                                    guard.0.beat.fetch_add(1, Ordering::Relaxed);
                                    crate::universal::flush_case(phase, i);
                                    CURRENT_CASE.with(|c| c.set((u64::MAX, 0)));
                                    done.fetch_add(1, Ordering::Relaxed);
                                    life += 1;
                                    // the async runtime keeps per-thread state that grows with
                                    // every scenario (freed when the thread ends): bounded lives
                                    if r == After::RetireThread || life >= LIFE {
                                        return false;
                                    }
                                }
                            })
                            .unwrap()
                            .join()
                            .unwrap_or(false)
                    });
                    if finished {
                        break;
                    }
                }
            });
        }
    });
    done.load(Ordering::Relaxed)
}

static GIVE_UP: std::sync::atomic::AtomicBool = std::sync::atomic::AtomicBool::new(false);

/// Stop handing out cases: the run already has many violations of the expensive kind (live-locks
/// burn their whole step budget each); the verdict is decided, more of them add nothing.
pub fn give_up() {
    GIVE_UP.store(true, Ordering::SeqCst);
}
pub fn gave_up() -> bool {
    GIVE_UP.load(Ordering::SeqCst)
}

/// splitmix64 / xoshiro256** — hand written, no external crates.
#[derive(Clone, Debug)]
pub struct Rng {
    s: [u64; 4],
}

pub fn splitmix(x: &mut u64) -> u64 {
    *x = x.wrapping_add(0x9E3779B97F4A7C15);
    let mut z = *x;
    z = (z ^ (z >> 30)).wrapping_mul(0xBF58476D1CE4E5B9);
    z = (z ^ (z >> 27)).wrapping_mul(0x94D049BB133111EB);
    z ^ (z >> 31)
}

pub fn mix(a: u64, b: u64) -> u64 {
    let mut x = a ^ b.rotate_left(32) ^ 0xD6E8FEB86659FD93;
    splitmix(&mut x)
}

pub fn hash_bytes(b: &[u8]) -> u64 {
    let mut h: u64 = 0xcbf29ce484222325;
    for &x in b {
        h ^= x as u64;
        h = h.wrapping_mul(0x100000001b3);
    }
    let mut s = h;
    splitmix(&mut s)
}

pub fn hash_str(s: &str) -> u64 {
    hash_bytes(s.as_bytes())
}

impl Rng {
    pub fn new(seed: u64) -> Self {
        let mut x = seed;
        Rng { s: [splitmix(&mut x), splitmix(&mut x), splitmix(&mut x), splitmix(&mut x)] }
    }
    /// independent stream for (seed, label, index)
    pub fn for_case(seed: u64, label: &str, idx: u64) -> Self {
        Rng::new(mix(mix(seed, hash_str(label)), idx))
    }
    pub fn next(&mut self) -> u64 {
        let r = self.s[1].wrapping_mul(5).rotate_left(7).wrapping_mul(9);
        let t = self.s[1] << 17;
        self.s[2] ^= self.s[0];
        self.s[3] ^= self.s[1];
        self.s[1] ^= self.s[2];
        self.s[0] ^= self.s[3];
        self.s[2] ^= t;
        self.s[3] = self.s[3].rotate_left(45);
        r
    }
    /// uniform in 0..n (n > 0)
    pub fn below(&mut self, n: u64) -> u64 {
        debug_assert!(n > 0);
        ((self.next() as u128 * n as u128) >> 64) as u64
    }
    pub fn usize(&mut self, n: usize) -> usize {
        self.below(n as u64) as usize
    }
    pub fn range(&mut self, lo: u64, hi_incl: u64) -> u64 {
        lo + self.below(hi_incl - lo + 1)
    }
    pub fn bool(&mut self) -> bool {
        self.next() & 1 == 1
    }
    /// true with probability num/den
    pub fn chance(&mut self, num: u64, den: u64) -> bool {
        self.below(den) < num
    }
    pub fn pick<'a, T>(&mut self, xs: &'a [T]) -> &'a T {
        &xs[self.usize(xs.len())]
    }
    pub fn bytes(&mut self, n: usize) -> Vec<u8> {
        let mut v = Vec::with_capacity(n);
        while v.len() < n {
            let x = self.next().to_le_bytes();
            let k = (n - v.len()).min(8);
            v.extend_from_slice(&x[..k]);
        }
        v
    }
    pub fn shuffle<T>(&mut self, xs: &mut [T]) {
        for i in (1..xs.len()).rev() {
            let j = self.usize(i + 1);
            xs.swap(i, j);
        }
    }
}

pub fn hex(b: &[u8]) -> String {
    let mut s = String::with_capacity(b.len() * 2);
    for x in b {
        s.push_str(&format!("{x:02x}"));
    }
    s
}

pub fn unhex(s: &str) -> Vec<u8> {
    let s: Vec<u8> = s.bytes().filter(|c| c.is_ascii_hexdigit()).collect();
    s.chunks(2)
        .map(|c| u8::from_str_radix(std::str::from_utf8(c).unwrap(), 16).unwrap())
        .collect()
}

pub fn hex_short(b: &[u8]) -> String {
    if b.len() <= 96 {
        hex(b)
    } else {
        format!("{}..(+{} bytes)..{}", hex(&b[..64]), b.len() - 80, hex(&b[b.len() - 16..]))
    }
}
