//! C15 — MQTT 5 DISCONNECT: at most once, never after the peer's, names the cause.
//!
//! Enumerates ordered sequences (with repetition) of close initiators on a v5 server and a v5
//! client connection, each with every "run to quiescence between steps or not" schedule, every
//! control-service answer (none / own DISCONNECT / error) and idle/busy application state. The
//! oracle reads only the peer-side packet stream and the boundary event log.
use std::rc::Rc;

use serde_json::json;

use crate::app::{App, ControlAnswer, ControlPlan, Ev, Outcome, ProtoAnswer, ProtoPlan, PubPlan, ReadMode};
use crate::conn::{self, ConnCfg, Role};
use crate::explore::{Run, exec};
use crate::pool::{self, Rng};
use crate::refcodec::{Packet as R, Prop};
use crate::report::{Opts, Report, Tier, Violation};
use crate::sink::{Op, PubSpec, next_op_id};

#[derive(Debug, Clone, Copy, PartialEq, Eq, Hash)]
pub enum Viol {
    TooLarge,
    RecvMax,
    Qos,
    Retain,
    SubId,
    AliasUnknown,
    AliasExceeds,
    BadFilter,
    Malformed,
    Unexpected,
    /// an acknowledgement nobody is waiting for
    UnexpectedAck,
}

impl Viol {
    /// the code MQTT 5 dedicates to this cause (None: any error code)
    fn dedicated(self) -> Option<u8> {
        match self {
            Viol::TooLarge => Some(0x95),
            Viol::RecvMax => Some(0x93),
            Viol::Qos => Some(0x9B),
            Viol::Retain => Some(0x9A),
            Viol::SubId => Some(0xA1),
            Viol::AliasUnknown => Some(0x94),
            _ => None,
        }
    }
}

#[derive(Debug, Clone, Copy, PartialEq, Eq, Hash)]
pub enum Init {
    Close,
    CloseReason,
    CloseNoReason,
    ForceClose,
    ProtoDisc,
    ProtoDiscWith,
    ProtoErr,
    V(Viol),
    HandlerErr,
    PeerDisc,
    PeerDiscExpiry,
    /// peer DISCONNECT whose handler closes the sink itself (close() / close_with_reason) before acking
    PeerDiscAppCloses,
    PeerDiscAppClosesWith,
    /// server: the CONNECT carried a Session Expiry Interval of 60 s, so a DISCONNECT that sets
    /// another non-zero interval is perfectly valid
    PeerDiscExpiryOk,
    /// the same, and the CONNACK carried the server's own Session Expiry Interval 0 (which does
    /// not change what the client may send)
    PeerDiscExpiryOkOverride,
    /// close() and, without letting anything else run, further sends
    CloseThenSend,
    /// DISCONNECT that carries the Session Expiry Interval property with the value 0 on a
    /// connection whose CONNECT had Session Expiry 0: explicit, but perfectly valid
    PeerDiscExpiryZero,
}

impl Init {
    fn is_error(self) -> bool {
        matches!(self, Init::V(_) | Init::HandlerErr | Init::ProtoErr | Init::PeerDiscExpiry)
    }
    fn app_supplies_packet(self) -> bool {
        matches!(self, Init::Close | Init::CloseThenSend | Init::CloseReason | Init::ProtoDisc | Init::ProtoDiscWith | Init::PeerDiscAppCloses | Init::PeerDiscAppClosesWith)
    }
}

pub fn alphabet(role: Role) -> Vec<Init> {
    let mut v = vec![Init::Close, Init::CloseReason, Init::CloseNoReason, Init::ForceClose, Init::HandlerErr, Init::PeerDisc, Init::PeerDiscExpiry, Init::PeerDiscAppCloses, Init::PeerDiscAppClosesWith, Init::V(Viol::UnexpectedAck), Init::CloseThenSend];
    if role.is_server() {
        // (a server must not send Session Expiry in DISCONNECT at all [MQTT-3.14.2-2]: the variants
        // with that property are valid only towards a server)
        v.extend([Init::ProtoDisc, Init::ProtoDiscWith, Init::ProtoErr, Init::PeerDiscExpiryOk, Init::PeerDiscExpiryOkOverride, Init::PeerDiscExpiryZero]);
        for k in [Viol::TooLarge, Viol::RecvMax, Viol::Qos, Viol::Retain, Viol::SubId, Viol::AliasUnknown, Viol::AliasExceeds, Viol::BadFilter, Viol::Malformed] {
            v.push(Init::V(k));
        }
    } else {
        for k in [Viol::TooLarge, Viol::RecvMax, Viol::AliasUnknown, Viol::AliasExceeds, Viol::Unexpected, Viol::Malformed] {
            v.push(Init::V(k));
        }
    }
    v
}

#[derive(Debug, Clone)]
pub struct Case {
    pub role: Role,
    pub seq: Vec<Init>,
    /// bit i set: run to quiescence after step i (the last step is always followed by one)
    pub settle: u32,
    pub ctl: ControlAnswer,
    pub busy: bool,
    /// the control service is slow: Stop is only answered in the epilogue
    pub ctl_gated: bool,
}

pub struct Outc {
    pub violations: Vec<(String, String)>,
    pub log: Vec<String>,
    pub sig: u64,
    pub disconnects: Vec<u8>,
    pub o3_decided: bool,
    pub code_checked: bool,
    pub first_settled: bool,
}

fn publ(qos: u8, pid: u16, topic: &str, props: Vec<Prop>, n: usize, retain: bool) -> R {
    R::Publish { dup: false, qos, retain, topic: topic.into(), pid: (qos > 0).then_some(pid), props, payload: vec![7; n] }
}

pub async fn run_case(case: &Case) -> Outc {
    let role = case.role;
    let app = App::new("c15");
    let mut cfg = ConnCfg::new(role);
    cfg.max_qos = 1;
    cfg.max_receive = 2;
    cfg.max_topic_alias = 4;
    cfg.session_expiry = 0;
    let expiry_ok = case.seq.iter().any(|i| matches!(i, Init::PeerDiscExpiryOk | Init::PeerDiscExpiryOkOverride));
    if expiry_ok {
        cfg.session_expiry = 60;
        if case.seq.contains(&Init::PeerDiscExpiryOkOverride) {
            cfg.hs.session_expiry = Some(0);
        }
    }
    if role.is_server() {
        cfg.max_size = 120;
        cfg.hs.retain_available = Some(false);
        cfg.hs.sub_ids_available = Some(false);
    } else {
        cfg.hs.max_packet_size = Some(120);
    }
    *app.stop_plan.borrow_mut() = Some(ControlPlan { gated: case.ctl_gated, answer: case.ctl.clone() });
    let mut c = conn::start(&cfg, app.clone()).await;
    let mut o = Outc { violations: vec![], log: vec![], sig: 0, disconnects: vec![], o3_decided: false, code_checked: false, first_settled: false };
    if !c.has_sink() {
        o.violations.push(("harness: handshake failed".into(), String::new()));
        return o;
    }
    let sink = c.sink();
    let mut ops: Vec<Op> = vec![];
    let mut next_pid = 20u16;
    if case.busy {
        app.pub_plans.borrow_mut().push_back(PubPlan { read: ReadMode::Eager, gated: true, outcome: Outcome::Ok });
        c.peer.send(&publ(1, 7, "busy/in", vec![], 4, false));
        let mut op = Op::new(&app, next_op_id(), "busy-out", sink.send_qos1(&PubSpec::new("busy/out", vec![1, 2])));
        op.start();
        ops.push(op);
        c.settle().await;
    }
    let handshake_wire = app.wire().len();

    for (i, init) in case.seq.iter().enumerate() {
        app.log(Ev::Note(format!("INIT {i} {init:?}")));
        match *init {
            Init::Close => sink.close(),
            Init::CloseThenSend => {
                sink.close();
                let _ = sink.send_qos0(&PubSpec::new("after/close", vec![2]));
                let mut op = Op::new(&app, next_op_id(), "after-close-q1", sink.send_qos1(&PubSpec::new("after/close1", vec![3])));
                op.start();
                ops.push(op);
            }
            Init::CloseReason => sink.close_with_reason(0x8B),
            Init::CloseNoReason => sink.close_with_no_reason(),
            Init::ForceClose => sink.force_close(),
            Init::ProtoDisc => {
                app.proto_plans.borrow_mut().push_back(ProtoPlan { gated: false, answer: ProtoAnswer::Disconnect });
                c.peer.send(&R::Subscribe { pid: 300 + i as u16, props: vec![], filters: vec![("pd/#".into(), 0)] });
            }
            Init::ProtoDiscWith => {
                app.proto_plans.borrow_mut().push_back(ProtoPlan { gated: false, answer: ProtoAnswer::DisconnectWith(0x97) });
                c.peer.send(&R::Subscribe { pid: 310 + i as u16, props: vec![], filters: vec![("pw/#".into(), 0)] });
            }
            Init::ProtoErr => {
                app.proto_plans.borrow_mut().push_back(ProtoPlan { gated: false, answer: ProtoAnswer::Err });
                c.peer.send(&R::PingReq);
            }
            Init::HandlerErr => {
                app.pub_plans.borrow_mut().push_back(PubPlan { read: ReadMode::Eager, gated: false, outcome: Outcome::Err });
                c.peer.send(&publ(0, 0, "he", vec![], 1, false));
            }
            Init::PeerDisc => {
                c.peer.send(&R::Disconnect { code: Some(0), props: None });
            }
            Init::PeerDiscAppCloses | Init::PeerDiscAppClosesWith => {
                app.proto_plans.borrow_mut().push_back(ProtoPlan { gated: false, answer: ProtoAnswer::CloseSinkThenAck((*init == Init::PeerDiscAppClosesWith).then_some(0x8B)) });
                c.peer.send(&R::Disconnect { code: Some(0), props: None });
            }
            Init::PeerDiscExpiryZero => {
                c.peer.send(&R::Disconnect { code: Some(0), props: Some(vec![Prop::U32(0x11, 0)]) });
            }
            Init::PeerDiscExpiry | Init::PeerDiscExpiryOk | Init::PeerDiscExpiryOkOverride => {
                c.peer.send(&R::Disconnect { code: Some(0), props: Some(vec![Prop::U32(0x11, 30)]) });
            }
            Init::V(k) => match k {
                Viol::TooLarge => {
                    c.peer.send(&publ(0, 0, "big", vec![], 300, false));
                }
                Viol::RecvMax => {
                    for _ in 0..3 {
                        app.pub_plans.borrow_mut().push_back(PubPlan { read: ReadMode::Eager, gated: true, outcome: Outcome::Ok });
                        c.peer.send(&publ(1, next_pid, "rm", vec![], 1, false));
                        next_pid += 1;
                    }
                }
                Viol::Qos => {
                    c.peer.send(&publ(2, next_pid, "q2", vec![], 1, false));
                    next_pid += 1;
                }
                Viol::Retain => {
                    // the library checks RETAIN only on QoS>0 publishes (a QoS 0 retained publish is delivered; see DESIGN.md observations)
                    app.pub_plans.borrow_mut().push_back(PubPlan { read: ReadMode::Eager, gated: true, outcome: Outcome::Ok });
                    c.peer.send(&publ(1, next_pid, "rt", vec![], 1, true));
                    next_pid += 1;
                }
                Viol::SubId => {
                    c.peer.send(&R::Subscribe { pid: 320 + i as u16, props: vec![Prop::VarInt(0x0B, 5)], filters: vec![("si/#".into(), 0)] });
                }
                Viol::AliasUnknown => {
                    c.peer.send(&publ(0, 0, "", vec![Prop::U16(0x23, 3)], 1, false));
                }
                Viol::AliasExceeds => {
                    c.peer.send(&publ(0, 0, "ax", vec![Prop::U16(0x23, 900)], 1, false));
                }
                Viol::BadFilter => {
                    c.peer.send(&R::Subscribe { pid: 330 + i as u16, props: vec![], filters: vec![("a/#/b".into(), 0)] });
                }
                Viol::UnexpectedAck => {
                    c.peer.send(&R::PubAck { pid: 77, code: Some(0), props: None });
                }
                Viol::Malformed => c.peer.send_bytes(&[0x00, 0x00], "reserved packet type 0"),
                Viol::Unexpected => {
                    c.peer.send(&R::Subscribe { pid: 340 + i as u16, props: vec![], filters: vec![("u/#".into(), 0)] });
                }
            },
        }
        if case.settle & (1 << i) != 0 || i + 1 == case.seq.len() {
            c.settle().await;
        }
    }
    // epilogue: things that must not produce output after the end
    app.log(Ev::Note("EPILOGUE".into()));
    app.open_all(Outcome::Ok);
    c.settle().await;
    let _ = sink.send_qos0(&PubSpec::new("after/end", vec![1]));
    if c.peer.is_open() && role.is_server() {
        c.peer.send(&R::PingReq);
    }
    c.settle().await;
    c.peer.close();
    c.settle().await;
    app.open_all(Outcome::Ok);
    c.settle().await;

    // ------------------------------------------------------------------ oracle
    let log = app.snapshot();
    let wire: Vec<(u64, R)> = app.wire().into_iter().skip(handshake_wire).collect();
    let what = format!("{case:?}");
    let discs: Vec<(usize, u64, u8)> = wire
        .iter()
        .enumerate()
        .filter_map(|(i, (s, p))| if let R::Disconnect { code, .. } = p { Some((i, *s, code.unwrap_or(0))) } else { None })
        .collect();
    o.disconnects = discs.iter().map(|d| d.2).collect();
    // O1
    if discs.len() > 1 {
        o.violations.push((format!("{} DISCONNECT packets written", discs.len()), format!("codes {:02x?} — {what}", o.disconnects)));
    }
    // O2
    if let Some((i, _, _)) = discs.first() {
        if *i + 1 < wire.len() {
            let after: Vec<String> = wire[i + 1..].iter().map(|(_, p)| crate::map::brief(p)).collect();
            o.violations.push(("packets written after the endpoint's own DISCONNECT".into(), format!("{after:?} — {what}")));
        }
        if c.peer.partial_tail() > 0 || c.peer.garbage.is_some() {
            o.violations.push(("bytes written after the endpoint's own DISCONNECT".into(), format!("{} trailing bytes — {what}", c.peer.partial_tail())));
        }
    }
    // O3: decidable when the peer's DISCONNECT arrived at a quiescent endpoint and was delivered
    for (i, init) in case.seq.iter().enumerate() {
        let valid_expiry = expiry_ok && matches!(init, Init::PeerDiscExpiry | Init::PeerDiscExpiryOk | Init::PeerDiscExpiryOkOverride);
        if !matches!(init, Init::PeerDisc | Init::PeerDiscExpiryZero | Init::PeerDiscAppCloses | Init::PeerDiscAppClosesWith) && !valid_expiry {
            continue;
        }
        let settled_before = i == 0 || case.settle & (1 << (i - 1)) != 0;
        let settled_after = i + 1 == case.seq.len() || case.settle & (1 << i) != 0;
        if !(settled_before && settled_after) {
            continue;
        }
        let note = format!("INIT {i} ");
        let Some(start) = log.iter().position(|(_, e)| matches!(e, Ev::Note(n) if n.starts_with(&note))) else { continue };
        let recv = log[start..].iter().find_map(|(s, e)| matches!(e, Ev::ProtoEnter { kind: "disconnect", .. }).then_some(*s));
        if let Some(r) = recv {
            o.o3_decided = true;
            if let Some(d) = discs.iter().find(|d| d.1 > r) {
                o.violations.push(("DISCONNECT written after the peer's DISCONNECT had been received".into(), format!("code 0x{:02x} — {what}", d.2)));
            }
        } else if i == 0 {
            // the very first thing that happens on a healthy, quiescent connection is a valid
            // DISCONNECT from the peer: whether or not the application got to see it, whatever
            // DISCONNECT the endpoint writes now comes after it
            let sent = log[start].0;
            if let Some(d) = discs.iter().find(|d| d.1 > sent) {
                o.o3_decided = true;
                o.violations.push(("DISCONNECT written in answer to a valid DISCONNECT of the peer".into(), format!("code 0x{:02x} — {what}", d.2)));
            }
        }
        break;
    }
    // O4 / O5: cause naming
    let app_packet = case.seq.iter().any(|i| i.app_supplies_packet()) || matches!(case.ctl, ControlAnswer::OwnDisconnect(_));
    if !app_packet {
        for d in &discs {
            if d.2 == 0 {
                o.violations.push(("DISCONNECT claims normal disconnection although the application supplied no packet and the connection ended with an error".into(), what.clone()));
            }
        }
    }
    let first = case.seq[0];
    let first_settled = case.seq.len() == 1 || case.settle & 1 != 0;
    o.first_settled = first_settled;
    // with a slow control service the application may legitimately get in first with its own close
    let app_acts_later = case.seq[1..].iter().any(|i| matches!(i, Init::Close | Init::CloseThenSend | Init::CloseReason | Init::CloseNoReason | Init::ForceClose));
    let first_is_error = first.is_error() && !(expiry_ok && first == Init::PeerDiscExpiry);
    if first_is_error && first_settled && case.ctl == ControlAnswer::None && !(case.ctl_gated && app_acts_later) {
        o.code_checked = true;
        match discs.first() {
            // "it carries exactly that code" presupposes a DISCONNECT for the causes with a dedicated
            // code; for other errors the statement only constrains a DISCONNECT that is written
            None => {
                if matches!(first, Init::V(k) if k.dedicated().is_some()) {
                    o.violations.push((format!("no DISCONNECT written for {first:?} (peer was reading, application supplied none)"), what.clone()));
                }
            }
            Some(d) => {
                if d.2 == 0 {
                    o.violations.push((format!("DISCONNECT for {first:?} claims normal disconnection"), what.clone()));
                } else if let Init::V(k) = first {
                    if let Some(code) = k.dedicated() {
                        if d.2 != code {
                            o.violations.push((format!("DISCONNECT for {k:?} carries 0x{:02x}, MQTT 5 assigns 0x{code:02x}", d.2), what.clone()));
                        }
                    }
                }
            }
        }
    }
    let _ = (&ops, Rc::strong_count(&app));
    o.sig = app.trace_signature();
    o.log = app.render(70);
    c.finish().await;
    o
}

fn ctl_of(i: u64) -> ControlAnswer {
    match i % 3 {
        0 => ControlAnswer::None,
        1 => ControlAnswer::OwnDisconnect(0x83),
        _ => ControlAnswer::Err,
    }
}

/// enumerate: index -> case. Layout per role: all sequences of length 1..=max_len x settle masks x ctl x busy
pub fn enumerate(max_len: usize) -> Vec<Case> {
    let mut v = Vec::new();
    for role in [Role::V5Server, Role::V5Client] {
        let a = alphabet(role);
        let mut seqs: Vec<Vec<Init>> = a.iter().map(|i| vec![*i]).collect();
        let mut all = seqs.clone();
        for _ in 1..max_len {
            let mut next = Vec::new();
            for s in &seqs {
                for i in &a {
                    let mut t = s.clone();
                    t.push(*i);
                    next.push(t);
                }
            }
            all.extend(next.iter().cloned());
            seqs = next;
        }
        for seq in all {
            let masks = 1u32 << (seq.len() - 1);
            for settle in 0..masks {
                for ctl in 0..3 {
                    for busy in [false, true] {
                        for ctl_gated in [false, true] {
                            v.push(Case { role, seq: seq.clone(), settle, ctl: ctl_of(ctl), busy, ctl_gated });
                        }
                    }
                }
            }
        }
    }
    v
}

fn random_case(rng: &mut Rng, len: usize) -> Case {
    let role = if rng.below(2) == 0 { Role::V5Server } else { Role::V5Client };
    let a = alphabet(role);
    let seq: Vec<Init> = (0..len).map(|_| a[rng.below(a.len() as u64) as usize]).collect();
    Case { role, seq, settle: rng.below(1 << (len - 1)) as u32, ctl: ctl_of(rng.below(3)), busy: rng.below(2) == 0, ctl_gated: rng.below(2) == 0 }
}

fn case_json(c: &Case) -> serde_json::Value {
    json!({"role": c.role.name(), "seq": c.seq.iter().map(|i| format!("{i:?}")).collect::<Vec<_>>(), "settle": c.settle, "ctl": format!("{:?}", c.ctl), "busy": c.busy, "ctl_gated": c.ctl_gated})
}

fn parse_case(v: &serde_json::Value) -> Option<Case> {
    let role = if v["role"].as_str()? == Role::V5Server.name() { Role::V5Server } else { Role::V5Client };
    let a = alphabet(role);
    let seq = v["seq"].as_array()?.iter().map(|s| a.iter().copied().find(|i| format!("{i:?}") == s.as_str().unwrap_or(""))).collect::<Option<Vec<_>>>()?;
    let ctl = match v["ctl"].as_str()? {
        "None" => ControlAnswer::None,
        "Err" => ControlAnswer::Err,
        _ => ControlAnswer::OwnDisconnect(0x83),
    };
    Some(Case { role, seq, settle: v["settle"].as_u64()? as u32, ctl, busy: v["busy"].as_bool()?, ctl_gated: v["ctl_gated"].as_bool().unwrap_or(false) })
}

pub fn run(opts: &Opts) -> i32 {
    let rep = Report::new(
        opts,
        "exploration",
        "v5 server and v5 client: every ordered sequence (with repetition) of close initiators up to length 2 (quick) / 3 (thorough), \
         each with every settle/no-settle schedule between steps, three control-service answers and idle/busy application state; \
         thorough adds random sequences of length 4-5. Oracle over the peer-side packet stream: at most one DISCONNECT, nothing after it, \
         none after the peer's was delivered, error-caused DISCONNECTs never claim normal disconnection and dedicated causes carry their code. \
         distinct = distinct boundary-event trace signatures",
    );
    if let Some(p) = &opts.replay {
        return replay(p);
    }
    let quick = opts.tier == Tier::Quick;
    let mut cases = enumerate(if quick { 2 } else { 3 });
    let exhaustive_n = cases.len();
    let mut rng = Rng::for_case(opts.seed, "c15", 0);
    let extra = if quick { 3000 } else { 40000 };
    for i in 0..extra {
        let len = if quick { 3 } else { 4 + (i % 2) };
        cases.push(random_case(&mut rng, len));
    }
    rep.extra("exhaustive_cases", json!(exhaustive_n));
    rep.extra("random_cases", json!(extra));
    pool::par_for(cases.len() as u64, None, |i| {
        let case = &cases[i as usize];
        let r = exec(run_case(case));
        rep.eval();
        match &r {
            Run::Done(o, _) => {
                rep.distinct(o.sig);
                rep.count(&format!("disconnects_written_{}", o.disconnects.len()), 1);
                for d in &o.disconnects {
                    rep.observe("disconnect_codes", &format!("0x{d:02x}"));
                }
                rep.count("peer_disconnect_delivered_cases(O3 decided)", o.o3_decided as u64);
                rep.count("cause_code_checked_cases", o.code_checked as u64);
                if i % 997 == 0 {
                    rep.sample(6, || json!({"case": case_json(case), "log": o.log}));
                }
                for (class, what) in &o.violations {
                    rep.violation(Violation {
                        signature: format!("{}: {}", case.role.name(), pool::abstract_numbers(class)),
                        what: format!("{class} — {what}"),
                        replay: json!({"case": case_json(case), "log": o.log}),
                    });
                }
            }
            Run::Panic(p, tail) => rep.violation(Violation { signature: format!("{}: {}", case.role.name(), p.signature()), what: format!("panic: {} at {} — {case:?}", p.msg, p.location), replay: json!({"case": case_json(case), "log": tail}) }),
            Run::Livelock(tail) => rep.violation(Violation { signature: format!("{}: live-lock", case.role.name()), what: format!("never quiescent — {case:?}"), replay: json!({"case": case_json(case), "log": tail}) }),
            Run::Watchdog => rep.inconclusive(format!("watchdog {case:?}")),
        }
        r.after()
    });
    rep.set_exhaustive(false);
    rep.assume("keep-alive timeout (0x8D) is a real-time cause and is checked in C20");
    rep.assume("'received the peer's DISCONNECT' is decided only when it arrived at a quiescent endpoint and was delivered to the application's protocol service");
    rep.require("peer_disconnect_delivered_cases(O3 decided)", 100);
    rep.require("cause_code_checked_cases", 100);
    rep.finish()
}

fn replay(path: &std::path::Path) -> i32 {
    let v: serde_json::Value = serde_json::from_str(&std::fs::read_to_string(path).expect("replay file")).expect("json");
    let Some(case) = parse_case(&v["replay"]["case"]) else {
        println!("cannot parse replay case");
        return 2;
    };
    println!("replaying {case:?}");
    match exec(run_case(&case)) {
        Run::Done(o, _) => {
            for l in &o.log {
                println!("{l}");
            }
            println!("violations: {:?}", o.violations);
            if o.violations.is_empty() {
                0
            } else {
                println!("VIOLATION property=C15 replay={}", path.display());
                1
            }
        }
        Run::Panic(p, tail) => {
            for l in &tail {
                println!("{l}");
            }
            println!("panic {} at {}\nVIOLATION property=C15 replay={}", p.msg, p.location, path.display());
            1
        }
        Run::Livelock(_) => {
            println!("live-lock\nVIOLATION property=C15 replay={}", path.display());
            1
        }
        Run::Watchdog => 2,
    }
}
