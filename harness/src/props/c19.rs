//! C19 — handshake gate, version routing, and negotiated limits are the ones enforced.
//!
//! Part A (gate): every first packet (all packet templates of both versions, CONNECT with every
//!   protocol name / level / reserved-flag variation) x handshake outcome (accept / refuse / error
//!   / slow accept / slow refuse) x trailing packets written together with CONNECT or later, on
//!   the v3, v5 and combined servers. Oracle over the event log: no handler before the handshake
//!   service accepted; everything that is not an acceptable CONNECT ends the connection.
//! Part B (version routing): combined server, CONNECT level 4 / 5 followed by PUBLISH + PINGREQ,
//!   cut at every subset of the first 16 byte boundaries; the right service must run and no byte
//!   may be lost. Plus a differential of the sniffing codec (hook) against the reference parser.
//! Part C (limits): configured vs CONNECT-requested vs handshake-overridden values; each limit is
//!   probed behaviourally after the handshake and compared with the reference negotiation rules.
use std::rc::Rc;

use serde_json::json;

use crate::app::{App, Ev, GateKind, Outcome, PubPlan, ReadMode, SinkRes, StopClass};
use crate::conn::{self, Conn, ConnCfg, Role};
use crate::explore::{Run, exec};
use crate::pool::{self, Rng};
use crate::refcodec::{self, Packet as R, Prop, Ver};
use crate::report::{Opts, Report, Tier, Violation};
use crate::sink::{Op, PubSpec, Sink, next_op_id};

// =============================================================================== part A: gate

#[derive(Debug, Clone, Copy, PartialEq, Eq)]
pub enum Srv {
    V3,
    V5,
    CombinedV3,
    CombinedV5,
}

impl Srv {
    fn role(self) -> Role {
        match self {
            Srv::V3 | Srv::CombinedV3 => Role::V3Server,
            Srv::V5 | Srv::CombinedV5 => Role::V5Server,
        }
    }
    fn combined(self) -> bool {
        matches!(self, Srv::CombinedV3 | Srv::CombinedV5)
    }
    fn name(self) -> &'static str {
        match self {
            Srv::V3 => "v3/server",
            Srv::V5 => "v5/server",
            Srv::CombinedV3 => "combined(v3 peer)",
            Srv::CombinedV5 => "combined(v5 peer)",
        }
    }
}

#[derive(Debug, Clone, Copy, PartialEq, Eq)]
pub enum Hs {
    Accept,
    Refuse,
    Error,
    SlowAccept,
    SlowRefuse,
}

#[derive(Debug, Clone)]
pub struct First {
    pub name: String,
    pub bytes: Vec<u8>,
    /// Some(level): an acceptable CONNECT of that protocol level
    pub valid_connect: Option<u8>,
    /// the library may or may not support this (MQTT 3.1 "MQIsdp"): either outcome is accepted
    pub dont_care: bool,
}

fn raw_connect(name: &[u8], level: u8, fh_flags: u8, connect_flags: u8, v5: bool) -> Vec<u8> {
    let mut body = Vec::new();
    body.extend_from_slice(&(name.len() as u16).to_be_bytes());
    body.extend_from_slice(name);
    body.push(level);
    body.push(connect_flags);
    body.extend_from_slice(&[0, 0]); // keep-alive
    if v5 {
        body.push(0); // properties
    }
    body.extend_from_slice(&[0, 1, b'c']);
    let mut out = vec![0x10 | fh_flags];
    out.extend(refcodec::encode_varint(body.len() as u32));
    out.extend(body);
    out
}

pub fn first_packets(srv: Srv) -> Vec<First> {
    let ver = srv.role().ver();
    let v5 = ver == Ver::V5;
    let mut v = Vec::new();
    // every packet template of this version (index 0 is a good CONNECT)
    for (i, t) in super::c16::alphabet(ver).into_iter().enumerate() {
        if t.owed_delta < 0 {
            continue;
        }
        v.push(First { name: t.name.to_string(), bytes: t.bytes, valid_connect: (i == 0).then_some(if v5 { 5 } else { 4 }), dont_care: false });
    }
    // packets of the other version too (a v3 server may see a v5 CONNECT and vice versa)
    let other = if v5 { Ver::V3 } else { Ver::V5 };
    let oc = super::c16::alphabet(other).remove(0);
    v.push(First {
        name: format!("CONNECT(other version {:?})", other),
        bytes: oc.bytes,
        valid_connect: srv.combined().then_some(if v5 { 4 } else { 5 }),
        dont_care: false,
    });
    let names: [&[u8]; 6] = [b"MQTT", b"MQIsdp", b"MQTX", b"mqtt", b"", b"MQTTT"];
    for name in names {
        for level in [0u8, 3, 4, 5, 6, 0x84] {
            for fh in [0u8, 1, 8] {
                for cf in [0x02u8, 0x03] {
                    let body_v5 = level == 5 || (level != 4 && level != 3 && v5);
                    let ok_level = if srv.combined() { level == 4 || level == 5 } else { level == if v5 { 5 } else { 4 } };
                    let valid = name == b"MQTT" && ok_level && fh == 0 && cf & 1 == 0;
                    v.push(First {
                        name: format!("CONNECT(name={:?} level={level} fh-flags={fh} connect-flags={cf:#04x})", String::from_utf8_lossy(name)),
                        bytes: raw_connect(name, level, fh, cf, body_v5),
                        valid_connect: valid.then_some(level),
                        dont_care: name == b"MQIsdp" && level == 3 && fh == 0 && cf & 1 == 0,
                    });
                }
            }
        }
    }
    v
}

#[derive(Debug, Clone)]
pub struct GateCase {
    pub srv: Srv,
    pub first: usize,
    pub hs: Hs,
    /// trailing PUBLISH(qos1)+SUBSCRIBE written in the same batch as the first packet
    pub trailing_with_first: bool,
}

pub struct GateOut {
    pub violations: Vec<(String, String)>,
    pub log: Vec<String>,
    pub sig: u64,
    pub accepted: bool,
    pub ended: bool,
}

pub async fn run_gate(case: &GateCase, firsts: &[First]) -> GateOut {
    let f = &firsts[case.first];
    let role = case.srv.role();
    let app = App::new("c19a");
    let mut cfg = ConnCfg::new(role);
    cfg.combined = case.srv.combined();
    cfg.hs.accept = matches!(case.hs, Hs::Accept | Hs::SlowAccept);
    cfg.hs.error = case.hs == Hs::Error;
    cfg.hs.gated = matches!(case.hs, Hs::SlowAccept | Hs::SlowRefuse);
    // the version the accepted connection will speak
    let speak = match f.valid_connect {
        Some(5) => Ver::V5,
        Some(4) => Ver::V3,
        _ => role.ver(),
    };
    cfg.hs.refuse_code = if speak == Ver::V5 { 0x87 } else { 0x05 };
    let mut c = conn::start_server_raw(&cfg, app.clone()).await;
    c.peer.ver = speak;
    c.peer.reset_decoder(speak);
    let v5 = speak == Ver::V5;
    let trailing: Vec<R> = vec![
        R::Publish { dup: false, qos: 1, retain: false, topic: "g/t".into(), pid: Some(5), props: vec![], payload: vec![1, 2, 3] },
        R::Subscribe { pid: 6, props: vec![], filters: vec![("g/#".into(), 0)] },
    ];
    let mut o = GateOut { violations: vec![], log: vec![], sig: 0, accepted: false, ended: false };
    app.log(Ev::PeerSent(f.name.clone()));
    c.peer.write_quiet(&f.bytes);
    if case.trailing_with_first {
        for p in &trailing {
            let b = refcodec::encode(speak, p).unwrap();
            app.log_peer(p);
            c.peer.write_part(&b);
        }
    }
    c.settle().await;
    if cfg.hs.gated {
        // slow handshake: more traffic arrives while the handshake service is still deciding
        let mid = R::Publish { dup: false, qos: 0, retain: false, topic: "g/mid".into(), pid: None, props: vec![], payload: vec![9] };
        app.log_peer(&mid);
        c.peer.write_part(&refcodec::encode(speak, &mid).unwrap());
        c.settle().await;
        let early = app.count(|e| matches!(e, Ev::PubEnter { .. } | Ev::ProtoEnter { .. }));
        if early > 0 {
            o.violations.push(("handler invoked while the handshake service had not answered yet".into(), format!("{case:?} first={}", f.name)));
        }
        app.open_gate((GateKind::Handshake, 0), Outcome::Ok);
        c.settle().await;
    }
    if !case.trailing_with_first {
        for p in &trailing {
            if c.peer.is_open() {
                app.log_peer(p);
                c.peer.write_part(&refcodec::encode(speak, p).unwrap());
            }
        }
        c.settle().await;
    }
    let _ = v5;
    // ---------------------------------------------------------------- oracle
    let log = app.snapshot();
    let what = format!("{} first={} hs={:?} trailing_with_first={}", case.srv.name(), f.name, case.hs, case.trailing_with_first);
    let accept_seq = log.iter().find_map(|(s, e)| matches!(e, Ev::HandshakeExit(x) if x == "accept").then_some(*s));
    let hs_entered = log.iter().any(|(_, e)| matches!(e, Ev::HandshakeEnter));
    let first_handler = log.iter().find_map(|(s, e)| matches!(e, Ev::PubEnter { .. } | Ev::ProtoEnter { .. }).then_some(*s));
    let wire = app.wire();
    o.accepted = accept_seq.is_some();
    o.ended = c.done() || c.peer.endpoint_closed();
    match (first_handler, accept_seq) {
        (Some(h), Some(a)) if h < a => o.violations.push(("handler invoked before the handshake was accepted".into(), what.clone())),
        (Some(_), None) => o.violations.push(("handler invoked although no CONNECT was accepted".into(), what.clone())),
        _ => {}
    }
    let expect_hs = f.valid_connect.is_some();
    if !f.dont_care {
        if expect_hs != hs_entered {
            o.violations.push((
                if hs_entered { "handshake service invoked for a first packet that is not an acceptable CONNECT".into() } else { "acceptable CONNECT did not reach the handshake service".into() },
                what.clone(),
            ));
        }
        let should_accept = expect_hs && matches!(case.hs, Hs::Accept | Hs::SlowAccept);
        if should_accept {
            // CONNACK(0) is the first packet written, the trailing packets are then processed in order
            match wire.first() {
                Some((_, R::ConnAck { code: 0, .. })) => {}
                other => o.violations.push(("accepted handshake: first packet written is not a successful CONNACK".into(), format!("{other:?} — {what}"))),
            }
            let pubs = app.count(|e| matches!(e, Ev::PubEnter { topic, .. } if topic == "g/t"));
            let subs = app.count(|e| matches!(e, Ev::ProtoEnter { kind: "subscribe", .. }));
            if pubs != 1 || subs != 1 {
                o.violations.push(("packets that followed an accepted CONNECT were lost or duplicated".into(), format!("publish handler calls {pubs}, subscribe calls {subs} — {what}")));
            }
            if cfg.hs.gated && app.count(|e| matches!(e, Ev::PubEnter { topic, .. } if topic == "g/mid")) != 1 {
                o.violations.push(("packet sent during a slow handshake was lost or duplicated".into(), what.clone()));
            }
            if o.ended {
                o.violations.push(("connection ended after an accepted handshake".into(), what.clone()));
            }
        } else {
            if !o.ended {
                o.violations.push(("connection not ended after a refused / failed / impossible handshake".into(), what.clone()));
            }
            // what may be written: nothing, or exactly one refusing CONNACK
            let acks: Vec<u8> = wire.iter().filter_map(|(_, p)| if let R::ConnAck { code, .. } = p { Some(*code) } else { None }).collect();
            if wire.len() > 1 || wire.len() != acks.len() {
                o.violations.push(("something other than a single CONNACK was written on a connection that was never accepted".into(), format!("{:?} — {what}", wire.iter().map(|(_, p)| crate::map::brief(p)).collect::<Vec<_>>())));
            }
            if acks.iter().any(|c| *c == 0) {
                o.violations.push(("successful CONNACK written although the handshake was not accepted".into(), what.clone()));
            }
            if expect_hs && matches!(case.hs, Hs::Refuse | Hs::SlowRefuse) && acks != vec![cfg.hs.refuse_code] {
                o.violations.push(("refused handshake: the refusing CONNACK is missing or carries another code".into(), format!("{acks:02x?} — {what}")));
            }
        }
    }
    o.sig = app.trace_signature();
    o.log = app.render(40);
    c.finish().await;
    o
}

// ==================================================================== part B: version routing

#[derive(Debug, Clone)]
pub struct RouteCase {
    pub level: u8,
    /// bit i set = cut after byte i+1 (i in 0..15)
    pub cuts: u16,
    /// the first fragment is already in the connection's read buffer when the service is called
    pub prebuffered: bool,
    /// real time passes between the fragments (these cases run on threads of their own)
    pub pause: bool,
}

pub struct RouteOut {
    pub violations: Vec<(String, String)>,
    pub log: Vec<String>,
    pub sig: u64,
    pub fragments: usize,
    /// real-time pauses between fragments (server without a version-detection deadline)
    pub pauses: usize,
}

pub async fn run_route(case: &RouteCase) -> RouteOut {
    let role = if case.level == 5 { Role::V5Server } else { Role::V3Server };
    let ver = role.ver();
    let app = App::new("c19b");
    let mut cfg = ConnCfg::new(role);
    cfg.combined = true;
    // half of the cases run without a deadline for the version detection (time-out set to zero)
    cfg.version_timeout_off = case.pause || (case.cuts.count_ones() + case.prebuffered as u32) % 2 == 1;
    if case.prebuffered {
        app.extra.borrow_mut().insert("prebuffer".into(), "1".into());
    }
    let mut c = conn::start_server_raw(&cfg, app.clone()).await;
    let mut stream = refcodec::encode(ver, &cfg.peer_connect()).unwrap();
    let connect_len = stream.len();
    let payload: Vec<u8> = (0..10u8).collect();
    stream.extend(refcodec::encode(ver, &R::Publish { dup: false, qos: 1, retain: false, topic: "v/t".into(), pid: Some(9), props: vec![], payload: payload.clone() }).unwrap());
    stream.extend(refcodec::encode(ver, &R::PingReq).unwrap());
    app.log(Ev::PeerSent(format!("CONNECT(level {}) + PUBLISH + PINGREQ, cuts {:#06x}", case.level, case.cuts)));
    let mut start = 0usize;
    let mut fragments = 0usize;
    let mut pauses = 0usize;
    for i in 0..15usize {
        if case.cuts & (1 << i) != 0 && i + 1 < stream.len() {
            c.peer.write_quiet(&stream[start..=i]);
            start = i + 1;
            fragments += 1;
            c.settle().await;
            if case.pause {
                // no deadline: real time may pass between the fragments
                ntex_util::time::sleep(ntex_util::time::Millis(15)).await;
                c.settle().await;
                pauses += 1;
            }
        }
    }
    c.peer.write_quiet(&stream[start..]);
    fragments += 1;
    c.settle().await;
    let _ = connect_len;
    let mut o = RouteOut { violations: vec![], log: vec![], sig: 0, fragments, pauses };
    let what = format!("{case:?}");
    let sink_ver = app.sink.borrow().as_ref().map(|s| if matches!(s, Sink::V5(_)) { 5 } else { 4 });
    if sink_ver != Some(case.level) {
        o.violations.push(("combined server handed the connection to the wrong protocol service (or to none)".into(), format!("service {sink_ver:?} — {what}")));
    } else {
        let wire = app.wire();
        let kinds: Vec<String> = wire.iter().map(|(_, p)| crate::map::brief(p)).collect();
        let ok = wire.len() == 3 && matches!(&wire[0].1, R::ConnAck { code: 0, .. }) && matches!(&wire[1].1, R::PubAck { pid: 9, .. }) && matches!(&wire[2].1, R::PingResp) && c.peer.garbage.is_none();
        if !ok {
            o.violations.push(("bytes following the sniffed CONNECT were lost or misinterpreted".into(), format!("wrote {kinds:?} — {what}")));
        }
        let got: Vec<Vec<u8>> = app.snapshot().iter().filter_map(|(_, e)| if let Ev::PubPayload { bytes, .. } = e { Some(bytes.clone()) } else { None }).collect();
        if got != vec![payload] {
            o.violations.push(("publish after the sniffed CONNECT delivered with wrong payload".into(), format!("{got:?} — {what}")));
        }
    }
    o.sig = app.trace_signature() ^ (fragments as u64);
    o.log = app.render(30);
    c.finish().await;
    o
}

/// reference version sniffing: what a complete parser says about a prefix
fn ref_sniff(b: &[u8]) -> Result<Option<u8>, ()> {
    if b.len() < 2 {
        return Ok(None);
    }
    // remaining length
    let mut i = 1;
    let mut n = 0;
    loop {
        if i >= b.len() {
            return Ok(None);
        }
        let byte = b[i];
        i += 1;
        n += 1;
        if byte & 0x80 == 0 {
            break;
        }
        if n == 4 {
            return Err(());
        }
    }
    if b[0] != 0x10 {
        return Err(());
    }
    if b.len() < i + 7 {
        return Ok(None);
    }
    if b[i..i + 2] != [0, 4] || &b[i + 2..i + 6] != b"MQTT" {
        return Err(());
    }
    match b[i + 6] {
        4 => Ok(Some(4)),
        5 => Ok(Some(5)),
        _ => Err(()),
    }
}

#[cfg(feature = "hooks")]
fn lib_sniff(b: &[u8]) -> Result<Option<u8>, ()> {
    let mut buf = ntex_bytes::BytesMut::from(b);
    let r = ntex_mqtt::verif::sniff_version(&mut buf).map_err(|_| ());
    // the sniffer must leave the buffer untouched
    if buf.as_ref() != b {
        return Err(());
    }
    r
}

// ============================================================================ part C: limits

#[derive(Debug, Clone)]
pub struct LimCase {
    pub role: Role,
    pub cfg_qos: u8,
    pub hs_qos: Option<u8>,
    pub cfg_alias: u16,
    pub hs_alias: Option<u16>,
    pub cfg_recv: u16,
    pub hs_recv: Option<u16>,
    pub cfg_size: u32,
    pub hs_size: Option<u32>,
    pub cfg_send: u16,
    pub hs_send: Option<u16>,
    pub peer_recv: Option<u16>,
    pub peer_size: Option<u32>,
    pub ka: u16,
    pub hs_ka: Option<u16>,
    pub probe: Probe,
}

#[derive(Debug, Clone, Copy, PartialEq, Eq)]
pub enum Probe {
    Announce,
    Qos(u8),
    /// alias = effective maximum + delta
    Alias(i8),
    /// number of gated QoS 1 publishes = effective maximum + delta
    Recv(i8),
    /// packet size = effective maximum + delta
    SizeIn(i8),
    Window,
    SizeOut(i8),
}

#[derive(Debug, Default, Clone)]
pub struct Eff {
    pub qos: u8,
    pub alias: u16,
    /// 0 = unlimited
    pub recv: u32,
    /// 0 = unlimited
    pub size_in: u32,
    pub window: u32,
    /// 0 = unlimited
    pub size_out: u32,
    /// v5 server: value that must be announced as Server Keep Alive (None = nothing imposed)
    pub ka_announced: Option<u16>,
}

/// the reference negotiation rules
pub fn effective(c: &LimCase) -> Eff {
    let nz16 = |v: Option<u16>| v.filter(|x| *x != 0);
    match c.role {
        Role::V5Server => Eff {
            qos: c.hs_qos.unwrap_or(c.cfg_qos),
            alias: c.hs_alias.unwrap_or(c.cfg_alias),
            recv: nz16(c.hs_recv).unwrap_or(c.cfg_recv) as u32,
            size_in: c.hs_size.unwrap_or(c.cfg_size),
            window: (nz16(c.hs_send).unwrap_or(c.cfg_send) as u32).min(c.peer_recv.map_or(65535, |v| v as u32)),
            size_out: c.peer_size.unwrap_or(0),
            ka_announced: c.hs_ka,
        },
        Role::V3Server => Eff {
            qos: c.cfg_qos,
            alias: 0,
            recv: c.cfg_recv as u32,
            size_in: c.hs_size.filter(|x| *x != 0).unwrap_or(c.cfg_size),
            window: nz16(c.hs_send).unwrap_or(c.cfg_send) as u32,
            size_out: 0,
            ka_announced: None,
        },
        Role::V5Client => Eff {
            qos: 2,
            alias: c.hs_alias.unwrap_or(0),
            // (for this role `hs_recv: Some(_)` stands for "the application sets no Receive Maximum
            // in CONNECT": the protocol default applies, not the service configuration)
            recv: if c.hs_recv.is_some() { 65535 } else { c.cfg_recv as u32 },
            size_in: c.hs_size.unwrap_or(0),
            window: (c.cfg_send as u32).min(c.peer_recv.map_or(65535, |v| v as u32)),
            size_out: c.peer_size.unwrap_or(0),
            ka_announced: None,
        },
        Role::V3Client => Eff { qos: 2, alias: 0, recv: c.cfg_recv as u32, size_in: c.cfg_size, window: c.cfg_send as u32, size_out: 0, ka_announced: None },
    }
}

fn lim_cfg(c: &LimCase) -> ConnCfg {
    let mut cfg = ConnCfg::new(c.role);
    cfg.max_qos = c.cfg_qos;
    cfg.max_topic_alias = c.cfg_alias;
    cfg.max_receive = c.cfg_recv;
    cfg.max_size = c.cfg_size;
    cfg.max_send = c.cfg_send;
    cfg.keep_alive = c.ka;
    cfg.inflight_middleware = true;
    match c.role {
        Role::V5Server | Role::V3Server => {
            cfg.hs.max_qos = c.hs_qos;
            cfg.hs.topic_alias_max = c.hs_alias;
            cfg.hs.receive_max = c.hs_recv;
            cfg.hs.max_packet_size = c.hs_size;
            cfg.hs.max_send = c.hs_send;
            cfg.hs.keepalive = c.hs_ka;
            cfg.peer_receive_max = c.peer_recv;
            cfg.peer_max_packet_size = c.peer_size;
        }
        Role::V5Client => {
            cfg.client_topic_alias_max = c.hs_alias;
            cfg.client_receive_max_unset = c.hs_recv.is_some();
            cfg.hs.max_packet_size = c.hs_size;
            let mut props = vec![];
            if let Some(r) = c.peer_recv {
                props.push(Prop::U16(0x21, r));
            }
            if let Some(s) = c.peer_size {
                props.push(Prop::U32(0x27, s));
            }
            cfg.connack_props = props;
        }
        Role::V3Client => {}
    }
    cfg
}

pub struct LimOut {
    pub violations: Vec<(String, String)>,
    pub log: Vec<String>,
    pub sig: u64,
    pub applicable: bool,
}

fn publish_of_size(ver: Ver, total: usize, qos: u8, pid: u16, topic: &str) -> Option<R> {
    // find the payload length that makes the whole packet `total` bytes long
    for n in 0..=total {
        let p = R::Publish { dup: false, qos, retain: false, topic: topic.into(), pid: (qos > 0).then_some(pid), props: vec![], payload: vec![0x55; n] };
        let len = refcodec::encode(ver, &p).unwrap().len();
        if len == total {
            return Some(p);
        }
        if len > total {
            return None;
        }
    }
    None
}

pub async fn run_limit(case: &LimCase) -> LimOut {
    let eff = effective(case);
    let cfg = lim_cfg(case);
    let app = App::new("c19c");
    let role = case.role;
    let ver = role.ver();
    let v5 = role.is_v5();
    let mut o = LimOut { violations: vec![], log: vec![], sig: 0, applicable: true };
    let mut c: Conn = conn::start(&cfg, app.clone()).await;
    let what = format!("{case:?} effective {eff:?}");
    if !c.has_sink() {
        o.violations.push(("handshake did not complete".into(), what));
        return o;
    }
    let sink = c.sink();
    let ended = |app: &Rc<App>| !app.stops().is_empty() || app.done.get();
    let proto_stop = |app: &Rc<App>| app.stops().first().map(|s| s.1.clone()) == Some(StopClass::Protocol);
    match case.probe {
        Probe::Announce => {
            if role != Role::V5Server {
                o.applicable = false;
            } else {
                let wire = app.wire();
                let Some((_, R::ConnAck { props, .. })) = wire.first() else {
                    o.violations.push(("no CONNACK".into(), what));
                    return o;
                };
                let get16 = |id: u8| props.iter().find_map(|p| if let Prop::U16(i, v) = p { (*i == id).then_some(*v) } else { None });
                let get8 = |id: u8| props.iter().find_map(|p| if let Prop::Byte(i, v) = p { (*i == id).then_some(*v) } else { None });
                let get32 = |id: u8| props.iter().find_map(|p| if let Prop::U32(i, v) = p { (*i == id).then_some(*v) } else { None });
                let ann_qos = get8(0x24).unwrap_or(2);
                let ann_alias = get16(0x22).unwrap_or(0);
                let ann_recv = get16(0x21).map_or(65535, |v| v as u32);
                let ann_size = get32(0x27).unwrap_or(0);
                let want_recv = if eff.recv == 0 { 65535 } else { eff.recv };
                if ann_qos != eff.qos {
                    o.violations.push(("CONNACK announces a Maximum QoS different from the negotiated one".into(), format!("announced {ann_qos} — {what}")));
                }
                if ann_alias != eff.alias {
                    o.violations.push(("CONNACK announces a Topic Alias Maximum different from the negotiated one".into(), format!("announced {ann_alias} — {what}")));
                }
                if ann_recv != want_recv {
                    o.violations.push(("CONNACK announces a Receive Maximum different from the negotiated one".into(), format!("announced {ann_recv} — {what}")));
                }
                if ann_size != eff.size_in {
                    o.violations.push(("CONNACK announces a Maximum Packet Size different from the negotiated one".into(), format!("announced {ann_size} — {what}")));
                }
                if let Some(k) = eff.ka_announced {
                    // an imposed time-out has to be announced whenever a client that follows its own
                    // CONNECT value could be timed out by it: it pings less often than the imposed
                    // value, or not at all (keep-alive 0)
                    let ann = get16(0x13);
                    if case.ka == 0 && ann != Some(k) {
                        o.violations.push(("keep-alive imposed by the handshake on a client that disabled keep-alive (0) is not announced in CONNACK".into(), format!("announced {ann:?} — {what}")));
                    } else if case.ka != 0 && k < case.ka && ann != Some(k) {
                        o.violations.push(("keep-alive imposed by the handshake is shorter than the client's but not announced in CONNACK".into(), format!("announced {ann:?} — {what}")));
                    }
                    if let Some(a) = ann {
                        if a != k {
                            o.violations.push(("CONNACK announces a Server Keep Alive different from the imposed one".into(), format!("announced {a} — {what}")));
                        }
                    }
                } else if get16(0x13).is_some() {
                    o.violations.push(("CONNACK announces a Server Keep Alive although none was imposed".into(), what.clone()));
                }
            }
        }
        Probe::Qos(q) => {
            if !role.is_server() {
                o.applicable = false;
            } else {
                c.peer.send(&R::Publish { dup: false, qos: q, retain: false, topic: "q".into(), pid: (q > 0).then_some(3), props: vec![], payload: vec![1] });
                c.settle().await;
                let delivered = app.count(|e| matches!(e, Ev::PubEnter { .. })) == 1;
                if q <= eff.qos {
                    if !delivered || ended(&app) {
                        o.violations.push((format!("publish with QoS {q} within the negotiated maximum was not delivered"), what.clone()));
                    }
                } else if delivered || !proto_stop(&app) {
                    o.violations.push((format!("publish with QoS {q} above the negotiated maximum was not refused with a protocol error"), format!("delivered {delivered} stops {:?} — {what}", app.stops())));
                }
            }
        }
        Probe::Alias(d) => {
            if !v5 {
                o.applicable = false;
            } else {
                let a = eff.alias as i32 + d as i32;
                if a <= 0 || a > 65535 {
                    o.applicable = false;
                } else {
                    c.peer.send(&R::Publish { dup: false, qos: 0, retain: false, topic: "al".into(), pid: None, props: vec![Prop::U16(0x23, a as u16)], payload: vec![1] });
                    c.settle().await;
                    let delivered = app.count(|e| matches!(e, Ev::PubEnter { .. })) == 1;
                    if d <= 0 {
                        if !delivered || ended(&app) {
                            o.violations.push(("topic alias within the negotiated maximum was refused".into(), format!("alias {a} — {what}")));
                        }
                    } else if delivered || !proto_stop(&app) {
                        o.violations.push(("topic alias above the negotiated maximum was accepted".into(), format!("alias {a} — {what}")));
                    }
                }
            }
        }
        Probe::Recv(d) => {
            // no (practical) limit negotiated: a burst well above every configured value must pass
            let unlimited = eff.recv >= 1000;
            let n = if unlimited { 25 } else { eff.recv as i32 + d as i32 };
            if eff.recv == 0 || n <= 0 || n > 40 || (unlimited && d > 0) || (role.is_server() && eff.qos == 0) {
                o.applicable = false;
            } else {
                *app.pub_default.borrow_mut() = PubPlan { read: ReadMode::Eager, gated: true, outcome: Outcome::Ok };
                for i in 0..n {
                    c.peer.send(&R::Publish { dup: false, qos: 1, retain: false, topic: "rm".into(), pid: Some(100 + i as u16), props: vec![], payload: vec![1] });
                }
                c.settle().await;
                let running = app.pubs_running_max.get() as i32;
                if running > eff.recv as i32 {
                    o.violations.push(("more publish handlers ran concurrently than the negotiated receive maximum".into(), format!("{running} — {what}")));
                }
                if d <= 0 {
                    if running != n || ended(&app) {
                        o.violations.push(("publishes within the negotiated receive maximum were not all delivered".into(), format!("{running} of {n} — {what}")));
                    }
                } else if v5 {
                    if !proto_stop(&app) {
                        o.violations.push(("exceeding the negotiated receive maximum did not end the connection with a protocol error".into(), format!("stops {:?} — {what}", app.stops())));
                    }
                } else if ended(&app) {
                    o.violations.push(("v3: exceeding the configured receive maximum must apply back-pressure, not end the connection".into(), what.clone()));
                }
            }
        }
        Probe::SizeIn(d) => {
            let total = eff.size_in as i32 + d as i32;
            if eff.size_in == 0 {
                // no limit in force (none configured, or lifted by the handshake): a packet beyond
                // every limit that was configured anywhere goes through
                let total = case.cfg_size.max(case.hs_size.unwrap_or(0)).max(200) as usize + 40 + d.unsigned_abs() as usize;
                if let Some(p) = publish_of_size(ver, total, 0, 0, "sz") {
                    c.peer.send(&p);
                    c.settle().await;
                    let delivered = app.count(|e| matches!(e, Ev::PubEnter { .. })) == 1;
                    if !delivered || ended(&app) {
                        o.violations.push(("packet refused although no maximum packet size is in force for this connection".into(), format!("{total} bytes — {what}")));
                    }
                } else {
                    o.applicable = false;
                }
            } else if total < 12 {
                o.applicable = false;
            } else if let Some(p) = publish_of_size(ver, total as usize, 0, 0, "sz") {
                c.peer.send(&p);
                c.settle().await;
                let delivered = app.count(|e| matches!(e, Ev::PubEnter { .. })) == 1;
                if d < 0 {
                    if !delivered || ended(&app) {
                        o.violations.push(("packet smaller than the negotiated maximum packet size was refused".into(), format!("{total} bytes — {what}")));
                    }
                } else if delivered || !ended(&app) {
                    o.violations.push(("packet larger than the negotiated maximum packet size was accepted".into(), format!("{total} bytes — {what}")));
                }
            } else {
                o.applicable = false;
            }
        }
        Probe::Window => {
            let w = eff.window;
            if sink.credit() as u32 != w {
                o.violations.push(("send window after the handshake differs from the negotiated one".into(), format!("credit {} — {what}", sink.credit())));
            }
            if w > 0 && w <= 12 {
                let before = app.wire().len();
                let mut ops = Vec::new();
                for i in 0..w + 2 {
                    let mut op = Op::new(&app, next_op_id(), "w", sink.send_qos1(&PubSpec::new("w", vec![i as u8])));
                    op.start();
                    ops.push(op);
                }
                c.settle().await;
                let on_wire = app.wire().iter().skip(before).filter(|(_, p)| matches!(p, R::Publish { .. })).count() as u32;
                if on_wire != w {
                    o.violations.push(("number of unacknowledged publishes written differs from the negotiated send window".into(), format!("{on_wire} — {what}")));
                }
                drop(ops);
            }
        }
        Probe::SizeOut(d) => {
            let total = eff.size_out as i32 + d as i32;
            if eff.size_out == 0 || total < 12 {
                o.applicable = false;
            } else if let Some(R::Publish { payload, .. }) = publish_of_size(ver, total as usize, 0, 0, "so") {
                let before = app.wire().len();
                let r = sink.send_qos0(&PubSpec::new("so", payload));
                c.settle().await;
                let written = app.wire().len() > before;
                if d < 0 {
                    if !written || !r.is_ok() {
                        o.violations.push(("outbound packet smaller than the peer's maximum packet size was refused".into(), format!("{total} bytes -> {r:?} — {what}")));
                    }
                } else if written || !matches!(r, SinkRes::ErrEncode(_)) {
                    o.violations.push(("outbound packet larger than the peer's maximum packet size was written".into(), format!("{total} bytes -> {r:?} — {what}")));
                }
            } else {
                o.applicable = false;
            }
        }
    }
    o.sig = app.trace_signature();
    o.log = app.render(30);
    app.open_all(Outcome::Ok);
    c.finish().await;
    o
}

fn pick<T: Copy>(rng: &mut Rng, xs: &[T]) -> T {
    xs[rng.below(xs.len() as u64) as usize]
}

pub fn random_limit(rng: &mut Rng) -> LimCase {
    let role = pick(rng, &Role::ALL);
    let probes = [
        Probe::Announce,
        Probe::Qos(0),
        Probe::Qos(1),
        Probe::Qos(2),
        Probe::Alias(0),
        Probe::Alias(1),
        Probe::Alias(-1),
        Probe::Recv(0),
        Probe::Recv(1),
        Probe::SizeIn(-10),
        Probe::SizeIn(10),
        Probe::Window,
        Probe::SizeOut(-10),
        Probe::SizeOut(10),
    ];
    LimCase {
        role,
        cfg_qos: pick(rng, &[0u8, 1, 2]),
        hs_qos: pick(rng, &[None, None, Some(0u8), Some(1), Some(2)]),
        cfg_alias: pick(rng, &[0u16, 3, 32]),
        hs_alias: pick(rng, &[None, None, Some(0u16), Some(5)]),
        cfg_recv: pick(rng, &[1u16, 3, 16]),
        hs_recv: pick(rng, &[None, None, Some(2u16), Some(5)]),
        cfg_size: pick(rng, &[0u32, 100, 1000]),
        hs_size: pick(rng, &[None, None, Some(60u32), Some(200), Some(0)]),
        cfg_send: pick(rng, &[1u16, 4, 16]),
        hs_send: pick(rng, &[None, None, Some(2u16), Some(7)]),
        peer_recv: pick(rng, &[None, Some(1u16), Some(3), Some(100)]),
        peer_size: pick(rng, &[None, Some(50u32), Some(300)]),
        ka: pick(rng, &[0u16, 2, 10]),
        hs_ka: pick(rng, &[None, None, Some(1u16), Some(5), Some(12), Some(40)]),
        probe: pick(rng, &probes),
    }
}

// ===================================================================================== driver

pub fn run(opts: &Opts) -> i32 {
    let rep = Report::new(
        opts,
        "exploration",
        "A: v3, v5 and combined servers x every first packet (all packet templates, 216 CONNECT name/level/flag variations) x 5 handshake \
         outcomes x trailing packets with/after the first; B: combined server, CONNECT level 4/5 + PUBLISH + PINGREQ cut at every subset of the \
         first 15 byte boundaries (quick: all subsets of at most 2 cuts plus random ones), plus the sniffing codec against a reference parser on \
         enumerated/random prefixes; C: random combinations of configured / CONNECT-requested / handshake-overridden limits in 4 roles, each \
         probed behaviourally (announcement, QoS, alias, receive maximum, inbound size, send window, outbound size) against the reference \
         negotiation rules. distinct = distinct boundary-event trace signatures",
    );
    if let Some(p) = &opts.replay {
        return replay(p);
    }
    let quick = opts.tier == Tier::Quick;
    // ---- A
    let mut gate_cases: Vec<(GateCase, Rc<Vec<First>>)> = Vec::new();
    for srv in [Srv::V3, Srv::V5, Srv::CombinedV3, Srv::CombinedV5] {
        let firsts = Rc::new(first_packets(srv));
        for first in 0..firsts.len() {
            for hs in [Hs::Accept, Hs::Refuse, Hs::Error, Hs::SlowAccept, Hs::SlowRefuse] {
                for t in [true, false] {
                    gate_cases.push((GateCase { srv, first, hs, trailing_with_first: t }, firsts.clone()));
                }
            }
        }
    }
    // Rc is not Send: rebuild the table per worker through plain data
    let gate_plain: Vec<GateCase> = gate_cases.iter().map(|g| g.0.clone()).collect();
    drop(gate_cases);
    rep.extra("gate_cases", json!(gate_plain.len()));
    pool::par_for(gate_plain.len() as u64, None, |i| {
        let case = &gate_plain[i as usize];
        let firsts = first_packets(case.srv);
        let r = exec(run_gate(case, &firsts));
        rep.eval();
        let rj = json!({"part": "A", "srv": format!("{:?}", case.srv), "first": case.first, "hs": format!("{:?}", case.hs), "trailing_with_first": case.trailing_with_first});
        match &r {
            Run::Done(o, _) => {
                rep.distinct(o.sig);
                rep.count("A_first_packet_runs", 1);
                rep.count("A_accepted", o.accepted as u64);
                rep.count("A_ended_without_acceptance", (!o.accepted && o.ended) as u64);
                if i % 1201 == 0 {
                    rep.sample(3, || json!({"case": rj, "first": firsts[case.first].name, "log": o.log}));
                }
                for (class, what) in &o.violations {
                    rep.violation(Violation { signature: format!("A/{}: {}", case.srv.name(), pool::abstract_numbers(class)), what: format!("{class} — {what}"), replay: json!({"case": rj, "log": o.log}) });
                }
            }
            Run::Panic(p, tail) => rep.violation(Violation { signature: format!("A/{}: {}", case.srv.name(), p.signature()), what: format!("panic: {} at {} — {case:?} {}", p.msg, p.location, firsts[case.first].name), replay: json!({"case": rj, "log": tail}) }),
            Run::Livelock(tail) => rep.violation(Violation { signature: format!("A/{}: live-lock", case.srv.name()), what: format!("never quiescent — {case:?}"), replay: json!({"case": rj, "log": tail}) }),
            Run::Watchdog => rep.inconclusive(format!("watchdog {case:?}")),
        }
        r.after()
    });
    // ---- B
    let mut route_cases: Vec<RouteCase> = Vec::new();
    for level in [4u8, 5] {
        if quick {
            route_cases.push(RouteCase { level, cuts: 0, prebuffered: false, pause: false });
            route_cases.push(RouteCase { level, cuts: 0, prebuffered: true, pause: false });
            for a in 0..15 {
                route_cases.push(RouteCase { level, cuts: 1 << a, prebuffered: false, pause: false });
                route_cases.push(RouteCase { level, cuts: 1 << a, prebuffered: true, pause: false });
                for b in a + 1..15 {
                    route_cases.push(RouteCase { level, cuts: (1 << a) | (1 << b), prebuffered: (a + b) % 2 == 0, pause: false });
                }
            }
            let mut rng = Rng::for_case(opts.seed, "c19b", level as u64);
            for _ in 0..1500 {
                route_cases.push(RouteCase { level, cuts: rng.below(1 << 15) as u16, prebuffered: rng.bool(), pause: false });
            }
        } else {
            for cuts in 0..(1u32 << 15) {
                route_cases.push(RouteCase { level, cuts: cuts as u16, prebuffered: false, pause: false });
                route_cases.push(RouteCase { level, cuts: cuts as u16, prebuffered: true, pause: false });
            }
        }
    }
    // fragments with real time passing in between, on a server without a version-detection deadline
    let mut timed: Vec<RouteCase> = Vec::new();
    for level in [4u8, 5] {
        for a in 0..15 {
            timed.push(RouteCase { level, cuts: 1 << a, prebuffered: a % 2 == 0, pause: true });
        }
        timed.push(RouteCase { level, cuts: 0b1001, prebuffered: false, pause: true });
        timed.push(RouteCase { level, cuts: 0b100_0000_0010, prebuffered: true, pause: true });
    }
    let n_plain = route_cases.len();
    route_cases.extend(timed);
    rep.extra("route_cases", json!(route_cases.len()));
    let run_b = |i: u64| {
        let case = &route_cases[i as usize];
        let r = exec(run_route(case));
        rep.eval();
        let rj = json!({"part": "B", "level": case.level, "cuts": case.cuts, "prebuffered": case.prebuffered, "pause": case.pause});
        match &r {
            Run::Done(o, _) => {
                rep.distinct(o.sig);
                rep.count("B_fragmentations", 1);
                rep.max("B_max_fragments", o.fragments as u64);
                rep.count("B_pauses_between_fragments_without_version_deadline", o.pauses as u64);
                if i % 9973 == 0 {
                    rep.sample(2, || json!({"case": rj, "log": o.log}));
                }
                for (class, what) in &o.violations {
                    rep.violation(Violation { signature: format!("B/level{}: {}", case.level, pool::abstract_numbers(class)), what: format!("{class} — {what}"), replay: json!({"case": rj, "log": o.log}) });
                }
            }
            Run::Panic(p, tail) => rep.violation(Violation { signature: format!("B: {}", p.signature()), what: format!("panic: {} at {} — {case:?}", p.msg, p.location), replay: json!({"case": rj, "log": tail}) }),
            Run::Livelock(tail) => rep.violation(Violation { signature: "B: live-lock".into(), what: format!("never quiescent — {case:?}"), replay: json!({"case": rj, "log": tail}) }),
            Run::Watchdog => rep.inconclusive(format!("watchdog {case:?}")),
        }
        // (the timer wheel does not survive its runtime: a timed case retires its thread)
        if case.pause { pool::After::RetireThread } else { r.after() }
    };
    pool::par_for(n_plain as u64, None, |i| run_b(i));
    pool::par_for_n(16, (route_cases.len() - n_plain) as u64, None, |i| run_b(n_plain as u64 + i));
    rep.require("B_pauses_between_fragments_without_version_deadline", 20);
    // sniffing codec differential (hook)
    #[cfg(feature = "hooks")]
    {
        let n: u64 = if quick { 400_000 } else { 6_000_000 };
        let seeds: Vec<Vec<u8>> = vec![raw_connect(b"MQTT", 4, 0, 2, false), raw_connect(b"MQTT", 5, 0, 2, true), raw_connect(b"MQIsdp", 3, 0, 2, false)];
        pool::par_for(n, None, |i| {
            let mut rng = Rng::for_case(opts.seed, "c19-sniff", i);
            let mut b = seeds[rng.below(3) as usize].clone();
            // mutate: truncate, flip bytes, stretch the remaining length
            for _ in 0..rng.below(3) {
                let k = rng.below(b.len().min(12) as u64) as usize;
                b[k] = match rng.below(4) {
                    0 => rng.below(256) as u8,
                    1 => b[k] ^ (1 << rng.below(8)),
                    2 => b[k] | 0x80,
                    _ => b[k].wrapping_add(1),
                };
            }
            if rng.below(4) == 0 {
                let k = 1 + rng.below(3) as usize;
                let ins: Vec<u8> = (0..k).map(|_| 0x80 | rng.below(128) as u8).collect();
                b.splice(1..1, ins);
            }
            let cut = rng.below(b.len() as u64 + 1) as usize;
            let pre = &b[..cut];
            let want = ref_sniff(pre);
            let got = pool::catch(|| lib_sniff(pre));
            rep.eval();
            rep.count("B_sniff_prefixes_compared", 1);
            match got {
                Ok(g) => {
                    match &g {
                        Ok(Some(_)) => rep.count("B_sniff_decided", 1),
                        Ok(None) => rep.count("B_sniff_need_more", 1),
                        Err(()) => rep.count("B_sniff_rejected", 1),
                    }
                    rep.distinct(pool::hash_bytes(pre));
                    if g != want {
                        rep.violation(Violation {
                            signature: format!("B/sniff: library {:?} reference {:?}", g, want),
                            what: format!("version sniffing disagrees with the reference parser on prefix {}", pool::hex(pre)),
                            replay: json!({"case": {"part": "sniff", "prefix": pool::hex(pre)}}),
                        });
                    }
                }
                Err(p) => rep.violation(Violation { signature: format!("B/sniff: {}", p.signature()), what: format!("panic in version sniffing on {}", pool::hex(pre)), replay: json!({"case": {"part": "sniff", "prefix": pool::hex(pre)}}) }),
            }
            pool::After::Continue
        });
    }
    // ---- C
    let n_lim: u64 = if quick { 30_000 } else { 600_000 };
    rep.extra("limit_cases", json!(n_lim));
    pool::par_for(n_lim, None, |i| {
        let mut rng = Rng::for_case(opts.seed, "c19c", i);
        let case = random_limit(&mut rng);
        let r = exec(run_limit(&case));
        rep.eval();
        let rj = json!({"part": "C", "seed": opts.seed, "index": i});
        match &r {
            Run::Done(o, _) => {
                if o.applicable {
                    rep.distinct(o.sig);
                    rep.count(&format!("C_probe_{}", format!("{:?}", case.probe).split('(').next().unwrap()), 1);
                    rep.count(&format!("C_role_{}", case.role.name()), 1);
                } else {
                    rep.count("C_probe_not_applicable_to_configuration", 1);
                }
                if i % 7919 == 0 {
                    rep.sample(3, || json!({"case": format!("{case:?}"), "log": o.log}));
                }
                for (class, what) in &o.violations {
                    rep.violation(Violation { signature: format!("C/{}: {}", case.role.name(), pool::abstract_numbers(class)), what: format!("{class} — {what}"), replay: json!({"case": rj, "log": o.log}) });
                }
            }
            Run::Panic(p, tail) => rep.violation(Violation { signature: format!("C/{}: {}", case.role.name(), p.signature()), what: format!("panic: {} at {} — {case:?}", p.msg, p.location), replay: json!({"case": rj, "log": tail}) }),
            Run::Livelock(tail) => rep.violation(Violation { signature: format!("C/{}: live-lock", case.role.name()), what: format!("never quiescent — {case:?}"), replay: json!({"case": rj, "log": tail}) }),
            Run::Watchdog => rep.inconclusive(format!("watchdog {case:?}")),
        }
        r.after()
    });
    // ---- D: the keep-alive in force after acceptance, under real time (scenarios shared with C20)
    let kd = if std::env::var("VERIF_SANITIZER").is_ok() { Vec::new() } else { keepalive_scenarios(opts.seed, quick) };
    rep.extra("keepalive_scenarios", json!(kd.iter().map(|s| s.name.clone()).collect::<Vec<_>>()));
    let (_, late) = super::c20::run_scns(&rep, opts, &kd, Some("D"));
    if late.len() * 4 > kd.len() {
        rep.inconclusive(format!("D: {} of {} timed scenarios undecided because the harness was late (machine overloaded?)", late.len(), kd.len()));
    }
    rep.set_exhaustive(false);
    rep.assume("D: timer resolution of the runtime is 1 s: a keep-alive expiry is accepted from 0.5 s before to 3.5 s after the nominal time (the complete timing grid is C20's)");
    rep.assume("maximum packet size is probed 10 bytes below / above the negotiated value (boundary semantics are C09/C12's subject)");
    rep.require("A_accepted", 30);
    rep.require("A_ended_without_acceptance", 1000);
    rep.require("B_fragmentations", 200);
    rep.require("C_probe_Window", 500);
    if !kd.is_empty() {
        rep.require("D_expect_KeepAlive", 3);
    }
    rep.finish()
}

/// part D: negotiated keep-alive in force (1.5 x, overridden, switched off by the handshake)
fn keepalive_scenarios(seed: u64, quick: bool) -> Vec<super::c20::Scn> {
    let mut rng = Rng::for_case(seed, "c20", 0);
    super::c20::scenarios(quick, &mut rng)
        .into_iter()
        .filter(|s| s.role.is_server() && s.timeline.is_empty() && !s.raw && (s.name.contains("handshake") || s.name.contains("io-level") || s.name.ends_with("client keep-alive 2")))
        .collect()
}

fn replay(path: &std::path::Path) -> i32 {
    let v: serde_json::Value = serde_json::from_str(&std::fs::read_to_string(path).expect("replay file")).expect("json");
    let case = &v["replay"]["case"];
    let fail = |viol: &[(String, String)], log: &[String]| {
        for l in log {
            println!("{l}");
        }
        println!("violations: {viol:?}");
        if viol.is_empty() {
            0
        } else {
            println!("VIOLATION property=C19 replay={}", path.display());
            1
        }
    };
    match case["part"].as_str().unwrap_or("") {
        "A" => {
            let srv = match case["srv"].as_str().unwrap_or("") {
                "V3" => Srv::V3,
                "V5" => Srv::V5,
                "CombinedV3" => Srv::CombinedV3,
                _ => Srv::CombinedV5,
            };
            let hs = match case["hs"].as_str().unwrap_or("") {
                "Accept" => Hs::Accept,
                "Refuse" => Hs::Refuse,
                "Error" => Hs::Error,
                "SlowAccept" => Hs::SlowAccept,
                _ => Hs::SlowRefuse,
            };
            let gc = GateCase { srv, first: case["first"].as_u64().unwrap_or(0) as usize, hs, trailing_with_first: case["trailing_with_first"].as_bool().unwrap_or(false) };
            let firsts = first_packets(srv);
            println!("replaying {gc:?} first={}", firsts[gc.first].name);
            match exec(run_gate(&gc, &firsts)) {
                Run::Done(o, _) => fail(&o.violations, &o.log),
                Run::Watchdog => 2,
                _ => {
                    println!("VIOLATION property=C19 replay={}", path.display());
                    1
                }
            }
        }
        "B" => {
            let rc = RouteCase { level: case["level"].as_u64().unwrap_or(4) as u8, cuts: case["cuts"].as_u64().unwrap_or(0) as u16, prebuffered: case["prebuffered"].as_bool().unwrap_or(false), pause: case["pause"].as_bool().unwrap_or(false) };
            println!("replaying {rc:?}");
            match exec(run_route(&rc)) {
                Run::Done(o, _) => fail(&o.violations, &o.log),
                Run::Watchdog => 2,
                _ => {
                    println!("VIOLATION property=C19 replay={}", path.display());
                    1
                }
            }
        }
        "C" => {
            let mut rng = Rng::for_case(case["seed"].as_u64().unwrap_or(1), "c19c", case["index"].as_u64().unwrap_or(0));
            let lc = random_limit(&mut rng);
            println!("replaying {lc:?}");
            match exec(run_limit(&lc)) {
                Run::Done(o, _) => fail(&o.violations, &o.log),
                Run::Watchdog => 2,
                _ => {
                    println!("VIOLATION property=C19 replay={}", path.display());
                    1
                }
            }
        }
        "D" => super::c20::replay_named("C19", path, v["seed"].as_u64().unwrap_or(1), case["name"].as_str().unwrap_or("")),
        "sniff" => {
            #[cfg(feature = "hooks")]
            {
                let pre = pool::unhex(case["prefix"].as_str().unwrap_or(""));
                let want = ref_sniff(&pre);
                let got = lib_sniff(&pre);
                println!("prefix {} library {got:?} reference {want:?}", pool::hex(&pre));
                if got != want {
                    println!("VIOLATION property=C19 replay={}", path.display());
                    return 1;
                }
            }
            0
        }
        _ => 2,
    }
}
