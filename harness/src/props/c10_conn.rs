//! C10 part B — connection level (filled in once the connection machinery exists)
use crate::report::{Opts, Report};

pub fn run_part(_opts: &Opts, _rep: &Report) {}
