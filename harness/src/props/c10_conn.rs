//! C10 part B — connection level: the handler that reads the payload receives exactly the bytes
//! sent, in order, for every fragmentation and every reader pace.
//!
//! One connection, a stream of 1..4 PUBLISH packets (sizes around the chunk / varint / buffer
//! boundaries) followed by a PINGREQ, cut into reads in several ways; each publish handler reads
//! its payload eagerly, chunk by chunk, lazily (one read per controller step) or not at all.
use serde_json::json;

use crate::app::{App, Ev, GateKind, Outcome, ProtoAnswer, ProtoPlan, PubPlan, ReadMode};
use crate::conn::{self, ConnCfg, Role};
use crate::explore::{Run, exec};
use crate::pool::{self, After, Rng};
use crate::refcodec::{self, Packet as R};
use crate::report::{Opts, Report, Tier, Violation};

#[derive(Debug, Clone)]
pub struct Case {
    pub role: Role,
    pub min_chunk: u32,
    pub max_buffer: usize,
    /// (qos, payload length, read mode)
    pub msgs: Vec<(u8, usize, ReadMode)>,
    /// 0 whole, 1 byte at a time, 2 random cuts, 3 cuts around packet boundaries
    pub frag: u8,
    pub seed: u64,
}

pub struct Outc {
    pub violations: Vec<(String, String)>,
    pub log: Vec<String>,
    pub sig: u64,
    pub payload_bytes: usize,
    pub reads: usize,
    pub writes: usize,
}

const SIZES: [usize; 22] = [0, 1, 2, 3, 4, 5, 7, 8, 9, 31, 32, 33, 63, 64, 65, 120, 127, 128, 200, 1023, 1024, 1025];
const BIG: [usize; 6] = [16383, 16384, 32767, 32768, 32769, 70000];

pub fn gen_case(rng: &mut Rng, quick: bool) -> Case {
    let role = *rng.pick(&Role::ALL);
    let n = 1 + rng.usize(if quick { 3 } else { 4 });
    let msgs = (0..n)
        .map(|_| {
            let len = if rng.chance(1, 10) { *rng.pick(&BIG) } else if rng.chance(1, 3) { rng.usize(300) } else { *rng.pick(&SIZES) };
            let mode = match rng.below(11) {
                // (servers) a reader that outlives its handler and starts reading only after the
                // peer has gone: what was delivered completely is read completely
                10 if role.is_server() => ReadMode::DetachedLate,
                0 | 1 | 2 | 10 => ReadMode::Eager,
                3 | 4 => ReadMode::Chunks,
                5 | 6 => ReadMode::Lazy,
                7 | 8 => ReadMode::LateAll,
                _ => ReadMode::Abandon,
            };
            (rng.below(3) as u8, len, mode)
        })
        .collect();
    Case { role, min_chunk: *rng.pick(&[0u32, 1, 4, 64, 1024, 32768]), max_buffer: *rng.pick(&[8usize, 64, 1024, 32 * 1024]), msgs, frag: rng.below(4) as u8, seed: rng.next() }
}

pub async fn run_case(case: &Case) -> Outc {
    let app = App::new("c10b");
    let mut cfg = ConnCfg::new(case.role);
    cfg.max_qos = 2;
    cfg.min_chunk_size = case.min_chunk;
    cfg.max_payload_buffer = case.max_buffer;
    cfg.max_receive = 16;
    let mut rng = Rng::for_case(case.seed, "c10b", 0);
    // mostly without a byte limit on concurrently handled publishes (limits are C12's subject);
    // with the default limit or a small one a large streamed payload passes through the limiter
    // chunk by chunk and must still arrive intact
    cfg.max_receive_size = *rng.pick(&[0usize, 0, 65535, 1024]);
    let mut c = conn::start(&cfg, app.clone()).await;
    let ver = case.role.ver();
    let mut o = Outc { violations: vec![], log: vec![], sig: 0, payload_bytes: 0, reads: 0, writes: 0 };
    // the stream
    let mut stream: Vec<u8> = Vec::new();
    let mut boundaries: Vec<usize> = Vec::new();
    let mut sent: Vec<Vec<u8>> = Vec::new();
    for (i, (qos, len, mode)) in case.msgs.iter().enumerate() {
        app.pub_plans.borrow_mut().push_back(PubPlan { read: mode.clone(), gated: false, outcome: Outcome::Ok });
        let payload: Vec<u8> = (0..*len).map(|k| (k as u8).wrapping_mul(31).wrapping_add(i as u8 * 7 + 1)).collect();
        let p = R::Publish { dup: false, qos: *qos, retain: false, topic: format!("f/{i}"), pid: (*qos > 0).then_some(10 + i as u16), props: vec![], payload: payload.clone() };
        let b = refcodec::encode(ver, &p).unwrap();
        boundaries.push(stream.len());
        boundaries.push(stream.len() + b.len() - payload.len()); // end of the header
        stream.extend(b);
        sent.push(payload);
    }
    boundaries.push(stream.len());
    if case.role.is_server() {
        app.proto_plans.borrow_mut().push_back(ProtoPlan { gated: false, answer: ProtoAnswer::Ack });
        stream.extend(refcodec::encode(ver, &R::PingReq).unwrap());
    } else {
        // clients: a final QoS 1 publish as the probe
        app.pub_plans.borrow_mut().push_back(PubPlan::default());
        stream.extend(refcodec::encode(ver, &R::Publish { dup: false, qos: 1, retain: false, topic: "probe".into(), pid: Some(999), props: vec![], payload: vec![0xEE] }).unwrap());
    }
    // cut positions
    let mut cuts: Vec<usize> = match case.frag {
        0 => vec![],
        1 if stream.len() <= 600 => (1..stream.len()).collect(),
        3 => {
            let mut v = Vec::new();
            for b in &boundaries {
                for d in [-2i64, -1, 0, 1, 2] {
                    let p = *b as i64 + d;
                    if p > 0 && (p as usize) < stream.len() {
                        v.push(p as usize);
                    }
                }
            }
            v
        }
        _ => {
            let k = 1 + rng.usize(12);
            (0..k).map(|_| 1 + rng.usize(stream.len() - 1)).collect()
        }
    };
    cuts.sort();
    cuts.dedup();
    cuts.push(stream.len());
    app.log(Ev::Note(format!("stream {}B in {} writes", stream.len(), cuts.len())));
    // deliver; between writes let lazy readers advance by a random number of reads
    let mut start = 0;
    for cut in cuts {
        c.peer.write_quiet(&stream[start..cut]);
        start = cut;
        o.writes += 1;
        c.settle().await;
        for _ in 0..rng.usize(3) {
            let gates: Vec<(GateKind, u32)> = app.pending_gates().into_iter().filter(|g| g.0 == GateKind::PubRead && g.1 % 1000 != 999).collect();
            if gates.is_empty() {
                break;
            }
            app.open_gate(gates[rng.usize(gates.len())], Outcome::Ok);
            c.settle().await;
        }
    }
    // let the lazy readers finish
    for _ in 0..200_000 {
        let gates: Vec<(GateKind, u32)> = app.pending_gates().into_iter().filter(|g| g.0 == GateKind::PubRead && g.1 % 1000 != 999).collect();
        if gates.is_empty() {
            break;
        }
        app.open_gate(gates[rng.usize(gates.len())], Outcome::Ok);
        c.settle().await;
    }
    c.settle().await;
    // what the endpoint did with the stream is judged now; readers that start late do so after the
    // peer has gone away
    let wire = app.wire();
    let stops_while_connected = app.stops();
    let late: Vec<(GateKind, u32)> = app.pending_gates().into_iter().filter(|g| g.0 == GateKind::PubRead && g.1 % 1000 == 999).collect();
    if !late.is_empty() {
        c.peer.close();
        c.settle().await;
        for g in late {
            app.open_gate(g, Outcome::Ok);
        }
        c.settle().await;
    }
    // ------------------------------------------------------------------ oracle
    let log = app.snapshot();
    let what = format!("{case:?}");
    let enters: Vec<(u32, String, u32)> = log.iter().filter_map(|(_, e)| if let Ev::PubEnter { call, topic, size, .. } = e { Some((*call, topic.clone(), *size)) } else { None }).collect();
    for (i, (_, len, mode)) in case.msgs.iter().enumerate() {
        let Some((call, _, _)) = enters.iter().find(|(_, t, _)| *t == format!("f/{i}")) else {
            o.violations.push(("publish never reached its handler".into(), format!("message {i} — {what}")));
            continue;
        };
        if enters.iter().filter(|(_, t, _)| *t == format!("f/{i}")).count() != 1 {
            o.violations.push(("publish announced more than once".into(), format!("message {i} — {what}")));
        }
        if *mode == ReadMode::Abandon {
            continue;
        }
        let got = log.iter().find_map(|(_, e)| if let Ev::PubPayload { call: c2, bytes } = e { (c2 == call).then_some(bytes) } else { None });
        let reads: Vec<&Result<usize, String>> = log.iter().filter_map(|(_, e)| if let Ev::PubRead { call: c2, res } = e { (c2 == call).then_some(res) } else { None }).collect();
        o.reads += reads.len();
        match got {
            None => o.violations.push(("handler did not receive the complete payload".into(), format!("message {i} ({len} bytes), reads {reads:?} — {what}"))),
            Some(b) => {
                o.payload_bytes += b.len();
                if *b != sent[i] {
                    let first_diff = b.iter().zip(sent[i].iter()).position(|(x, y)| x != y);
                    o.violations.push(("handler received different payload bytes than were sent".into(), format!("message {i}: sent {} bytes, received {} bytes, first difference at {first_diff:?} — {what}", sent[i].len(), b.len())));
                }
            }
        }
    }
    // nothing leaked into the following packets: the probe was answered, nothing ended the connection
    let probe_ok = if case.role.is_server() { wire.iter().any(|(_, p)| matches!(p, R::PingResp)) } else { wire.iter().any(|(_, p)| matches!(p, R::PubAck { pid: 999, .. })) };
    if !probe_ok || !stops_while_connected.is_empty() {
        o.violations.push(("packet following the publishes was not processed (payload bytes leaked into the next packet, or the connection ended)".into(), format!("stops {:?}, wrote {:?} — {what}", stops_while_connected, wire.iter().map(|(_, p)| crate::map::brief(p)).collect::<Vec<_>>())));
    }
    o.sig = app.trace_signature() ^ pool::hash_str(&format!("{:?}{}", case.msgs, case.frag));
    o.log = app.render(40);
    c.finish().await;
    o
}

pub fn run_part(opts: &Opts, rep: &Report) {
    let quick = opts.tier == Tier::Quick;
    let n: u64 = if quick { 12_000 } else { 300_000 };
    pool::par_for(n, None, |i| {
        let mut rng = Rng::for_case(opts.seed, "c10-conn", i);
        let case = gen_case(&mut rng, quick);
        let r = exec(run_case(&case));
        rep.eval();
        let rj = json!({"kind": "conn", "seed": opts.seed, "index": i, "quick": quick});
        match &r {
            Run::Done(o, _) => {
                rep.distinct(o.sig);
                rep.count("conn_cases", 1);
                rep.count("conn_payload_bytes_compared", o.payload_bytes as u64);
                rep.count("conn_handler_reads", o.reads as u64);
                rep.max("conn_max_writes_per_stream", o.writes as u64);
                if i % 4001 == 0 {
                    rep.sample(14, || json!({"conn_case": format!("{case:?}"), "log": o.log}));
                }
                for (class, what) in &o.violations {
                    rep.violation(Violation { signature: format!("conn/{}: {}", case.role.name(), pool::abstract_numbers(class)), what: format!("{class} — {what}"), replay: json!({"case": rj, "log": o.log}) });
                }
            }
            Run::Panic(p, tail) => rep.violation(Violation { signature: format!("conn/{}: {}", case.role.name(), p.signature()), what: format!("panic: {} at {} — {case:?}", p.msg, p.location), replay: json!({"case": rj, "log": tail}) }),
            Run::Livelock(tail) => rep.violation(Violation { signature: format!("conn/{}: live-lock", case.role.name()), what: format!("never quiescent — {case:?}"), replay: json!({"case": rj, "log": tail}) }),
            Run::Watchdog => rep.inconclusive(format!("watchdog {case:?}")),
        }
        r.after()
    });
    rep.require("conn_payload_bytes_compared", 100_000);
}

pub fn replay_conn(v: &serde_json::Value) -> Option<i32> {
    let case = &v["replay"]["case"];
    if case["kind"].as_str() != Some("conn") {
        return None;
    }
    let mut rng = Rng::for_case(case["seed"].as_u64()?, "c10-conn", case["index"].as_u64()?);
    let c = gen_case(&mut rng, case["quick"].as_bool().unwrap_or(true));
    println!("replaying {c:?}");
    Some(match exec(run_case(&c)) {
        Run::Done(o, _) => {
            for l in &o.log {
                println!("{l}");
            }
            println!("violations: {:?}", o.violations);
            if o.violations.is_empty() { 0 } else { 1 }
        }
        Run::Watchdog => 2,
        _ => 1,
    })
}
