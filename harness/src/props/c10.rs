//! C10 — decoding is independent of fragmentation; streamed payloads arrive intact.
//!
//! Codec level (this file, part A): streams of valid packets are delivered under many cut sets
//! (all 2^(n-1) for short streams) and min-chunk settings; every delivery must yield the same
//! packet sequence — the values that were encoded — and every PUBLISH must be announced once with
//! its declared size, its pieces must add up to exactly that size with exactly one final piece,
//! no non-empty non-final piece may be smaller than the configured minimum, and no payload byte
//! may leak into the next packet.
//! Connection level (part B, `conn_part`): the handler that reads the payload receives exactly
//! the bytes sent for every fragmentation and reader pace.
use ntex_mqtt::v3::codec as c3;
use ntex_mqtt::v5::codec as c5;
use serde_json::{Value, json};

use crate::genpkt::{self, GenCfg, Item3, Item5};
use crate::libcodec::{self, Ev, Whole};
use crate::map;
use crate::pool::{self, After, Rng, hash_bytes, hex_short};
use crate::report::{Opts, Report, Tier, Violation};

fn vio(rep: &Report, ver: &str, class: String, what: String, stream: &[u8], cuts: &[usize], min_chunk: u32, descr: &[String]) {
    rep.violation(Violation {
        signature: format!("{ver}: {}", pool::abstract_numbers(&class)),
        what,
        replay: json!({"ver": ver, "stream": hex_short(stream), "stream_len": stream.len(), "cuts": if cuts.len() > 64 { json!(format!("{} cuts", cuts.len())) } else { json!(cuts) }, "min_chunk": min_chunk, "packets": descr}),
    });
}

fn payload_len(rng: &mut Rng, big: bool) -> usize {
    match rng.below(if big { 14 } else { 9 }) {
        0 => 0,
        1 => 1,
        2 => rng.usize(8),
        3 => 3 + rng.usize(3),
        4 => 120 + rng.usize(12),
        5 => 1022 + rng.usize(5),
        6 => rng.usize(3000),
        7 => 16_370 + rng.usize(30),
        8 => 32_766 + rng.usize(5),
        9 => 65_533 + rng.usize(6),
        10 => 100_000 + rng.usize(1000),
        11 => 300 * 1024 + rng.usize(10) - 5,
        _ => 2_097_140 + rng.usize(20),
    }
}

struct Stream3 {
    items: Vec<Item3>,
    bytes: Vec<u8>,
    bounds: Vec<usize>,
}
struct Stream5 {
    items: Vec<Item5>,
    bytes: Vec<u8>,
    bounds: Vec<usize>,
}

fn gen_stream3(rng: &mut Rng, n: usize, small: bool, big: bool) -> Stream3 {
    let codec = c3::Codec::new();
    let mut s = Stream3 { items: vec![], bytes: vec![], bounds: vec![] };
    for _ in 0..n {
        let it = if small {
            match rng.below(4) {
                0 => Item3::Packet(c3::Packet::PingRequest),
                1 => Item3::Packet(c3::Packet::PublishAck { packet_id: std::num::NonZeroU16::new(1 + rng.below(300) as u16).unwrap() }),
                _ => {
                    let n = rng.usize(5);
                    let q = *rng.pick(genpkt::qos_list());
                    Item3::Publish(
                        c3::Publish { dup: false, retain: rng.bool(), qos: q, topic: ["a", "b/c", ""][rng.usize(3)].into(), packet_id: (u8::from(q) > 0).then(|| std::num::NonZeroU16::new(7).unwrap()), payload_size: n as u32 },
                        rng.bytes(n),
                    )
                }
            }
        } else if rng.chance(1, 2) {
            let n = payload_len(rng, big);
            let q = *rng.pick(genpkt::qos_list());
            Item3::Publish(
                c3::Publish { dup: rng.bool(), retain: rng.bool(), qos: q, topic: { let tl = rng.usize(20); genpkt::utf8(rng, tl, true) }.into(), packet_id: (u8::from(q) > 0).then(|| std::num::NonZeroU16::new(1 + rng.below(65535) as u16).unwrap()), payload_size: n as u32 },
                rng.bytes(n),
            )
        } else {
            let k = rng.usize(14);
            let m = rng.next();
            genpkt::gen_v3(rng, k, m, &GenCfg::SMALL)
        };
        let b = libcodec::enc3(&codec, &it).expect("valid item encodes");
        s.bytes.extend_from_slice(&b);
        s.bounds.push(s.bytes.len());
        s.items.push(it);
    }
    s
}

fn gen_stream5(rng: &mut Rng, n: usize, small: bool, big: bool) -> Stream5 {
    let codec = c5::Codec::new();
    let mut s = Stream5 { items: vec![], bytes: vec![], bounds: vec![] };
    for _ in 0..n {
        let it = if small {
            match rng.below(4) {
                0 => Item5::Packet(c5::Packet::PingRequest),
                1 => Item5::Packet(c5::Packet::PublishAck(c5::PublishAck { packet_id: std::num::NonZeroU16::new(1 + rng.below(300) as u16).unwrap(), ..Default::default() })),
                _ => {
                    let n = rng.usize(5);
                    let q = *rng.pick(genpkt::qos_list());
                    Item5::Publish(
                        c5::Publish { dup: false, retain: rng.bool(), qos: q, topic: ["a", "b/c", ""][rng.usize(3)].into(), packet_id: (u8::from(q) > 0).then(|| std::num::NonZeroU16::new(7).unwrap()), payload_size: n as u32, properties: Default::default() },
                        rng.bytes(n),
                    )
                }
            }
        } else if rng.chance(1, 2) {
            let n = payload_len(rng, big);
            let q = *rng.pick(genpkt::qos_list());
            let mut b = genpkt::Bits::new(rng.next());
            Item5::Publish(
                c5::Publish { dup: rng.bool(), retain: rng.bool(), qos: q, topic: { let tl = rng.usize(20); genpkt::utf8(rng, tl, true) }.into(), packet_id: (u8::from(q) > 0).then(|| std::num::NonZeroU16::new(1 + rng.below(65535) as u16).unwrap()), payload_size: n as u32, properties: genpkt::gen_publish_props(rng, &mut b, &GenCfg::SMALL) },
                rng.bytes(n),
            )
        } else {
            let k = rng.usize(15);
            let m = rng.next();
            genpkt::gen_v5(rng, k, m, &GenCfg::SMALL)
        };
        let b = libcodec::enc5(&codec, &it).expect("valid item encodes");
        s.bytes.extend_from_slice(&b);
        s.bounds.push(s.bytes.len());
        s.items.push(it);
    }
    s
}

/// generic piece rules for one assembled PUBLISH
fn piece_rules(pieces: &[(usize, bool)], declared: usize, finals: u32, min_chunk: u32) -> Result<(), String> {
    let total: usize = pieces.iter().map(|p| p.0).sum();
    if total != declared {
        return Err(format!("pieces add up to {total}, declared {declared}"));
    }
    let final_marks = pieces.iter().filter(|p| p.1).count() as u32;
    // the first piece (inside the PUBLISH announcement) is "final" when it completes the payload
    if final_marks != 1 || !pieces.last().is_some_and(|p| p.1) {
        return Err(format!("{final_marks} pieces marked final (finals via chunks {finals}), last piece final = {:?}", pieces.last()));
    }
    for (i, (len, fin)) in pieces.iter().enumerate() {
        if !*fin && *len > 0 && (*len as u64) < min_chunk as u64 {
            return Err(format!("non-final piece #{i} has {len} bytes, configured minimum {min_chunk}"));
        }
    }
    Ok(())
}

fn check_delivery3(rep: &Report, s: &Stream3, cuts: &[usize], min_chunk: u32, descr: &[String]) {
    let codec = c3::Codec::new();
    codec.set_min_chunk_size(min_chunk);
    let f = libcodec::feed3(&codec, &s.bytes, cuts);
    rep.eval();
    if let Some(e) = f.error {
        vio(rep, "v3", format!("valid stream rejected under some fragmentation: {e:?}"), format!("{e:?} after {} events", f.events.len()), &s.bytes, cuts, min_chunk, descr);
        return;
    }
    if f.left != 0 {
        vio(rep, "v3", "bytes left undecoded at the end of a valid stream".into(), format!("{} bytes left", f.left), &s.bytes, cuts, min_chunk, descr);
    }
    // every item must have consumed exactly up to a packet boundary when it completes
    match libcodec::assemble(&f.events, |p: &c3::Publish| p.payload_size) {
        Err(e) => vio(rep, "v3", format!("event sequence malformed: {e}"), e, &s.bytes, cuts, min_chunk, descr),
        Ok((whole, open)) => {
            if open || whole.len() != s.items.len() {
                vio(rep, "v3", "packet sequence differs from the stream".into(), format!("{} packets decoded (payload open = {open}), {} sent", whole.len(), s.items.len()), &s.bytes, cuts, min_chunk, descr);
                return;
            }
            for (k, (w, it)) in whole.iter().zip(&s.items).enumerate() {
                let same = match (w, it) {
                    (Whole::Packet(a, _), Item3::Packet(b)) => a == b,
                    (Whole::Publish { pkt, payload, pieces, finals, .. }, Item3::Publish(b, pl)) => {
                        rep.count("publishes_checked", 1);
                        if pieces.len() > 1 {
                            rep.count("publishes_streamed_in_pieces", 1);
                        }
                        rep.max("max_pieces_per_publish", pieces.len() as u64);
                        if let Err(e) = piece_rules(pieces, b.payload_size as usize, *finals, min_chunk) {
                            vio(rep, "v3", format!("payload pieces: {}", e.split(',').next().unwrap_or("")), format!("packet #{k}: {e}; pieces {:?}", &pieces[..pieces.len().min(12)]), &s.bytes, cuts, min_chunk, descr);
                        }
                        pkt == b && payload == pl
                    }
                    _ => false,
                };
                if !same {
                    vio(rep, "v3", "decoded packet differs from the one sent".into(), format!("packet #{k} ({})", descr[k]), &s.bytes, cuts, min_chunk, descr);
                }
            }
        }
    }
}

fn check_delivery5(rep: &Report, s: &Stream5, cuts: &[usize], min_chunk: u32, descr: &[String]) {
    let codec = c5::Codec::new();
    codec.set_min_chunk_size(min_chunk);
    let f = libcodec::feed5(&codec, &s.bytes, cuts);
    rep.eval();
    if let Some(e) = f.error {
        vio(rep, "v5", format!("valid stream rejected under some fragmentation: {e:?}"), format!("{e:?} after {} events", f.events.len()), &s.bytes, cuts, min_chunk, descr);
        return;
    }
    if f.left != 0 {
        vio(rep, "v5", "bytes left undecoded at the end of a valid stream".into(), format!("{} bytes left", f.left), &s.bytes, cuts, min_chunk, descr);
    }
    match libcodec::assemble(&f.events, |p: &c5::Publish| p.payload_size) {
        Err(e) => vio(rep, "v5", format!("event sequence malformed: {e}"), e, &s.bytes, cuts, min_chunk, descr),
        Ok((whole, open)) => {
            if open || whole.len() != s.items.len() {
                vio(rep, "v5", "packet sequence differs from the stream".into(), format!("{} packets decoded (payload open = {open}), {} sent", whole.len(), s.items.len()), &s.bytes, cuts, min_chunk, descr);
                return;
            }
            for (k, (w, it)) in whole.iter().zip(&s.items).enumerate() {
                let same = match (w, it) {
                    (Whole::Packet(a, _), Item5::Packet(b)) => a == b,
                    (Whole::Publish { pkt, payload, pieces, finals, .. }, Item5::Publish(b, pl)) => {
                        rep.count("publishes_checked", 1);
                        if pieces.len() > 1 {
                            rep.count("publishes_streamed_in_pieces", 1);
                        }
                        rep.max("max_pieces_per_publish", pieces.len() as u64);
                        if let Err(e) = piece_rules(pieces, b.payload_size as usize, *finals, min_chunk) {
                            vio(rep, "v5", format!("payload pieces: {}", e.split(',').next().unwrap_or("")), format!("packet #{k}: {e}; pieces {:?}", &pieces[..pieces.len().min(12)]), &s.bytes, cuts, min_chunk, descr);
                        }
                        pkt == b && payload == pl
                    }
                    _ => false,
                };
                if !same {
                    vio(rep, "v5", "decoded packet differs from the one sent".into(), format!("packet #{k} ({})", descr[k]), &s.bytes, cuts, min_chunk, descr);
                }
            }
        }
    }
}

fn cut_sets(rng: &mut Rng, len: usize, bounds: &[usize], many: bool) -> Vec<Vec<usize>> {
    let mut v: Vec<Vec<usize>> = vec![vec![]];
    if len < 2 {
        return v;
    }
    if len <= 70_000 {
        v.push((1..len).collect()); // byte at a time
    }
    // every single cut for short streams, sampled single cuts otherwise (biased to boundaries)
    if len <= 300 {
        for c in 1..len {
            v.push(vec![c]);
        }
    } else {
        for _ in 0..if many { 40 } else { 12 } {
            let c = if rng.bool() {
                let b = *rng.pick(bounds);
                (b as i64 + rng.range(0, 8) as i64 - 4).clamp(1, len as i64 - 1) as usize
            } else {
                1 + rng.usize(len - 1)
            };
            v.push(vec![c]);
        }
    }
    // fixed-size fragments
    for sz in [2usize, 3, 7, 100, 1024, 4096, 16384, 65536] {
        if sz < len && (len / sz) < 200_000 {
            v.push((1..len.div_ceil(sz)).map(|i| i * sz).collect());
        }
    }
    for _ in 0..if many { 24 } else { 8 } {
        let k = 1 + rng.usize(12);
        let mut cs: Vec<usize> = (0..k).map(|_| 1 + rng.usize(len - 1)).collect();
        cs.sort_unstable();
        cs.dedup();
        v.push(cs);
    }
    v
}

pub fn run(opts: &Opts) -> i32 {
    let rep = Report::new(
        opts,
        "exploration",
        "streams of 1..6 valid library-encoded packets (PUBLISH payload sizes 0..300 KiB around chunk, 64 KiB and \
         varint boundaries) x fragmentations (ALL 2^(n-1) cut sets for streams up to the stated length, every single \
         cut, byte-at-a-time, fixed-size fragments, random cut sets) x min_chunk_size in {0,1,4,1024,32768}, v3 and v5 \
         codecs; plus connection-level delivery to a payload-reading handler (fragment writes x reader pace x buffer \
         sizes). distinct = distinct (stream, cut set, min chunk)",
    );
    if let Some(p) = &opts.replay {
        let v: Value = serde_json::from_str(&std::fs::read_to_string(p).expect("replay file")).expect("json");
        if let Some(code) = super::c10_conn::replay_conn(&v) {
            if code == 1 {
                println!("VIOLATION property=C10 replay={}", p.display());
            }
            return code;
        }
    }
    let quick = opts.tier == Tier::Quick;
    let min_chunks = [0u32, 1, 4, 1024, 32768];

    // ---- A1. exhaustive cut sets on short streams
    let (n_short, max_short) = if quick { (40u64, 15usize) } else { (200, 18) };
    pool::par_for(n_short * 2, None, |i| {
        let mut rng = Rng::for_case(opts.seed, "C10-short", i);
        let v5 = i % 2 == 1;
        // build a stream of small packets not longer than max_short bytes
        let (bytes_len, run_one): (usize, Box<dyn Fn(&[usize], u32)>) = if v5 {
            let mut s;
            loop {
                let k = 1 + rng.usize(3);
                s = gen_stream5(&mut rng, k, true, false);
                if s.bytes.len() <= max_short && s.bytes.len() >= 6 {
                    break;
                }
                rng.next();
            }
            let descr: Vec<String> = s.items.iter().map(|it| match it { Item5::Packet(p) => map::brief(&map::v5_packet(p)), Item5::Publish(p, pl) => map::brief(&map::v5_publish(p, pl)) }).collect();
            rep.sample(6, || json!({"exhaustive_stream_v5": descr, "bytes": hex_short(&s.bytes)}));
            let rep = &rep;
            (s.bytes.len(), Box::new(move |cuts: &[usize], mc: u32| check_delivery5(rep, &s, cuts, mc, &descr)))
        } else {
            let mut s;
            loop {
                let k = 1 + rng.usize(3);
                s = gen_stream3(&mut rng, k, true, false);
                if s.bytes.len() <= max_short && s.bytes.len() >= 6 {
                    break;
                }
                rng.next();
            }
            let descr: Vec<String> = s.items.iter().map(|it| match it { Item3::Packet(p) => map::brief(&map::v3_packet(p)), Item3::Publish(p, pl) => map::brief(&map::v3_publish(p, pl)) }).collect();
            rep.sample(6, || json!({"exhaustive_stream_v3": descr, "bytes": hex_short(&s.bytes)}));
            let rep = &rep;
            (s.bytes.len(), Box::new(move |cuts: &[usize], mc: u32| check_delivery3(rep, &s, cuts, mc, &descr)))
        };
        let n = bytes_len;
        let r = pool::catch(|| {
            for mask in 0u32..(1u32 << (n - 1)) {
                let cuts: Vec<usize> = (1..n).filter(|c| mask >> (c - 1) & 1 == 1).collect();
                let mc = min_chunks[(mask as usize) % 3]; // 0, 1, 4 matter for payloads of <= 4 bytes
                run_one(&cuts, mc);
            }
        });
        rep.count("exhaustive_streams", 1);
        rep.count("exhaustive_cut_sets", 1u64 << (n - 1));
        rep.distinct(pool::mix(i, n as u64));
        if let Err(p) = r {
            rep.violation(Violation { signature: p.signature(), what: format!("panic: {} at {}", p.msg, p.location), replay: json!({"tag": format!("short/{i}")}) });
        }
        After::Continue
    });

    // ---- A2. longer streams, sampled fragmentations
    let n_long = ((if quick { 6_000.0 } else { 150_000.0 }) * opts.scale) as u64;
    pool::par_for(n_long, None, |i| {
        let mut rng = Rng::for_case(opts.seed, "C10-long", i);
        let n = 1 + rng.usize(6);
        let big = rng.chance(1, if quick { 40 } else { 15 });
        let r = if i % 2 == 0 {
            let s = gen_stream3(&mut rng, n, false, big);
            let descr: Vec<String> = s.items.iter().map(|it| match it { Item3::Packet(p) => map::brief(&map::v3_packet(p)), Item3::Publish(p, pl) => map::brief(&map::v3_publish(p, pl)) }).collect();
            if i < 8 {
                rep.sample(12, || json!({"stream_v3": descr, "len": s.bytes.len()}));
            }
            pool::catch(|| {
                for cuts in cut_sets(&mut rng, s.bytes.len(), &s.bounds, !quick) {
                    let mc = *rng.pick(&min_chunks);
                    rep.distinct(hash_bytes(&s.bytes[..s.bytes.len().min(64)]) ^ pool::mix(cuts.len() as u64, cuts.first().copied().unwrap_or(0) as u64) ^ mc as u64);
                    check_delivery3(&rep, &s, &cuts, mc, &descr);
                }
            })
        } else {
            let s = gen_stream5(&mut rng, n, false, big);
            let descr: Vec<String> = s.items.iter().map(|it| match it { Item5::Packet(p) => map::brief(&map::v5_packet(p)), Item5::Publish(p, pl) => map::brief(&map::v5_publish(p, pl)) }).collect();
            if i < 8 {
                rep.sample(12, || json!({"stream_v5": descr, "len": s.bytes.len()}));
            }
            pool::catch(|| {
                for cuts in cut_sets(&mut rng, s.bytes.len(), &s.bounds, !quick) {
                    let mc = *rng.pick(&min_chunks);
                    rep.distinct(hash_bytes(&s.bytes[..s.bytes.len().min(64)]) ^ pool::mix(cuts.len() as u64, cuts.first().copied().unwrap_or(0) as u64) ^ mc as u64);
                    check_delivery5(&rep, &s, &cuts, mc, &descr);
                }
            })
        };
        rep.count("long_streams", 1);
        if let Err(p) = r {
            rep.violation(Violation { signature: p.signature(), what: format!("panic: {} at {}", p.msg, p.location), replay: json!({"tag": format!("long/{i}")}) });
        }
        After::Continue
    });

    // ---- B. connection level
    // (the strict interpreter stage covers the pure codec part only)
    if std::env::var("VERIF_SANITIZER").as_deref() != Ok("miri") {
        super::c10_conn::run_part(opts, &rep);
    }

    rep.extra("exhaustive_stream_max_len", json!(max_short));
    rep.assume("streams are produced by the library encoder from generated values (their validity is C01's subject)");
    rep.require("exhaustive_cut_sets", 10_000);
    rep.require("publishes_streamed_in_pieces", 1_000);
    rep.finish()
}

pub fn _unused(_: Value) {}
