//! C11 — inbound packet identifiers stay reserved until their exchange is acknowledged.
//!
//! Exhaustive (DFS) histories over ids {1,2} and kinds {PUBLISH q1, PUBLISH q2, SUBSCRIBE,
//! UNSUBSCRIBE, PUBREL}; every handler is either gated or completes at once (ok / v5 negative
//! ack); gated handlers may be released between sends. `RefInboundIds` tracks, per id:
//! Free | HandlerRunning | DoneAckPending | AwaitRel | RelPending. A reuse is attempted only while
//! the first handler is running or after the final ack was parsed on the peer side (the interval
//! in between is left open by the statement and never tested).
use serde_json::json;

use crate::app::{App, Ev, GateKind, Outcome, ProtoAnswer, ProtoPlan, PubPlan, ReadMode, StopClass};
use crate::conn::{self, ConnCfg, Role};
use crate::explore::{Choose, Dfs, RandomChoice, Run, exec};
use crate::pool::{self, After, Rng};
use crate::refcodec::Packet as R;
use crate::report::{Opts, Report, Tier, Violation};

#[derive(Debug, Clone, Copy, PartialEq, Eq)]
enum Kind {
    Pub1,
    Pub2,
    Sub,
    Unsub,
    Rel,
}

#[derive(Debug, Clone, Copy, PartialEq, Eq)]
enum IdState {
    Free,
    /// handler of (kind) entered and gated
    Running(Kind, u32 /*gate call*/),
    /// handler finished, final ack of this phase not yet seen on the wire
    AckPending(Kind),
    /// QoS 2: PUBREC seen, waiting for PUBREL
    AwaitRel,
    /// PUBREL accepted, PUBCOMP not yet seen
    RelPending,
}

struct Outc {
    violations: Vec<(String, String)>,
    log: Vec<String>,
    sig: u64,
    trace: Vec<u32>,
    reuse_refused: u64,
    reuse_after_ack_accepted: u64,
    fresh_accepted: u64,
    rel_refused: u64,
    sends: u64,
}

async fn history(role: Role, max_len: usize, ch: &mut dyn Choose) -> Outc {
    let app = App::new("c11");
    let mut cfg = ConnCfg::new(role);
    cfg.max_qos = 2;
    cfg.max_receive = 16;
    let v5 = role.is_v5();
    let mut c = conn::start(&cfg, app.clone()).await;
    let mut o = Outc { violations: vec![], log: vec![], sig: 0, trace: vec![], reuse_refused: 0, reuse_after_ack_accepted: 0, fresh_accepted: 0, rel_refused: 0, sends: 0 };
    let kinds: &[Kind] = if role.is_server() { &[Kind::Pub1, Kind::Pub2, Kind::Sub, Kind::Unsub, Kind::Rel] } else { &[Kind::Pub1, Kind::Pub2, Kind::Rel] };
    let mut st = [IdState::Free; 3]; // index 1,2
    let mut used_before = [false; 3];
    let mut wire_seen = 0usize;
    let code = if v5 { Some(0) } else { None };

    // process new wire packets: acks free ids
    macro_rules! absorb {
        () => {{
            let wire = app.wire();
            for (_, p) in wire.iter().skip(wire_seen) {
                match p {
                    R::PubAck { pid, code, .. } if *pid <= 2 && code.unwrap_or(0) != 0x91 => {
                        if matches!(st[*pid as usize], IdState::AckPending(Kind::Pub1) | IdState::AckPending(Kind::Pub2) | IdState::Running(Kind::Pub1, _)) {
                            st[*pid as usize] = IdState::Free;
                        }
                    }
                    R::PubRec { pid, code, .. } if *pid <= 2 && code.unwrap_or(0) != 0x91 => {
                        if matches!(st[*pid as usize], IdState::AckPending(Kind::Pub2)) {
                            // a negative PUBREC (>= 0x80) ends the exchange
                            st[*pid as usize] = if code.unwrap_or(0) >= 0x80 { IdState::Free } else { IdState::AwaitRel };
                        }
                    }
                    R::PubComp { pid, code, .. } if *pid <= 2 && code.unwrap_or(0) != 0x92 => {
                        if matches!(st[*pid as usize], IdState::RelPending | IdState::AckPending(Kind::Rel)) {
                            st[*pid as usize] = IdState::Free;
                        }
                    }
                    R::SubAck { pid, codes, .. } if *pid <= 2 && !codes.contains(&0x91) => {
                        if matches!(st[*pid as usize], IdState::AckPending(Kind::Sub)) {
                            st[*pid as usize] = IdState::Free;
                        }
                    }
                    R::UnsubAck { pid, codes, .. } if *pid <= 2 && !codes.contains(&0x91) => {
                        if matches!(st[*pid as usize], IdState::AckPending(Kind::Unsub)) {
                            st[*pid as usize] = IdState::Free;
                        }
                    }
                    _ => {}
                }
            }
            wire_seen = wire.len();
        }};
    }

    let mut n = 0;
    while n < max_len && app.stops().is_empty() && !c.done() {
        // optionally release one running handler first
        let running: Vec<(usize, u32, Kind)> = (1..=2).filter_map(|i| if let IdState::Running(k, call) = st[i] { Some((i, call, k)) } else { None }).collect();
        if !running.is_empty() {
            let pick = ch.pick(running.len() + 1);
            if pick > 0 {
                let (i, call, k) = running[pick - 1];
                let gk = if matches!(k, Kind::Pub1 | Kind::Pub2) { GateKind::Pub } else { GateKind::Proto };
                // v5: success, a positive non-success reason code (the exchange goes on as for
                // success) or a negative acknowledgement
                let outcome = if v5 && gk == GateKind::Pub {
                    match ch.pick(4) {
                        // 0x80 is the smallest negative reason code
                        0 => Outcome::Nack(if ch.chance(1, 2) { 0x80 } else { 0x87 }),
                        1 => Outcome::AckCode(0x10),
                        _ => Outcome::Ok,
                    }
                } else {
                    Outcome::Ok
                };
                app.open_gate((gk, call), outcome);
                st[i] = IdState::AckPending(k);
                c.settle().await;
                absorb!();
                continue;
            }
        }
        // choose a send the statement has an opinion about
        let kind = kinds[ch.pick(kinds.len())];
        let id = 1 + ch.pick(2);
        let state = st[id];
        let expect_accept = match (state, kind) {
            (IdState::Free, Kind::Rel) => false,
            (IdState::Free, _) => true,
            (IdState::Running(..), Kind::Rel) => {
                n += 1;
                continue; // left open
            }
            (IdState::Running(..), _) => false,
            (IdState::AckPending(_), _) | (IdState::RelPending, _) => {
                n += 1;
                continue; // interval left open by the statement
            }
            (IdState::AwaitRel, Kind::Rel) => true,
            (IdState::AwaitRel, _) => false,
        };
        // protocol messages are handled one at a time: while one of their handlers is running a
        // further accepted protocol message is only buffered, so "entered" cannot be observed
        let proto_running = (1..=2).any(|i| matches!(st[i], IdState::Running(Kind::Sub | Kind::Unsub | Kind::Rel, _)));
        let is_proto = matches!(kind, Kind::Sub | Kind::Unsub | Kind::Rel);
        if expect_accept && is_proto && proto_running {
            n += 1;
            continue;
        }
        let gated = expect_accept && ch.chance(1, 2);
        if expect_accept {
            let immediate = if v5 && !gated && ch.chance(1, 4) { Outcome::AckCode(0x10) } else { Outcome::Ok };
            match kind {
                Kind::Pub1 | Kind::Pub2 => app.pub_plans.borrow_mut().push_back(PubPlan { read: ReadMode::Eager, gated, outcome: immediate }),
                _ => app.proto_plans.borrow_mut().push_back(ProtoPlan { gated, answer: ProtoAnswer::Ack }),
            }
        }
        // a re-sent PUBLISH carries the DUP flag: it is still a second packet with an identifier in use
        let dup = !matches!(state, IdState::Free) && matches!(kind, Kind::Pub1 | Kind::Pub2) && ch.pick(2) == 1;
        let pkt = match kind {
            Kind::Pub1 => R::Publish { dup, qos: 1, retain: false, topic: "a".into(), pid: Some(id as u16), props: vec![], payload: vec![n as u8] },
            Kind::Pub2 => R::Publish { dup, qos: 2, retain: false, topic: "a".into(), pid: Some(id as u16), props: vec![], payload: vec![n as u8] },
            Kind::Sub => R::Subscribe { pid: id as u16, props: vec![], filters: vec![("f".into(), 0)] },
            Kind::Unsub => R::Unsubscribe { pid: id as u16, props: vec![], filters: vec!["f".into()] },
            Kind::Rel => R::PubRel { pid: id as u16, code, props: None },
        };
        let enters_before = app.count(|e| matches!(e, Ev::PubEnter { .. } | Ev::ProtoEnter { .. }));
        let wire_before = app.wire().len();
        c.peer.send(&pkt);
        o.sends += 1;
        c.settle().await;
        let entered = app.count(|e| matches!(e, Ev::PubEnter { .. } | Ev::ProtoEnter { .. })) > enters_before;
        let stops = app.stops();
        let new_wire: Vec<R> = app.wire().iter().skip(wire_before).map(|x| x.1.clone()).collect();
        let descr = format!("{kind:?}{} id {id} while id is {state:?}", if dup { " (DUP)" } else { "" });
        if expect_accept {
            if !entered {
                o.violations.push((
                    format!("packet with a free identifier was not delivered to its handler ({kind:?}, id previously used: {})", used_before[id]),
                    format!("{descr}; stops {stops:?}; wire {:?}", new_wire.iter().map(crate::map::brief).collect::<Vec<_>>()),
                ));
                break;
            }
            if used_before[id] {
                o.reuse_after_ack_accepted += 1;
            } else {
                o.fresh_accepted += 1;
            }
            used_before[id] = true;
            // which gate / state
            let call = app.events().iter().rev().find_map(|(_, e)| match e {
                Ev::PubEnter { call, .. } | Ev::ProtoEnter { call, .. } => Some(*call),
                _ => None,
            }).unwrap_or(0);
            st[id] = match (kind, gated) {
                (Kind::Rel, false) => IdState::RelPending,
                // a gated PUBREL handler: the id stays in use until PUBCOMP has been produced
                (k, true) => IdState::Running(k, call),
                (k, false) => IdState::AckPending(k),
            };
            absorb!();
        } else {
            // must be refused
            if entered {
                o.violations.push((
                    format!("packet with an identifier that is in use was delivered to a handler ({kind:?} while {})", state_name(state)),
                    descr.clone(),
                ));
                break;
            }
            if !v5 {
                // the violation is reported in request order: it may have to wait for handlers
                // of earlier requests. The history ends here; release everything and look.
                for _ in 0..16 {
                    if app.open_all(Outcome::Ok) == 0 {
                        break;
                    }
                    c.settle().await;
                }
                let stops = app.stops();
                // a refused PUBREL only has to end the connection; an in-use id must be reported
                // as a protocol violation
                let ok = stops.len() == 1 && (kind == Kind::Rel || stops[0].1 == StopClass::Protocol);
                if !ok {
                    o.violations.push((
                        format!("v3: refusal did not end the connection with a protocol violation ({kind:?} while {})", state_name(state)),
                        format!("{descr}; stops {stops:?}"),
                    ));
                }
                if kind == Kind::Rel {
                    o.rel_refused += 1;
                } else {
                    o.reuse_refused += 1;
                }
                break;
            }
            // v5: the prescribed negative ack, connection continues. The ack of a refused PUBREL
            // is an ordered response: give earlier handlers a chance to finish first.
            if kind == Kind::Rel && !new_wire.iter().any(|p| matches!(p, R::PubComp { .. })) {
                let running: Vec<(usize, u32, Kind)> = (1..=2).filter_map(|i| if let IdState::Running(k, call) = st[i] { Some((i, call, k)) } else { None }).collect();
                for (i, call, k) in running {
                    let gk = if matches!(k, Kind::Pub1 | Kind::Pub2) { GateKind::Pub } else { GateKind::Proto };
                    app.open_gate((gk, call), Outcome::Ok);
                    st[i] = IdState::AckPending(k);
                }
                c.settle().await;
            }
            let new_wire: Vec<R> = app.wire().iter().skip(wire_before).map(|x| x.1.clone()).collect();
            let stops = app.stops();
            let ok = match kind {
                Kind::Pub1 | Kind::Pub2 => new_wire.iter().any(|p| matches!(p, R::PubAck { pid, code: Some(0x91), .. } | R::PubRec { pid, code: Some(0x91), .. } if *pid as usize == id)),
                Kind::Sub => new_wire.iter().any(|p| matches!(p, R::SubAck { pid, codes, .. } if *pid as usize == id && !codes.is_empty() && codes.iter().all(|c| *c == 0x91))),
                Kind::Unsub => new_wire.iter().any(|p| matches!(p, R::UnsubAck { pid, codes, .. } if *pid as usize == id && !codes.is_empty() && codes.iter().all(|c| *c == 0x91))),
                Kind::Rel => new_wire.iter().any(|p| matches!(p, R::PubComp { pid, code: Some(0x92), .. } if *pid as usize == id)),
            };
            if !ok || !stops.is_empty() {
                o.violations.push((
                    format!("v5: refusal is not the prescribed negative acknowledgement ({kind:?} while {})", state_name(state)),
                    format!("{descr}; stops {stops:?}; wire {:?}", new_wire.iter().map(crate::map::brief).collect::<Vec<_>>()),
                ));
                break;
            }
            if kind == Kind::Rel {
                o.rel_refused += 1;
            } else {
                o.reuse_refused += 1;
            }
        }
        n += 1;
    }
    o.sig = app.trace_signature();
    o.log = app.render(50);
    c.finish().await;
    o.trace = ch.trace();
    o
}

fn state_name(s: IdState) -> &'static str {
    match s {
        IdState::Free => "free",
        IdState::Running(..) => "its handler is still running",
        IdState::AckPending(_) => "ack pending",
        IdState::AwaitRel => "PUBREC sent, PUBCOMP not yet",
        IdState::RelPending => "PUBREL accepted",
    }
}

pub fn run(opts: &Opts) -> i32 {
    let rep = Report::new(
        opts,
        "exploration",
        "stateless DFS over histories of up to L sends (L = 4 quick, 5 thorough) over ids {1,2} x kinds {PUBLISH q1, \
         PUBLISH q2, SUBSCRIBE, UNSUBSCRIBE, PUBREL} (clients: publishes and PUBREL) x handler gated / immediate x \
         optional release (ok / v5 negative ack) of a running handler before each send; plus seeded random histories \
         of length 12. Oracle RefInboundIds (per-id state machine fed from wire + handler events). distinct = distinct \
         boundary-event trace signatures",
    );
    let quick = opts.tier == Tier::Quick;
    let max_len = if quick { 4 } else { 5 };
    let path_cap: u64 = if quick { 40_000 } else { 3_000_000 };
    let done_all = std::sync::atomic::AtomicU64::new(0);
    // split the tree by the first two choices to use all cores: (role, first kind, first id)
    let mut jobs = Vec::new();
    for role in Role::ALL {
        let nk = if role.is_server() { 5 } else { 3 };
        for k in 0..nk {
            for id in 0..2 {
                jobs.push((role, k, id));
            }
        }
    }
    pool::par_for(jobs.len() as u64, None, |j| {
        let (role, k0, id0) = jobs[j as usize];
        // a chooser that forces the first two picks
        struct Prefixed<'a> {
            pre: Vec<usize>,
            pos: usize,
            inner: &'a mut Dfs,
        }
        impl Choose for Prefixed<'_> {
            fn pick(&mut self, n: usize) -> usize {
                if self.pos < self.pre.len() {
                    let c = self.pre[self.pos].min(n.saturating_sub(1));
                    self.pos += 1;
                    c
                } else {
                    self.inner.pick(n)
                }
            }
            fn chance(&mut self, a: u64, b: u64) -> bool {
                if self.pos < self.pre.len() { self.pick(2) == 1 } else { self.inner.chance(a, b) }
            }
            fn trace(&self) -> Vec<u32> {
                let mut t: Vec<u32> = self.pre.iter().map(|x| *x as u32).collect();
                t.extend(self.inner.trace());
                t
            }
        }
        let mut dfs = Dfs::new();
        let mut after = After::Continue;
        loop {
            let mut d = std::mem::take(&mut dfs);
            let r = exec(async move {
                let o = {
                    let mut p = Prefixed { pre: vec![k0, id0], pos: 0, inner: &mut d };
                    history(role, max_len, &mut p).await
                };
                (o, d)
            });
            rep.eval();
            match r {
                Run::Done((o, d), st) => {
                    dfs = d;
                    rep.distinct(o.sig);
                    rep.count("sends", o.sends);
                    rep.count("reuse_while_in_use_refused", o.reuse_refused);
                    rep.count("reuse_after_ack_accepted", o.reuse_after_ack_accepted);
                    rep.count("fresh_ids_accepted", o.fresh_accepted);
                    rep.count("pubrel_not_in_use_refused", o.rel_refused);
                    rep.count("busy_wait_quiescences(info)", st.spins);
                    if dfs.paths == 7 {
                        rep.sample(6, || json!({"role": role.name(), "choices": o.trace, "log": o.log}));
                    }
                    for (class, what) in &o.violations {
                        rep.violation(Violation {
                            signature: format!("{}: {}", role.name(), pool::abstract_numbers(class)),
                            what: format!("{class} — {what}"),
                            replay: json!({"role": role.name(), "choices": o.trace, "log": o.log}),
                        });
                    }
                }
                Run::Panic(p, _ptail) => {
                    rep.violation(Violation { signature: format!("{}: {}", role.name(), p.signature()), what: format!("panic: {} at {}", p.msg, p.location), replay: json!({"role": role.name()}) });
                    after = After::RetireThread;
                    break;
                }
                Run::Livelock(tail) => {
                    rep.violation(Violation { signature: format!("{}: live-lock", role.name()), what: "step budget exhausted".into(), replay: json!({"role": role.name(), "log": tail}) });
                    after = After::RetireThread;
                    break;
                }
                Run::Watchdog => {
                    rep.inconclusive("watchdog");
                    after = After::RetireThread;
                    break;
                }
            }
            if !dfs.advance() {
                done_all.fetch_add(1, std::sync::atomic::Ordering::Relaxed);
                break;
            }
            if dfs.paths >= path_cap {
                rep.count("subtrees_cut_by_path_cap", 1);
                break;
            }
        }
        rep.count("dfs_paths", dfs.paths.max(1));
        after
    });
    rep.set_exhaustive(done_all.load(std::sync::atomic::Ordering::Relaxed) == jobs.len() as u64);
    rep.extra("history_length", json!(max_len));

    // random longer histories
    let n = ((if quick { 8_000.0 } else { 400_000.0 }) * opts.scale) as u64;
    pool::par_for(n, None, |i| {
        let mut rng = Rng::for_case(opts.seed, "C11", i);
        let role = *rng.pick(&Role::ALL);
        let mut ch = RandomChoice::new(rng);
        let r = exec(async move { history(role, 12, &mut ch).await });
        rep.eval();
        match &r {
            Run::Done(o, _) => {
                rep.distinct(o.sig);
                rep.count("sends", o.sends);
                rep.count("reuse_while_in_use_refused", o.reuse_refused);
                rep.count("reuse_after_ack_accepted", o.reuse_after_ack_accepted);
                rep.count("fresh_ids_accepted", o.fresh_accepted);
                rep.count("pubrel_not_in_use_refused", o.rel_refused);
                for (class, what) in &o.violations {
                    rep.violation(Violation {
                        signature: format!("{}: {}", role.name(), pool::abstract_numbers(class)),
                        what: format!("{class} — {what}"),
                        replay: json!({"role": role.name(), "choices": o.trace, "log": o.log, "seed": opts.seed, "index": i}),
                    });
                }
            }
            Run::Panic(p, _ptail) => rep.violation(Violation { signature: format!("{}: {}", role.name(), p.signature()), what: format!("panic: {} at {}", p.msg, p.location), replay: json!({"seed": opts.seed, "index": i}) }),
            Run::Livelock(tail) => rep.violation(Violation { signature: format!("{}: live-lock", role.name()), what: "step budget exhausted".into(), replay: json!({"log": tail}) }),
            Run::Watchdog => rep.inconclusive("watchdog"),
        }
        r.after()
    });
    rep.assume("the interval between handler completion and the ack appearing on the wire is left open by the statement and is not tested");
    super::c11_after::run_part(opts, &rep);
    rep.require("reuse_while_in_use_refused", 500);
    rep.require("reuse_after_ack_accepted", 500);
    rep.require("pubrel_not_in_use_refused", 100);
    rep.finish()
}
