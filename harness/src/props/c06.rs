//! C06 — acknowledgements reach the right sender, or the connection fails cleanly.
//!
//! A. random walks against a peer that acknowledges everything correctly and in order, including
//!    senders that fail locally (id in use, over-long topic, over peer max packet size): every
//!    other send completes successfully *after* its own ack, ids of outstanding sends are non-zero
//!    and pairwise distinct, and the connection is not ended.
//! B. wrong-acknowledgement matrix (exhaustive): for every kind of outstanding send x every ack
//!    type x {right id, id of the second outstanding send, unknown id} and for "nothing
//!    outstanding" / "duplicate ack": unless the ack answers the oldest outstanding send, no send
//!    completes successfully, nothing panics, and the connection ends with a protocol error.
//! C. long acknowledged history on one connection (packet id wrap-around at 65535).
use std::rc::Rc;

use serde_json::json;

use super::sinkwalk::{self, CapSource, WalkCfg};
use crate::app::{App, Ev, SinkRes, StopClass};
use crate::conn::{self, ConnCfg, Role};
use crate::explore::{RandomChoice, Run, exec};
use crate::pool::{self, After, Rng};
use crate::refcodec::Packet as R;
use crate::report::{Opts, Report, Tier, Violation};
use crate::sink::{Chan, Op, PubSpec, ReceiptCmd, next_op_id};

#[derive(Debug, Clone, Copy, PartialEq, Eq)]
enum Exp {
    Q1,
    Q2Rec,
    Q2Comp,
    Sub,
    Unsub,
    Nothing,
}

#[derive(Debug, Clone, Copy, PartialEq, Eq)]
enum AckT {
    PubAck,
    PubRec,
    PubComp,
    SubAck,
    UnsubAck,
}

#[derive(Debug, Clone, Copy, PartialEq, Eq)]
enum IdV {
    Right,
    Second,
    Unknown,
}

fn ack_packet(v5: bool, t: AckT, pid: u16) -> R {
    let code = if v5 { Some(0) } else { None };
    match t {
        AckT::PubAck => R::PubAck { pid, code, props: None },
        AckT::PubRec => R::PubRec { pid, code, props: None },
        AckT::PubComp => R::PubComp { pid, code, props: None },
        AckT::SubAck => R::SubAck { pid, props: vec![], codes: vec![0] },
        AckT::UnsubAck => R::UnsubAck { pid, props: vec![], codes: if v5 { vec![0] } else { vec![] } },
    }
}

fn expected_ack(e: Exp) -> Option<AckT> {
    match e {
        Exp::Q1 => Some(AckT::PubAck),
        Exp::Q2Rec => Some(AckT::PubRec),
        Exp::Q2Comp => Some(AckT::PubComp),
        Exp::Sub => Some(AckT::SubAck),
        Exp::Unsub => Some(AckT::UnsubAck),
        Exp::Nothing => None,
    }
}

struct MatrixOut {
    violations: Vec<(String, String)>,
    log: Vec<String>,
    sig: u64,
    correct_case: bool,
}

async fn matrix_case(role: Role, e: Exp, t: AckT, idv: IdV, with_second: bool, duplicate: bool) -> MatrixOut {
    let app = App::new("matrix");
    let mut cfg = ConnCfg::new(role);
    cfg.max_send = 8;
    if role == Role::V5Client {
        cfg.connack_props = vec![crate::refcodec::Prop::U16(0x21, 8)];
    }
    let mut c = conn::start(&cfg, app.clone()).await;
    let sink = c.sink();
    let v5 = role.is_v5();
    let mut out = MatrixOut { violations: vec![], log: vec![], sig: 0, correct_case: false };
    let mut ops: Vec<Op> = Vec::new();
    let receipt = Chan::<ReceiptCmd>::new();
    // --- first (oldest) outstanding send
    let first_id = next_op_id();
    match e {
        Exp::Q1 => ops.push(Op::new(&app, first_id, "Q1", sink.send_qos1(&PubSpec::new("m/1", b"first".to_vec())))),
        Exp::Q2Rec | Exp::Q2Comp => {
            let app2 = app.clone();
            ops.push(Op::new(
                &app,
                first_id,
                "Q2",
                sink.send_qos2(&PubSpec::new("m/2", b"first".to_vec()), receipt.clone(), Rc::new(move |ph, res| {
                    app2.log(Ev::SinkRet { op: first_id, n: if ph == "received" { 1 } else { 2 }, res });
                })),
            ));
        }
        Exp::Sub => ops.push(Op::new(&app, first_id, "Sub", sink.subscribe(None, &[("f/#", 0)]))),
        Exp::Unsub => ops.push(Op::new(&app, first_id, "Unsub", sink.unsubscribe(None, &["f/#"]))),
        Exp::Nothing => {}
    }
    for o in ops.iter_mut() {
        o.start();
    }
    c.settle().await;
    // the id the library chose
    let first_pid = app
        .wire()
        .iter()
        .rev()
        .find_map(|(_, p)| match p {
            R::Publish { pid: Some(p), .. } => Some(*p),
            R::Subscribe { pid, .. } | R::Unsubscribe { pid, .. } => Some(*pid),
            _ => None,
        })
        .unwrap_or(0);
    if e != Exp::Nothing && first_pid == 0 {
        out.violations.push(("harness: first send did not reach the wire".into(), format!("{e:?}")));
    }
    if e == Exp::Q2Comp {
        c.peer.send(&ack_packet(v5, AckT::PubRec, first_pid));
        c.settle().await;
        receipt.push(ReceiptCmd::Release);
        c.settle().await;
    }
    // --- optional second outstanding send (QoS 1)
    let mut second_pid = 0;
    if with_second {
        let id2 = next_op_id();
        let mut o = Op::new(&app, id2, "Q1-second", sink.send_qos1(&PubSpec::new("m/s", b"second".to_vec())));
        o.start();
        ops.push(o);
        c.settle().await;
        second_pid = app.wire().iter().rev().find_map(|(_, p)| if let R::Publish { pid: Some(p), payload, .. } = p { (payload == b"second").then_some(*p) } else { None }).unwrap_or(0);
    }
    if duplicate {
        // acknowledge the first correctly, then send the same ack again (now unsolicited)
        if let Some(t0) = expected_ack(e) {
            c.peer.send(&ack_packet(v5, t0, first_pid));
            c.settle().await;
        }
    }
    let oks_before = app.count(|ev| matches!(ev, Ev::SinkRet { res, .. } if res.is_ok()));
    let pid = match idv {
        IdV::Right => first_pid.max(1),
        IdV::Second => second_pid.max(1),
        IdV::Unknown => 777,
    };
    c.peer.send(&ack_packet(v5, t, pid));
    c.settle().await;
    let oks_after = app.count(|ev| matches!(ev, Ev::SinkRet { res, .. } if res.is_ok()));
    let correct = !duplicate && expected_ack(e) == Some(t) && idv == IdV::Right;
    out.correct_case = correct;
    let stops = app.stops();
    if correct {
        if !stops.is_empty() {
            out.violations.push(("correct acknowledgement of the oldest send ended the connection".into(), format!("{stops:?}")));
        }
        if oks_after != oks_before + 1 {
            out.violations.push(("correct acknowledgement did not complete exactly one send".into(), format!("{} completions", oks_after - oks_before)));
        }
    } else {
        if oks_after != oks_before {
            out.violations.push((
                format!("an acknowledgement that does not answer the oldest outstanding send completed a send successfully (expected {:?}, got {t:?}/{idv:?})", expected_ack(e)),
                format!("{} sends completed Ok", oks_after - oks_before),
            ));
        }
        if stops.len() != 1 || stops[0].1 != StopClass::Protocol {
            out.violations.push((
                format!("connection did not end with a protocol error (expected {:?}, got {t:?}/{idv:?})", expected_ack(e)),
                format!("stops: {stops:?}"),
            ));
        }
    }
    // a receipt nobody decided about is dropped now (harness housekeeping)
    receipt.push(ReceiptCmd::Drop);
    c.finish().await;
    if !correct {
        // every send must have resolved, none successfully after the bad ack
        for o in &ops {
            match o.result() {
                None => out.violations.push(("send still pending after the connection ended".into(), o.what.clone())),
                Some(r) if r.is_ok() && !duplicate => {
                    // Q2 phase results are logged separately; final Ok here means a completed send
                    if app.count(|ev| matches!(ev, Ev::SinkRet { res, .. } if res.is_ok())) != oks_before {
                        out.violations.push(("send completed successfully after a wrong acknowledgement".into(), format!("{} -> {r:?}", o.what)));
                    }
                }
                _ => {}
            }
        }
    }
    out.sig = app.trace_signature();
    out.log = app.render(40);
    out
}

/// C: `n` acknowledged QoS 1 sends on one connection (auto ids), mixed with a few explicit ids
async fn wrap_case(role: Role, n: u32) -> Vec<(String, String)> {
    let app = App::new("wrap");
    let mut cfg = ConnCfg::new(role);
    cfg.max_send = 4;
    if role == Role::V5Client {
        cfg.connack_props = vec![crate::refcodec::Prop::U16(0x21, 4)];
    }
    let mut c = conn::start(&cfg, app.clone()).await;
    let sink = c.sink();
    let v5 = role.is_v5();
    let mut vio = Vec::new();
    let mut seen_ids: std::collections::HashSet<u16> = std::collections::HashSet::new();
    let mut last: u16 = 0;
    let mut wrapped = false;
    let mut wire_seen = 0usize;
    let mut k = 0u32;
    'outer: while k < n {
        // three sends outstanding at the same time (the window is 4)
        let mut ops = Vec::new();
        for j in 0..3u32 {
            let fut = sink.send_qos1(&PubSpec::new("w", (k + j).to_be_bytes().to_vec()));
            let mut op = Op::new(&app, next_op_id(), "q1", fut);
            op.start();
            ops.push(op);
        }
        c.settle().await;
        // (only the new part of the log is looked at: the history is long)
        let pids: Vec<u16> = app.events().iter().skip(wire_seen).filter_map(|(_, e)| if let Ev::Wire(R::Publish { pid: Some(p), .. }) = e { Some(*p) } else { None }).collect();
        let log_mark = wire_seen;
        wire_seen = app.len();
        if pids.len() != 3 {
            vio.push(("send did not reach the wire on a healthy connection".into(), format!("sends #{k}..: {} of 3 on the wire, results {:?}", pids.len(), ops.iter().map(Op::result).collect::<Vec<_>>())));
            break;
        }
        if pids[0] == pids[1] || pids[1] == pids[2] || pids[0] == pids[2] {
            vio.push(("concurrently outstanding sends share a packet identifier".into(), format!("sends #{k}..: ids {pids:?}")));
            break;
        }
        for (j, pid) in pids.iter().enumerate() {
            if *pid == 0 {
                vio.push(("packet identifier 0 used".into(), format!("send #{}", k + j as u32)));
            }
            if *pid < last {
                wrapped = true;
            }
            last = *pid;
            seen_ids.insert(*pid);
        }
        for (j, pid) in pids.iter().enumerate() {
            c.peer.send(&ack_packet(v5, AckT::PubAck, *pid));
            c.settle().await;
            if !matches!(ops[j].result(), Some(r) if r.is_ok()) {
                vio.push(("acknowledged send did not complete successfully".into(), format!("send #{} pid {pid}: {:?}", k + j as u32, ops[j].result())));
                break 'outer;
            }
        }
        if app.events().iter().skip(log_mark).any(|(_, e)| matches!(e, Ev::CtlEnter { stop: Some(_), .. })) {
            vio.push(("connection ended during a correctly acknowledged history".into(), format!("send #{k}: {:?}", app.stops())));
            break;
        }
        k += 3;
        if k % 1536 == 0 {
            app.log(Ev::Note(format!("progress {k}")));
        }
    }
    app.extra.borrow_mut().insert("wrapped".into(), wrapped.to_string());
    app.extra.borrow_mut().insert("distinct_ids".into(), seen_ids.len().to_string());
    if n > 65_535 && !wrapped {
        vio.push(("identifier counter did not wrap".into(), format!("{} distinct ids", seen_ids.len())));
    }
    c.finish().await;
    vio
}

/// D: a send that fails locally must not poison its caller-chosen packet id: the retry with the
/// same id (a send that can be encoded) goes out and completes when acknowledged
async fn retry_case(role: Role, fail: u8, qos: u8, pid: u16) -> Vec<(String, String)> {
    let app = App::new("retry");
    let mut cfg = ConnCfg::new(role);
    cfg.max_send = 4;
    cfg.peer_max_packet_size = Some(200);
    if role == Role::V5Client {
        cfg.connack_props = vec![crate::refcodec::Prop::U16(0x21, 4), crate::refcodec::Prop::U32(0x27, 200)];
    }
    let mut c = conn::start(&cfg, app.clone()).await;
    let sink = c.sink();
    let v5 = role.is_v5();
    let mut vio = Vec::new();
    let what = format!("{} failing kind {fail} qos {qos} id {pid}", role.name());
    let bad = match fail {
        0 => PubSpec::new(&"t".repeat(65_540), vec![1]).pid(Some(pid)),
        _ => PubSpec::new("big", vec![7; 2_000]).pid(Some(pid)),
    };
    let start = |spec: &PubSpec, name: &str| {
        let fut = if qos == 1 {
            sink.send_qos1(spec)
        } else {
            let ch = crate::sink::Chan::new();
            ch.push(crate::sink::ReceiptCmd::Release);
            sink.send_qos2(spec, ch, std::rc::Rc::new(|_, _| {}))
        };
        let mut op = Op::new(&app, next_op_id(), name, fut);
        op.start();
        op
    };
    let op1 = start(&bad, "failing");
    c.settle().await;
    match op1.result() {
        Some(SinkRes::ErrEncode(_)) => {}
        other => {
            if !(fail == 1 && !v5) {
                vio.push(("send that cannot be encoded did not fail locally".into(), format!("{other:?} — {what}")));
            }
            // v3 has no outbound size limit: the big publish is simply sent
            if fail == 1 && !v5 {
                return vio;
            }
        }
    }
    let wire_before = app.wire().len();
    let op2 = start(&PubSpec::new("ok", vec![1, 2, 3]).pid(Some(pid)), "retry");
    c.settle().await;
    let on_wire = app.wire().iter().skip(wire_before).any(|(_, p)| matches!(p, R::Publish { pid: Some(p), .. } if *p == pid));
    if !on_wire {
        vio.push(("retry with the packet id of a send that failed locally was refused".into(), format!("{:?} — {what}", op2.result())));
        return vio;
    }
    if qos == 1 {
        c.peer.send(&ack_packet(v5, AckT::PubAck, pid));
    } else {
        c.peer.send(&ack_packet(v5, AckT::PubRec, pid));
        c.settle().await;
        c.peer.send(&ack_packet(v5, AckT::PubComp, pid));
    }
    c.settle().await;
    if !matches!(op2.result(), Some(r) if r.is_ok()) || !app.stops().is_empty() {
        vio.push(("correctly acknowledged retry did not complete successfully".into(), format!("{:?}, stops {:?} — {what}", op2.result(), app.stops())));
    }
    c.finish().await;
    vio
}

pub fn run(opts: &Opts) -> i32 {
    let rep = Report::new(
        opts,
        "exploration",
        "A: seeded random walks with a correct in-order peer and senders that fail locally; B: exhaustive wrong-ack \
         matrix {Q1, Q2 awaiting PUBREC, Q2 awaiting PUBCOMP, SUBSCRIBE, UNSUBSCRIBE, nothing} x {PUBACK, PUBREC, PUBCOMP, \
         SUBACK, UNSUBACK} x {right id, second outstanding id, unknown id} x {one / two outstanding} + duplicate acks, 4 \
         roles (server roles: publish acks only); C: long acknowledged history with three sends outstanding at a time (id \
         wrap-around in the thorough tier); D: retry with the same caller-chosen id after a send that failed locally. \
         distinct = distinct boundary-event trace signatures",
    );
    let quick = opts.tier == Tier::Quick;

    // ---- A
    let n = ((if quick { 30_000.0 } else { 2_000_000.0 }) * opts.scale) as u64;
    pool::par_for(n, None, |i| {
        let mut rng = Rng::for_case(opts.seed, "C06-walk", i);
        let role = *rng.pick(&Role::ALL);
        let cap = 1 + rng.below(4) as u16;
        let cfg = WalkCfg {
            role,
            cap,
            cap_source: *rng.pick(&[CapSource::Config, CapSource::Handshake, CapSource::PeerReceiveMax]),
            max_senders: cap as usize + 4,
            steps: 12 + rng.usize(25),
            allow_cancel: rng.chance(1, 4),
            allow_backpressure: false,
            allow_qos2: rng.chance(2, 3),
            allow_subscribe: true,
            allow_loops: rng.bool(),
            allow_ready: false,
            allow_local_failures: true,
            manual_release: rng.chance(1, 3),
            allow_not_ready: rng.chance(1, 4),
            q2_explicit_ids: false,
            partial_progress_pct: *rng.pick(&[0u64, 30]),
            enumerate: false,
            script: vec![],
        };
        let mut ch = RandomChoice::new(rng);
        let cfg2 = cfg.clone();
        let r = exec(async move { sinkwalk::walk(&cfg2, &mut ch).await });
        rep.eval();
        match &r {
            Run::Done(o, _) => {
                rep.distinct(o.trace_sig);
                for (k, v) in &o.stats {
                    rep.count(k, *v);
                }
                if i < 2 {
                    rep.sample(3, || json!({"walk_cfg": format!("{cfg:?}"), "log_tail": o.log_tail.iter().rev().take(20).rev().collect::<Vec<_>>()}));
                }
                for v in &o.violations {
                    if v.class.starts_with("window exceeded") || v.class.contains("still blocked") {
                        rep.observe("other_property_violations(info)", &pool::abstract_numbers(&v.class));
                        continue;
                    }
                    rep.violation(Violation {
                        signature: format!("{}: {}", role.name(), pool::abstract_numbers(&v.class)),
                        what: format!("{} — {}", v.class, v.what),
                        replay: sinkwalk::witness(&cfg, o, json!({"seed": opts.seed, "index": i})),
                    });
                }
            }
            Run::Panic(p, _ptail) => rep.violation(Violation { signature: format!("{}: {}", role.name(), p.signature()), what: format!("panic: {} at {}", p.msg, p.location), replay: json!({"seed": opts.seed, "stream": "C06-walk", "index": i}) }),
            Run::Livelock(_tail) => rep.violation(Violation { signature: format!("{}: live-lock", role.name()), what: "step budget exhausted".into(), replay: json!({"index": i}) }),
            Run::Watchdog => rep.inconclusive("watchdog"),
        }
        r.after()
    });

    // ---- B
    let mut cases = Vec::new();
    for role in Role::ALL {
        let exps: &[Exp] = if role.is_server() { &[Exp::Q1, Exp::Q2Rec, Exp::Q2Comp, Exp::Nothing] } else { &[Exp::Q1, Exp::Q2Rec, Exp::Q2Comp, Exp::Sub, Exp::Unsub, Exp::Nothing] };
        let acks: &[AckT] = if role.is_server() { &[AckT::PubAck, AckT::PubRec, AckT::PubComp] } else { &[AckT::PubAck, AckT::PubRec, AckT::PubComp, AckT::SubAck, AckT::UnsubAck] };
        for &e in exps {
            for &t in acks {
                for with_second in [false, true] {
                    for idv in [IdV::Right, IdV::Second, IdV::Unknown] {
                        if idv == IdV::Second && !with_second {
                            continue;
                        }
                        if e == Exp::Nothing && (with_second || idv != IdV::Unknown) {
                            continue;
                        }
                        cases.push((role, e, t, idv, with_second, false));
                    }
                }
                if e != Exp::Nothing && expected_ack(e) == Some(t) {
                    cases.push((role, e, t, IdV::Right, false, true)); // duplicate
                }
            }
        }
    }
    rep.extra("matrix_cases", json!(cases.len()));
    pool::par_for(cases.len() as u64, None, |i| {
        let (role, e, t, idv, second, dup) = cases[i as usize];
        let r = exec(matrix_case(role, e, t, idv, second, dup));
        rep.eval();
        rep.count("matrix_cases_run", 1);
        let descr = json!({"role": role.name(), "outstanding": format!("{e:?}"), "ack": format!("{t:?}"), "id": format!("{idv:?}"), "second_outstanding": second, "duplicate": dup});
        match &r {
            Run::Done(o, _) => {
                rep.distinct(o.sig);
                if o.correct_case {
                    rep.count("matrix_correct_cases", 1);
                } else {
                    rep.count("matrix_wrong_ack_cases", 1);
                }
                if i % 97 == 0 {
                    rep.sample(8, || json!({"matrix_case": descr, "log": o.log}));
                }
                for (class, what) in &o.violations {
                    rep.violation(Violation {
                        signature: format!("{}: {}", role.name(), pool::abstract_numbers(class)),
                        what: format!("{class} — {what}"),
                        replay: json!({"matrix_case": descr, "log": o.log}),
                    });
                }
            }
            Run::Panic(p, _ptail) => rep.violation(Violation {
                signature: format!("{}: {}", role.name(), p.signature()),
                what: format!("panic on wrong acknowledgement: {} at {}", p.msg, p.location),
                replay: json!({"matrix_case": descr}),
            }),
            Run::Livelock(_tail) => rep.violation(Violation { signature: format!("{}: live-lock", role.name()), what: "step budget exhausted".into(), replay: json!({"matrix_case": descr}) }),
            Run::Watchdog => rep.inconclusive("watchdog"),
        }
        r.after()
    });

    // ---- D
    let mut retry: Vec<(Role, u8, u8, u16)> = Vec::new();
    for role in Role::ALL {
        for fail in 0..2u8 {
            for qos in 1..=2u8 {
                for pid in [1u16, 7, 65535] {
                    retry.push((role, fail, qos, pid));
                }
            }
        }
    }
    pool::par_for(retry.len() as u64, None, |i| {
        let (role, fail, qos, pid) = retry[i as usize];
        let r = exec(retry_case(role, fail, qos, pid));
        rep.eval();
        match &r {
            Run::Done(v, _) => {
                rep.count("retry_after_local_failure_cases", 1);
                for (class, what) in v {
                    rep.violation(Violation { signature: format!("{}: {}", role.name(), pool::abstract_numbers(class)), what: format!("{class} — {what}"), replay: json!({"retry": [role.name(), fail, qos, pid]}) });
                }
            }
            Run::Panic(p, _) => rep.violation(Violation { signature: format!("{}: {}", role.name(), p.signature()), what: format!("panic: {} at {}", p.msg, p.location), replay: json!({"retry": [role.name(), fail, qos, pid]}) }),
            Run::Livelock(_) => rep.violation(Violation { signature: format!("{}: live-lock", role.name()), what: "never quiescent".into(), replay: json!({"retry": [role.name(), fail, qos, pid]}) }),
            Run::Watchdog => rep.inconclusive("watchdog"),
        }
        r.after()
    });

    // ---- C
    let n_wrap: u32 = if quick { 66_500 } else { 400_000 };
    pool::par_for(4, None, |i| {
        let role = Role::ALL[i as usize];
        let r = crate::explore::exec_with(wrap_case(role, n_wrap), 400_000_000, std::time::Duration::from_secs(900));
        rep.evals(n_wrap as u64);
        match &r {
            Run::Done(v, _) => {
                rep.count("wrap_sends_acknowledged", n_wrap as u64);
                for (class, what) in v {
                    rep.violation(Violation { signature: format!("{}: {}", role.name(), pool::abstract_numbers(class)), what: format!("{class} — {what}"), replay: json!({"wrap": role.name(), "sends": n_wrap}) });
                }
            }
            Run::Panic(p, _ptail) => rep.violation(Violation { signature: format!("{}: {}", role.name(), p.signature()), what: format!("panic in long history: {} at {}", p.msg, p.location), replay: json!({"wrap": role.name()}) }),
            Run::Livelock(_tail) => rep.violation(Violation { signature: format!("{}: live-lock", role.name()), what: "step budget exhausted in long history".into(), replay: json!({"wrap": role.name()}) }),
            Run::Watchdog => rep.inconclusive("watchdog in long history"),
        }
        r.after()
    });
    rep.extra("wrap_history_length", json!(n_wrap));
    rep.extra("wrap_crosses_65535", json!(n_wrap > 65_535));

    rep.assume("the peer model answers every packet in the order received, as MQTT prescribes");
    rep.assume("server roles: SUBACK/UNSUBACK are not acknowledgements of anything a server sends and are left out of the matrix");
    rep.require("completions_checked_against_acks", 1000);
    rep.require("local_failures_as_expected", 200);
    rep.require("matrix_wrong_ack_cases", 100);
    rep.require("matrix_correct_cases", 10);
    rep.finish()
}
