//! `mqtt-verif smoke`: one scripted connection per role with the event log printed.
use std::time::Duration;

use crate::app::{App, Outcome, PubPlan, ReadMode};
use crate::conn::{self, ConnCfg, Role};
use crate::refcodec::Packet as R;
use crate::report::Opts;
use crate::sink::{Op, PubSpec, next_op_id};
use crate::{pool, rt};

pub fn run(_opts: &Opts) -> i32 {
    for role in Role::ALL {
        println!("==== {}", role.name());
        let r = pool::catch(|| {
            rt::run(
                async move {
                    let app = App::new("smoke");
                    *app.pub_default.borrow_mut() = PubPlan { read: ReadMode::Eager, gated: true, outcome: Outcome::Ok };
                    let mut cfg = ConnCfg::new(role);
                    if !role.is_server() {
                        cfg.client_resources = vec!["a/b".into()];
                    }
                    let mut c = conn::start(&cfg, app.clone()).await;
                    c.peer.send(&R::Publish { dup: false, qos: 1, retain: false, topic: "a/b".into(), pid: Some(7), props: vec![], payload: b"hello".to_vec() });
                    c.settle().await;
                    println!("pending gates: {:?}", app.pending_gates());
                    for g in app.pending_gates() {
                        app.open_gate(g, Outcome::Ok);
                    }
                    c.settle().await;
                    let sink = c.sink();
                    let mut op = Op::new(&app, next_op_id(), "qos1", sink.send_qos1(&PubSpec::new("x/y", b"data".to_vec())));
                    op.start();
                    c.settle().await;
                    c.peer.send(&R::PubAck { pid: 1, code: if role.is_v5() { Some(0) } else { None }, props: None });
                    c.settle().await;
                    println!("op result: {:?} credit {}", op.result(), sink.credit());
                    c.finish().await;
                    for l in app.render(100) {
                        println!("{l}");
                    }
                    println!("done = {}", c.done());
                },
                200_000,
                Duration::from_secs(20),
            )
        });
        match r {
            Ok((_, st)) => println!("polls={} quiesces={}", st.polls, st.quiesces),
            Err(p) => println!("PANIC: {} at {} abort={:?}", p.msg, p.location, rt::take_abort()),
        }
    }
    0
}
