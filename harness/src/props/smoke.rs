//! `mqtt-verif smoke`: one scripted connection per role with the event log printed.
use std::time::Duration;

use crate::app::{App, Outcome, PubPlan, ReadMode};
use crate::conn::{self, ConnCfg, Role};
use crate::refcodec::Packet as R;
use crate::report::Opts;
use crate::sink::{Op, PubSpec, next_op_id};
use crate::{pool, rt};

pub fn run(_opts: &Opts) -> i32 {
    for role in Role::ALL {
        println!("==== {}", role.name());
        let r = pool::catch(|| {
            rt::run(
                async move {
                    let app = App::new("smoke");
                    *app.pub_default.borrow_mut() = PubPlan { read: ReadMode::Eager, gated: true, outcome: Outcome::Ok };
                    let mut cfg = ConnCfg::new(role);
                    if !role.is_server() {
                        cfg.client_resources = vec!["a/b".into()];
                    }
                    let mut c = conn::start(&cfg, app.clone()).await;
                    c.peer.send(&R::Publish { dup: false, qos: 1, retain: false, topic: "a/b".into(), pid: Some(7), props: vec![], payload: b"hello".to_vec() });
                    c.settle().await;
                    println!("pending gates: {:?}", app.pending_gates());
                    for g in app.pending_gates() {
                        app.open_gate(g, Outcome::Ok);
                    }
                    c.settle().await;
                    let sink = c.sink();
                    let mut op = Op::new(&app, next_op_id(), "qos1", sink.send_qos1(&PubSpec::new("x/y", b"data".to_vec())));
                    op.start();
                    c.settle().await;
                    c.peer.send(&R::PubAck { pid: 1, code: if role.is_v5() { Some(0) } else { None }, props: None });
                    c.settle().await;
                    println!("op result: {:?} credit {}", op.result(), sink.credit());
                    c.finish().await;
                    for l in app.render(100) {
                        println!("{l}");
                    }
                    println!("done = {}", c.done());
                },
                200_000,
                Duration::from_secs(20),
            )
        });
        match r {
            Ok((_, st)) => println!("polls={} quiesces={}", st.polls, st.quiesces),
            Err(p) => println!("PANIC: {} at {} abort={:?}", p.msg, p.location, rt::take_abort()),
        }
    }
    0
}

fn rss_kb() -> u64 {
    std::fs::read_to_string("/proc/self/statm").ok().and_then(|s| s.split_whitespace().nth(1).and_then(|x| x.parse::<u64>().ok())).unwrap_or(0) * 4
}

/// `mqtt-verif leak <variant>`: run a minimal scenario many times on one thread and print the RSS
pub fn leak(opts: &Opts) -> i32 {
    let variant: u32 = opts.extra.first().and_then(|s| s.parse().ok()).unwrap_or(0);
    let n = if variant == 7 { 5_000 } else { 20_000 };
    let start = rss_kb();
    for i in 0..n {
        let _ = pool::catch(|| {
            rt::run(
                async move {
                    match variant {
                        0 => {} // runtime only
                        1 => {
                            let app = App::new("leak");
                            let cfg = ConnCfg::new(Role::V3Server);
                            let mut c = conn::start(&cfg, app.clone()).await;
                            c.finish().await;
                        }
                        2 => {
                            let app = App::new("leak");
                            let cfg = ConnCfg::new(Role::V5Client);
                            let mut c = conn::start(&cfg, app.clone()).await;
                            c.finish().await;
                        }
                        3 => {
                            // only the server factory, no connection
                            let cfg = ConnCfg::new(Role::V3Server);
                            let _srv = conn::Server::new(&cfg).await;
                        }
                        5 => {
                            // transport only
                            let (a, b) = ntex_io::testing::IoTest::create();
                            let io = ntex_io::Io::new(b, ntex_service::cfg::SharedCfg::new("T"));
                            a.write(b"abc");
                            rt::quiesce().await;
                            drop(a);
                            rt::quiesce().await;
                            drop(io);
                            rt::quiesce().await;
                        }
                        6 => {
                            let app = App::new("leak");
                            let cfg = ConnCfg::new(Role::V3Server);
                            let mut c = conn::start(&cfg, app.clone()).await;
                            c.finish().await;
                            drop(c);
                            rt::quiesce().await;
                            *app.sink.borrow_mut() = None;
                            rt::quiesce().await;
                        }
                        7 => {
                            // real sleep so that timers can run the disconnect timeout etc.
                            let app = App::new("leak");
                            let cfg = ConnCfg::new(Role::V3Server);
                            let mut c = conn::start(&cfg, app.clone()).await;
                            c.finish().await;
                            drop(c);
                            *app.sink.borrow_mut() = None;
                            ntex_util::time::sleep(ntex_util::time::Millis(5)).await;
                        }
                        _ => {
                            let _app = App::new("leak");
                        }
                    }
                },
                200_000,
                Duration::from_secs(20),
            )
        });
        if i % 5000 == 4999 {
            println!("variant {variant}: after {} runs rss {} KB (+{} KB, {:.1} KB/run)", i + 1, rss_kb(), rss_kb() - start, (rss_kb() - start) as f64 / (i + 1) as f64);
        }
    }
    0
}
