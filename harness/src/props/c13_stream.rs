//! C13 — "streamed sends paused by back-pressure resume when it lifts".
//!
//! A streamed publish is written chunk by chunk while the peer does not read; the write buffer
//! runs over its high watermark (Control::WrBackpressure(true)), the writer pauses; then the peer
//! reads again. Enumerated over role x QoS of the stream x send limit (1 = the stream fills the
//! window by itself) x other senders parked meanwhile x chunk sizes.
use std::rc::Rc;

use serde_json::json;

use crate::app::{App, Ev};
use crate::conn::{self, ConnCfg, Role};
use crate::explore::{Run, exec};
use crate::pool;
use crate::refcodec::{Packet as R, Prop};
use crate::report::{Opts, Report, Violation};
use crate::sink::{Chan, Op, PubSpec, StreamCmd, next_op_id};

#[derive(Debug, Clone, Copy)]
pub struct Case {
    pub role: Role,
    pub qos: u8,
    pub cap: u16,
    pub chunk: usize,
    pub chunks: usize,
    /// QoS 1 senders started while the stream is paused
    pub others: usize,
    /// the application offers the remaining chunks only after back-pressure has lifted and the
    /// other senders had their chance (no second back-pressure episode helps them out)
    pub hold: bool,
    /// the application's control service is still busy with the "back-pressure enabled"
    /// notification when back-pressure lifts
    pub slow_ctl: bool,
}

pub async fn run_case(case: &Case) -> (Vec<(String, String)>, bool, Vec<String>, usize) {
    let app = App::new("c13s");
    let mut cfg = ConnCfg::new(case.role);
    cfg.max_send = case.cap;
    cfg.peer_receive_max = Some(case.cap);
    cfg.write_buf = Some((256, 64));
    if case.role == Role::V5Client {
        cfg.connack_props = vec![Prop::U16(0x21, case.cap)];
    }
    let mut c = conn::start(&cfg, app.clone()).await;
    app.wr_on_gated.set(case.slow_ctl);
    let sink = c.sink();
    let v5 = case.role.is_v5();
    let total = case.chunk * case.chunks;
    let mut vio = Vec::new();
    let what = format!("{case:?}");
    // the peer stops reading
    c.peer.set_budget(0);
    let cmds = Chan::new();
    let app2 = app.clone();
    let sid = next_op_id();
    let res_cb: Rc<dyn Fn(usize, crate::app::SinkRes)> = Rc::new(move |n, r| {
        app2.log(Ev::SinkRet { op: sid, n: n as u32 + 1000, res: r });
    });
    let mut ops: Vec<Op> = Vec::new();
    let mut ack_op = None;
    if case.qos == 0 {
        match sink.stream_qos0(&PubSpec::new("s/0", vec![]), total as u32, cmds.clone(), res_cb) {
            Ok(w) => {
                let mut o = Op::new(&app, sid, "stream-q0-writer", w);
                o.start();
                ops.push(o);
            }
            Err(r) => {
                vio.push(("streamed send could not be started".into(), format!("{r:?} — {what}")));
                return (vio, false, app.render(30), 0);
            }
        }
    } else {
        let (ack, w) = sink.stream_qos1(&PubSpec::new("s/1", vec![]), total as u32, cmds.clone(), res_cb);
        let mut a = Op::new(&app, sid, "stream-q1-ack", ack);
        a.start();
        ack_op = Some(a);
        let mut o = Op::new(&app, next_op_id(), "stream-q1-writer", w);
        o.start();
        ops.push(o);
    }
    // one chunk per step, so that the back-pressure notification is in force when the next chunk
    // is offered: that send() then has to wait
    let mut chunks_reported = 0usize;
    let mut writer_waiting = false;
    let mut pushed = 0usize;
    for k in 0..case.chunks {
        cmds.push(StreamCmd::Chunk(vec![b'a' + (k % 26) as u8; case.chunk]));
        pushed += 1;
        c.settle().await;
        let done = app.count(|e| matches!(e, Ev::SinkRet { op, n, .. } if *op == sid && *n >= 1000));
        if done == chunks_reported {
            writer_waiting = true;
            if case.hold {
                break;
            }
        }
        chunks_reported = done;
    }
    let paused = writer_waiting && app.count(|e| matches!(e, Ev::CtlEnter { what, .. } if what == "wr(true)")) > 0;
    // other senders (and a readiness waiter) arrive while the stream is paused
    let mut others = Vec::new();
    for i in 0..case.others {
        let mut o = Op::new(&app, next_op_id(), "other-q1", sink.send_qos1(&PubSpec::new("o", vec![i as u8; 3])));
        o.start();
        others.push(o);
    }
    let mut ready_op = None;
    if case.hold {
        let mut o = Op::new(&app, next_op_id(), "ready", sink.ready());
        o.start();
        ready_op = Some(o);
    }
    c.settle().await;
    // back-pressure lifts; the peer acknowledges whatever it receives
    c.peer.unlimited();
    c.settle().await;
    let mut slow_done = 0;
    if case.slow_ctl {
        // ... and only now the control service is done with the earlier notification
        slow_done = app.open_all(crate::app::Outcome::Ok);
        c.settle().await;
    }
    if case.hold && paused {
        // back-pressure is off and a slot is free right now: nobody may still be parked. A sender
        // may have failed locally (a payload is owed), it must not stay blocked
        let bp_off = app.events().iter().rev().find_map(|(_, e)| if let Ev::CtlEnter { what, .. } = e { what.starts_with("wr(").then(|| what == "wr(false)") } else { None }).unwrap_or(true);
        if bp_off && sink.credit() > 0 {
            if let Some(r) = &ready_op {
                if r.result().is_none() {
                    vio.push(("ready() still pending after back-pressure lifted (window not full)".into(), format!("credit {} — {what}", sink.credit())));
                }
            }
            let wire = app.wire();
            for (i, o) in others.iter().enumerate() {
                // parked = not completed and its PUBLISH is not on the wire (otherwise it awaits the acknowledgement)
                let written = wire.iter().any(|(_, p)| matches!(p, R::Publish { topic, payload, .. } if topic == "o" && payload.first() == Some(&(i as u8))));
                if o.result().is_none() && !written {
                    vio.push(("sender still parked after back-pressure lifted although the window is not full".into(), format!("credit {} — {what}", sink.credit())));
                    break;
                }
            }
        }
    }
    // the rest of the payload
    while pushed < case.chunks {
        cmds.push(StreamCmd::Chunk(vec![b'a' + (pushed % 26) as u8; case.chunk]));
        pushed += 1;
        c.settle().await;
    }
    let mut acked = 0usize;
    for _ in 0..200 {
        c.settle().await;
        let wire = app.wire();
        let pubs: Vec<u16> = wire.iter().filter_map(|(_, p)| if let R::Publish { pid: Some(p), .. } = p { Some(*p) } else { None }).collect();
        if pubs.len() > acked {
            for p in &pubs[acked..] {
                c.peer.send(&R::PubAck { pid: *p, code: if v5 { Some(0) } else { None }, props: None });
            }
            acked = pubs.len();
        } else {
            break;
        }
    }
    c.settle().await;
    // ---- everything must have gone through
    let wire = app.wire();
    let streamed: Option<usize> = wire.iter().find_map(|(_, p)| if let R::Publish { topic, payload, .. } = p { topic.starts_with("s/").then_some(payload.len()) } else { None });
    if !app.stops().is_empty() {
        vio.push(("connection ended although the peer acknowledged everything".into(), format!("{:?} — {what}", app.stops())));
    } else {
        if streamed != Some(total) {
            vio.push(("streamed send paused by back-pressure was not resumed when it lifted".into(), format!("payload bytes that arrived: {streamed:?} of {total}, partial frame bytes at the peer {} — {what}", c.peer.partial_tail())));
        }
        if let Some(a) = &ack_op {
            if !matches!(a.result(), Some(r) if r.is_ok()) {
                vio.push(("streamed QoS 1 send did not complete although everything was acknowledged".into(), format!("{:?} — {what}", a.result())));
            }
        }
        for o in &others {
            // with the rest of the payload held back a sender may fail locally ("payload expected")
            let local_failure = case.hold && matches!(o.result(), Some(crate::app::SinkRes::ErrEncode(_)));
            if !matches!(o.result(), Some(r) if r.is_ok()) && !local_failure {
                vio.push(("sender still blocked after the back-pressure episode although everything was acknowledged".into(), format!("{:?} — {what}", o.result())));
                break;
            }
        }
    }
    let log = app.render(30);
    drop(ops);
    c.finish().await;
    (vio, paused, log, slow_done)
}

pub fn run_part(_opts: &Opts, rep: &Report) {
    let mut cases = Vec::new();
    for role in Role::ALL {
        for qos in [0u8, 1] {
            for cap in [1u16, 2, 3] {
                for (chunk, chunks) in [(100usize, 6usize), (300, 3), (40, 20), (700, 2)] {
                    for others in [0usize, 1, 3] {
                        for hold in [false, true] {
                            cases.push(Case { role, qos, cap, chunk, chunks, others, hold, slow_ctl: false });
                            cases.push(Case { role, qos, cap, chunk, chunks, others, hold, slow_ctl: true });
                        }
                    }
                }
            }
        }
    }
    pool::par_for(cases.len() as u64, None, |i| {
        let case = cases[i as usize];
        let r = exec(run_case(&case));
        rep.eval();
        match &r {
            Run::Done((v, paused, log, slow), _) => {
                rep.count("stream_backpressure_cases", 1);
                rep.count("backpressure_lifted_while_the_control_service_was_busy_with_the_on_notification", (*slow > 0) as u64);
                rep.count("streams_paused_by_backpressure", *paused as u64);
                rep.distinct(pool::hash_str(&format!("{case:?}")));
                for (class, what) in v {
                    rep.violation(Violation { signature: format!("{}: {}", case.role.name(), class), what: format!("{class} — {what}"), replay: json!({"stream_case": format!("{case:?}"), "log": log}) });
                }
            }
            Run::Panic(p, tail) => rep.violation(Violation { signature: format!("{}: {}", case.role.name(), p.signature()), what: format!("panic: {} at {} — {case:?}", p.msg, p.location), replay: json!({"stream_case": format!("{case:?}"), "log": tail}) }),
            Run::Livelock(tail) => rep.violation(Violation { signature: format!("{}: live-lock", case.role.name()), what: format!("never quiescent — {case:?}"), replay: json!({"stream_case": format!("{case:?}"), "log": tail}) }),
            Run::Watchdog => rep.inconclusive("watchdog"),
        }
        r.after()
    });
    rep.require("streams_paused_by_backpressure", 100);
}
