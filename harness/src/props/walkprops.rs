//! C05 / C13 drivers over the sink walk engine.
use serde_json::json;

use super::sinkwalk::{self, CapSource, WalkCfg};
use crate::conn::Role;
use crate::explore::{RandomChoice, Run, exec};
use crate::pool::{self, After, Rng};
use crate::report::{Opts, Report, Tier, Violation};

pub fn walk_cfg(rng: &mut Rng, which: &str) -> WalkCfg {
    let role = *rng.pick(&Role::ALL);
    let cap = 1 + rng.below(4) as u16;
    let cap_source = *rng.pick(&[CapSource::Config, CapSource::Handshake, CapSource::PeerReceiveMax]);
    let c13 = which == "C13";
    WalkCfg {
        role,
        cap,
        cap_source,
        max_senders: cap as usize + 3,
        steps: 10 + rng.usize(25),
        allow_cancel: rng.chance(if c13 { 3 } else { 1 }, 4),
        allow_backpressure: rng.chance(if c13 { 1 } else { 1 }, 3),
        allow_qos2: rng.chance(1, 2),
        allow_subscribe: rng.chance(1, 2),
        allow_loops: rng.chance(2, 3),
        allow_ready: rng.chance(1, 2),
        allow_local_failures: false,
        manual_release: false,
        allow_not_ready: rng.chance(1, 3),
        q2_explicit_ids: false,
        partial_progress_pct: *rng.pick(&[0u64, 30, 60]),
        enumerate: false,
        script: vec![],
    }
}

pub fn run(opts: &Opts, which: &'static str) -> i32 {
    let rule = if which == "C05" {
        "seeded random walks over k <= limit+3 concurrent senders (one-shot QoS 1/2, send-again loops, ready-then-send, \
         subscribe/unsubscribe on client roles) using only the awaiting APIs, a peer acknowledging in order singly or \
         batched, cancellations and back-pressure toggles, limits 1..4 from all three sources, 4 roles; hazard bias: \
         senders start right after an ack with partial progress. Oracle: peer-side count of QoS>0 PUBLISH received \
         minus final acks sent <= limit after every observation. distinct = distinct boundary-event trace signatures"
    } else {
        "same walk engine with more cancellations (including woken-but-not-yet-polled waiters via partial progress) and \
         back-pressure toggles; oracle at final quiescence after the peer acknowledged everything it received: every \
         live send / ready() future has completed. distinct = distinct boundary-event trace signatures"
    };
    let rep = Report::new(opts, "exploration", rule);
    let quick = opts.tier == Tier::Quick;
    let n = ((if quick { 40_000.0 } else { 3_000_000.0 }) * opts.scale) as u64;
    let deadline = std::time::Instant::now() + std::time::Duration::from_secs(if quick { 60 } else { 900 });
    let done = pool::par_for(n, Some(deadline), |i| {
        let mut rng = Rng::for_case(opts.seed, which, i);
        let cfg = walk_cfg(&mut rng, which);
        let mut ch = RandomChoice::new(rng);
        let cfg2 = cfg.clone();
        let r = exec(async move {
            let o = sinkwalk::walk(&cfg2, &mut ch).await;
            o
        });
        rep.eval();
        match &r {
            Run::Done(o, st) => {
                rep.distinct(o.trace_sig);
                rep.max("max_outstanding_seen", o.max_outstanding);
                rep.max("max_polls_per_walk", st.polls);
                for (k, v) in &o.stats {
                    rep.count(k, *v);
                }
                rep.observe("roles", cfg.role.name());
                rep.observe("caps", &format!("{}:{:?}", cfg.cap, cfg.cap_source));
                if o.max_outstanding == cfg.cap as u64 {
                    rep.count("walks_reaching_the_limit", 1);
                }
                if i < 3 {
                    rep.sample(4, || json!({"cfg": format!("{cfg:?}"), "choices": o.trace, "log_tail": o.log_tail.iter().rev().take(25).rev().collect::<Vec<_>>()}));
                }
                for v in &o.violations {
                    let mine = match which {
                        "C05" => v.class.starts_with("window exceeded"),
                        _ => v.class.contains("still blocked"),
                    };
                    if mine {
                        // the limit / credit numbers are part of the class; abstract them for the signature
                        rep.violation(Violation {
                            signature: format!("{}: {}", cfg.role.name(), pool::abstract_numbers(&v.class)),
                            what: format!("{} — {}", v.class, v.what),
                            replay: sinkwalk::witness(&cfg, o, json!({"seed": opts.seed, "stream": which, "index": i})),
                        });
                    } else {
                        rep.count("violations_of_other_properties_seen(info)", 1);
                        rep.observe("other_property_violations(info)", &pool::abstract_numbers(&v.class));
                    }
                }
            }
            Run::Panic(p, _ptail) => {
                rep.count("panics(info)", 1);
                rep.observe("panics(info)", &p.signature());
            }
            Run::Livelock(_tail) => {
                rep.violation(Violation {
                    signature: format!("{}: live-lock (step budget exhausted)", cfg.role.name()),
                    what: "the system never became quiescent".into(),
                    replay: json!({"cfg": format!("{cfg:?}"), "seed": opts.seed, "index": i}),
                });
            }
            Run::Watchdog => rep.inconclusive(format!("watchdog in walk {i}")),
        }
        r.after()
    });
    rep.extra("walks_executed", json!(done));
    rep.assume("peer-side outstanding count is a lower bound of the endpoint's true in-flight count");
    rep.assume("schedules are explored at the granularity of harness actions x {rounds(k), quiescence}");
    rep.require("senders_started", 1000);
    rep.require("ack_writes", 1000);
    rep.require("walks_reaching_the_limit", 100);
    if which == "C13" {
        super::c13_stream::run_part(opts, &rep);
        rep.require("cancellations", 200);
        rep.require("backpressure_on", 100);
    }
    rep.finish()
}
