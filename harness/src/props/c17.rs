//! C17 — MQTT 5 topic aliases always resolve to the right topic.
//!
//! Two concurrent connections (one shared server instance, or two client connections), with and
//! without the library's topic router; every sequence of bind / rebind / use / use-unbound /
//! exceed-maximum / plain publishes interleaved over both connections is executed and compared,
//! publish by publish, against a per-connection alias map (`RefAlias`).
use std::collections::HashMap;
use std::rc::Rc;

use serde_json::json;

use crate::app::{App, Ev, StopClass};
use crate::conn::{self, Conn, ConnCfg, HsPlan, Role, Server};
use crate::explore::{Run, exec};
use crate::pool::{self, Rng};
use crate::refcodec::{Packet as R, Prop, Ver};
use crate::report::{Opts, Report, Tier, Violation};

pub const MAX_ALIAS: u16 = 3;
pub const RESOURCES: [&str; 3] = ["r/a", "r/b", "d/{id}"];

#[derive(Debug, Clone, Copy, PartialEq, Eq, Hash)]
pub enum Op {
    Bind(u16, u8),
    Use(u16),
    Plain(u8),
}

const TOPICS: [&str; 5] = ["r/a", "r/b", "d/1", "d/2", "x/y"];

fn route_of(topic: &str) -> String {
    match topic {
        "r/a" => "r/a".into(),
        "r/b" => "r/b".into(),
        t if t.starts_with("d/") && !t[2..].contains('/') && t.len() > 2 => format!("d/{{id}}[id={}]", &t[2..]),
        _ => "<default>".into(),
    }
}

#[derive(Debug, Clone)]
pub struct Case {
    pub role: Role,
    pub router: bool,
    /// (connection index, op)
    pub ops: Vec<(u8, Op)>,
    /// run to quiescence after every op (else only at the end)
    pub settle_each: bool,
    /// client role only: Topic Alias Maximum advertised in CONNECT (None = absent = 0)
    pub advertised: Option<u16>,
    /// every publish handler stays pending until all packets have been sent (then they are
    /// completed oldest first)
    pub hold: bool,
    /// server role only: Topic Alias Maximum the handshake service puts into CONNACK instead of
    /// the configured one (Some(0) = aliases switched off for this connection)
    pub hs_max: Option<u16>,
}

pub fn alphabet(full: bool) -> Vec<Op> {
    let aliases: &[u16] = if full { &[1, 2, MAX_ALIAS, MAX_ALIAS + 1] } else { &[1, MAX_ALIAS, MAX_ALIAS + 1] };
    let topics: &[u8] = if full { &[0, 1, 2, 3, 4] } else { &[0, 2, 3, 4] };
    let mut v = Vec::new();
    for a in aliases {
        for t in topics {
            v.push(Op::Bind(*a, *t));
        }
    }
    for a in aliases {
        v.push(Op::Use(*a));
    }
    for t in if full { &[0u8, 2, 4][..] } else { &[0u8, 4][..] } {
        v.push(Op::Plain(*t));
    }
    v
}

fn packet(op: Op) -> R {
    let (topic, props) = match op {
        Op::Bind(a, t) => (TOPICS[t as usize], vec![Prop::U16(0x23, a)]),
        Op::Use(a) => ("", vec![Prop::U16(0x23, a)]),
        Op::Plain(t) => (TOPICS[t as usize], vec![]),
    };
    R::Publish { dup: false, qos: 0, retain: false, topic: topic.into(), pid: None, props, payload: vec![0xAB] }
}

/// reference model of one connection
#[derive(Default)]
struct RefAlias {
    map: HashMap<u16, String>,
    dead: bool,
    /// expected handler invocations (topic, route)
    expect: Vec<(String, String)>,
}

impl RefAlias {
    fn step(&mut self, op: Op, max: u16) {
        if self.dead {
            return;
        }
        match op {
            Op::Plain(t) => self.expect.push((TOPICS[t as usize].into(), route_of(TOPICS[t as usize]))),
            Op::Bind(a, t) => {
                if a == 0 || a > max {
                    self.dead = true;
                } else {
                    self.map.insert(a, TOPICS[t as usize].into());
                    self.expect.push((TOPICS[t as usize].into(), route_of(TOPICS[t as usize])));
                }
            }
            Op::Use(a) => match self.map.get(&a) {
                Some(t) if a <= max => self.expect.push((t.clone(), route_of(t))),
                _ => self.dead = true,
            },
        }
    }
}

pub struct Outc {
    pub violations: Vec<(String, String)>,
    pub log: Vec<String>,
    pub sig: u64,
    pub delivered: usize,
    pub resolved_by_alias: usize,
    pub rebinds: usize,
    pub errors: usize,
    pub held: usize,
}

pub async fn run_case(case: &Case) -> Outc {
    let mut cfg = ConnCfg::new(case.role);
    cfg.max_topic_alias = MAX_ALIAS;
    cfg.client_topic_alias_max = case.advertised;
    let names: Vec<String> = RESOURCES.iter().map(|s| s.to_string()).collect();
    if case.router {
        if case.role.is_server() {
            cfg.router = names.clone();
        } else {
            cfg.client_resources = names.clone();
        }
    }
    let apps = [App::new("c17-a"), App::new("c17-b")];
    if case.hold {
        for app in &apps {
            app.pub_default.borrow_mut().gated = true;
        }
    }
    let mut conns: Vec<Conn> = Vec::new();
    if case.role.is_server() {
        let srv = Server::new(&cfg).await;
        for app in &apps {
            let mut c = srv.connect(app.clone(), HsPlan { topic_alias_max: case.hs_max, ..HsPlan::default() }, Ver::V5);
            c.peer.send(&cfg.peer_connect());
            c.settle().await;
            conns.push(c);
        }
    } else {
        for app in &apps {
            conns.push(conn::start(&cfg, app.clone()).await);
        }
    }
    let max = if case.role.is_server() { case.hs_max.unwrap_or(MAX_ALIAS) } else { case.advertised.unwrap_or(0) };
    let mut models = [RefAlias::default(), RefAlias::default()];
    let mut o = Outc { violations: vec![], log: vec![], sig: 0, delivered: 0, resolved_by_alias: 0, rebinds: 0, errors: 0, held: 0 };
    for (ci, op) in &case.ops {
        let ci = *ci as usize;
        if models[ci].dead {
            continue; // nothing is sent on a connection the model says has ended
        }
        if let Op::Bind(a, t) = op {
            if models[ci].map.get(a).is_some_and(|old| old != TOPICS[*t as usize]) {
                o.rebinds += 1;
            }
        }
        let before = models[ci].expect.len();
        models[ci].step(*op, max);
        if matches!(op, Op::Use(_)) && models[ci].expect.len() > before {
            o.resolved_by_alias += 1;
        }
        conns[ci].peer.send(&packet(*op));
        if case.settle_each {
            for c in conns.iter_mut() {
                c.settle().await;
            }
        }
    }
    for c in conns.iter_mut() {
        c.settle().await;
    }
    if case.hold {
        // complete the pending handlers oldest first
        for _ in 0..4 * case.ops.len() + 4 {
            let mut opened = false;
            for app in &apps {
                let first = app.pending_gates().into_iter().next();
                if let Some(k) = first {
                    opened |= app.open_gate(k, crate::app::Outcome::Ok);
                }
            }
            if !opened {
                break;
            }
            o.held += 1;
            for c in conns.iter_mut() {
                c.settle().await;
            }
        }
    }
    // ------------------------------------------------------------------ compare
    let what = format!("{case:?}");
    for (ci, app) in apps.iter().enumerate() {
        let got: Vec<(String, String)> = app
            .snapshot()
            .iter()
            .filter_map(|(_, e)| if let Ev::PubEnter { topic, route, .. } = e { Some((topic.clone(), route.clone())) } else { None })
            .collect();
        let want: Vec<(String, String)> = models[ci]
            .expect
            .iter()
            .map(|(t, r)| {
                let route = if !case.router {
                    if case.role.is_server() { String::new() } else { "<protocol>".to_string() }
                } else if !case.role.is_server() && r == "<default>" {
                    "<protocol>".to_string()
                } else {
                    r.clone()
                };
                (t.clone(), route)
            })
            .collect();
        o.delivered += got.len();
        if got != want {
            // classify
            let n = got.len().min(want.len());
            let class = if let Some(i) = (0..n).find(|i| got[*i] != want[*i]) {
                if got[i].0 != want[i].0 {
                    "handler received the wrong topic for an aliased publish"
                } else {
                    "publish routed to the wrong resource handler"
                }
            } else if got.len() > want.len() {
                "handler invoked for a publish that must end the connection (unbound alias or alias above the maximum)"
            } else {
                "publish with a valid alias binding did not reach the handler"
            };
            o.violations.push((class.to_string(), format!("connection {ci}: got {got:?}, expected {want:?} — {what}")));
        }
        let stops = app.stops();
        if !case.role.is_server() && case.router {
            // the routing client runs with the library's default control service: judge by the
            // connection task having ended with an error DISCONNECT on the wire
            let disc: Vec<u8> = app.wire().iter().filter_map(|(_, p)| if let R::Disconnect { code, .. } = p { Some(code.unwrap_or(0)) } else { None }).collect();
            if models[ci].dead {
                o.errors += 1;
                if !app.done.get() {
                    o.violations.push(("invalid alias (unbound or above the advertised maximum) did not end the connection".into(), format!("connection {ci} — {what}")));
                } else if disc.first().is_none_or(|c| *c == 0) {
                    o.violations.push(("invalid alias ended the connection without a protocol-error DISCONNECT".into(), format!("connection {ci}: {disc:02x?} — {what}")));
                }
            } else if app.done.get() {
                o.violations.push(("connection ended although every alias was valid".into(), format!("connection {ci} — {what}")));
            }
        } else if models[ci].dead {
            o.errors += 1;
            match stops.first() {
                Some(s) if s.1 == StopClass::Protocol => {}
                Some(s) => o.violations.push((format!("invalid alias ended the connection with {:?} instead of a protocol error", s.1), format!("connection {ci} — {what}"))),
                None => o.violations.push(("invalid alias (unbound or above the advertised maximum) did not end the connection".into(), format!("connection {ci} — {what}"))),
            }
        } else if !stops.is_empty() {
            o.violations.push(("connection ended although every alias was valid".into(), format!("connection {ci}: {:?} — {what}", stops[0])));
        }
    }
    o.sig = pool::hash_str(&format!("{}-{}", apps[0].trace_signature(), apps[1].trace_signature()));
    o.log = apps[0].render(40);
    o.log.push("---- connection 1".into());
    o.log.extend(apps[1].render(40));
    for c in conns.iter_mut() {
        c.finish().await;
    }
    let _ = Rc::strong_count(&apps[0]);
    o
}

fn configs() -> Vec<(Role, bool, Option<u16>)> {
    vec![
        (Role::V5Server, false, None),
        (Role::V5Server, true, None),
        (Role::V5Client, false, Some(MAX_ALIAS)),
        (Role::V5Client, true, Some(MAX_ALIAS)),
        (Role::V5Client, false, None),
    ]
}

pub fn enumerate(max_len: usize, full: bool) -> Vec<Case> {
    let a = alphabet(full);
    let mut letters: Vec<(u8, Op)> = Vec::new();
    for ci in 0..2u8 {
        for op in &a {
            letters.push((ci, *op));
        }
    }
    let mut seqs: Vec<Vec<(u8, Op)>> = letters.iter().map(|l| vec![*l]).collect();
    let mut all = seqs.clone();
    for _ in 1..max_len {
        let mut next = Vec::new();
        for s in &seqs {
            for l in &letters {
                // symmetry: the first op is always on connection 0
                let mut t = s.clone();
                t.push(*l);
                next.push(t);
            }
        }
        all.extend(next.iter().cloned());
        seqs = next;
    }
    all.retain(|s| s[0].0 == 0);
    let mut v = Vec::new();
    for (role, router, advertised) in configs() {
        for s in &all {
            for settle_each in [true, false] {
                if !settle_each && s.len() == 1 {
                    continue;
                }
                v.push(Case { role, router, ops: s.clone(), settle_each, advertised, hold: false, hs_max: None });
            }
            if s.len() == 2 {
                v.push(Case { role, router, ops: s.clone(), settle_each: false, advertised, hold: true, hs_max: None });
                if role.is_server() && !router {
                    v.push(Case { role, router, ops: s.clone(), settle_each: false, advertised, hold: false, hs_max: Some(0) });
                    v.push(Case { role, router, ops: s.clone(), settle_each: true, advertised, hold: true, hs_max: Some(1) });
                }
            }
        }
    }
    v
}

fn random_case(rng: &mut Rng, len: usize) -> Case {
    let cfgs = configs();
    let (role, router, advertised) = cfgs[rng.below(cfgs.len() as u64) as usize];
    let a = alphabet(true);
    // bias towards valid aliases so that long histories survive
    let ops = (0..len)
        .map(|_| {
            let mut op = a[rng.below(a.len() as u64) as usize];
            if rng.below(4) != 0 {
                op = match op {
                    Op::Bind(x, t) if x > MAX_ALIAS => Op::Bind(1 + (x % MAX_ALIAS), t),
                    Op::Use(x) if x > MAX_ALIAS => Op::Use(1 + (x % MAX_ALIAS)),
                    o => o,
                };
            }
            (rng.below(2) as u8, op)
        })
        .collect();
    let hs_max = if role.is_server() { *rng.pick(&[None, None, Some(0), Some(1), Some(2), Some(MAX_ALIAS + 1)]) } else { None };
    Case { role, router, ops, settle_each: rng.below(2) == 0, advertised, hold: rng.below(3) == 0, hs_max }
}

fn case_json(c: &Case) -> serde_json::Value {
    json!({"role": c.role.name(), "router": c.router, "settle_each": c.settle_each, "advertised": c.advertised, "hold": c.hold, "hs_max": c.hs_max,
           "ops": c.ops.iter().map(|(ci, op)| match op { Op::Bind(a, t) => json!([ci, "bind", a, t]), Op::Use(a) => json!([ci, "use", a, 0]), Op::Plain(t) => json!([ci, "plain", 0, t]) }).collect::<Vec<_>>()})
}

fn parse_case(v: &serde_json::Value) -> Option<Case> {
    let role = if v["role"].as_str()? == Role::V5Server.name() { Role::V5Server } else { Role::V5Client };
    let ops = v["ops"]
        .as_array()?
        .iter()
        .map(|o| {
            let ci = o[0].as_u64()? as u8;
            let a = o[2].as_u64()? as u16;
            let t = o[3].as_u64()? as u8;
            Some((ci, match o[1].as_str()? { "bind" => Op::Bind(a, t), "use" => Op::Use(a), _ => Op::Plain(t) }))
        })
        .collect::<Option<Vec<_>>>()?;
    Some(Case { role, router: v["router"].as_bool()?, ops, settle_each: v["settle_each"].as_bool()?, advertised: v["advertised"].as_u64().map(|x| x as u16), hold: v["hold"].as_bool().unwrap_or(false), hs_max: v["hs_max"].as_u64().map(|x| x as u16) })
}

pub fn run(opts: &Opts) -> i32 {
    let rep = Report::new(
        opts,
        "exploration",
        "v5 server (one instance, two connections) and v5 client (two connections), with and without the library's topic router, \
         client with and without an advertised Topic Alias Maximum: every sequence of bind/rebind/use/use-unbound/exceed-maximum/plain \
         publishes interleaved over both connections up to length 3 (quick: reduced alphabet of 17 operations per connection, thorough: 29) plus random \
         longer histories over the full alphabet; every handler invocation (topic, resource, dynamic segment) is compared with a \
         per-connection alias map. distinct = distinct boundary-event trace signatures of the two connections",
    );
    if let Some(p) = &opts.replay {
        return replay(p);
    }
    let quick = opts.tier == Tier::Quick;
    let mut cases = enumerate(3, !quick);
    let n_enum = cases.len();
    let mut rng = Rng::for_case(opts.seed, "c17", 0);
    let extra = if quick { 6000 } else { 120_000 };
    for i in 0..extra {
        cases.push(random_case(&mut rng, 3 + (i % 6)));
    }
    rep.extra("enumerated_cases", json!(n_enum));
    rep.extra("random_cases", json!(extra));
    pool::par_for(cases.len() as u64, None, |i| {
        let case = &cases[i as usize];
        let r = exec(run_case(case));
        rep.eval();
        match &r {
            Run::Done(o, _) => {
                rep.distinct(o.sig);
                rep.count("handler_invocations_compared", o.delivered as u64);
                rep.count("publishes_resolved_through_an_alias", o.resolved_by_alias as u64);
                rep.count("rebinds_to_a_different_topic", o.rebinds as u64);
                rep.count("connections_ended_by_invalid_alias", o.errors as u64);
                rep.count("handlers_completed_only_after_later_publishes_arrived", o.held as u64);
                if i % 1499 == 0 {
                    rep.sample(6, || json!({"case": case_json(case), "log": o.log}));
                }
                for (class, what) in &o.violations {
                    rep.violation(Violation {
                        signature: format!("{}{}{}: {}", case.role.name(), if case.router { "+router" } else { "" }, if !case.role.is_server() && case.advertised.is_none() { "+none-advertised" } else { "" }, pool::abstract_numbers(class)),
                        what: format!("{class} — {what}"),
                        replay: json!({"case": case_json(case), "log": o.log}),
                    });
                }
            }
            Run::Panic(p, tail) => rep.violation(Violation { signature: format!("{}: {}", case.role.name(), p.signature()), what: format!("panic: {} at {} — {case:?}", p.msg, p.location), replay: json!({"case": case_json(case), "log": tail}) }),
            Run::Livelock(tail) => rep.violation(Violation { signature: format!("{}: live-lock", case.role.name()), what: format!("never quiescent — {case:?}"), replay: json!({"case": case_json(case), "log": tail}) }),
            Run::Watchdog => rep.inconclusive(format!("watchdog {case:?}")),
        }
        r.after()
    });
    super::c17_after::run_part(opts, &rep);
    rep.set_exhaustive(false);
    rep.require("publishes_resolved_through_an_alias", 1000);
    rep.require("rebinds_to_a_different_topic", 200);
    rep.require("connections_ended_by_invalid_alias", 500);
    rep.finish()
}

fn replay(path: &std::path::Path) -> i32 {
    let v: serde_json::Value = serde_json::from_str(&std::fs::read_to_string(path).expect("replay file")).expect("json");
    let Some(case) = parse_case(&v["replay"]["case"]) else {
        println!("cannot parse replay case");
        return 2;
    };
    println!("replaying {case:?}");
    match exec(run_case(&case)) {
        Run::Done(o, _) => {
            for l in &o.log {
                println!("{l}");
            }
            println!("violations: {:?}", o.violations);
            if o.violations.is_empty() {
                0
            } else {
                println!("VIOLATION property=C17 replay={}", path.display());
                1
            }
        }
        Run::Panic(p, _) => {
            println!("panic {} at {}\nVIOLATION property=C17 replay={}", p.msg, p.location, path.display());
            1
        }
        Run::Livelock(_) => {
            println!("live-lock\nVIOLATION property=C17 replay={}", path.display());
            1
        }
        Run::Watchdog => 2,
    }
}
