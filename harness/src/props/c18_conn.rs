//! C18 at connection level: a SUBSCRIBE / UNSUBSCRIBE carrying a filter section 4.7 forbids ends
//! the connection with a protocol error and never reaches the application; one whose filters are
//! all valid is handled.
use serde_json::json;

use crate::app::{App, Ev, StopClass};
use crate::conn::{self, ConnCfg, Role};
use crate::explore::{Run, exec};
use crate::pool::{self, Rng};
use crate::refcodec::Packet as R;
use crate::report::{Opts, Report, Tier, Violation};

// (shared-subscription style filters are ordinary filters as far as section 4.7 goes: every level
// has to be well-formed, the group name included)
const VALID: [&str; 13] = ["a", "a/b", "+", "#", "a/+/b", "a/#", "/", "+/+", "$SYS/#", "a//b", "$share/grp/a", "$share/grp/", "$share/g/+/#"];
const INVALID: [&str; 13] = ["a/#/b", "a+", "+a", "a/b#", "#/a", "a/+b", "##", "a/#/", "", "$share/grp#/a", "$share/+x/a", "$share/#/a", "$share/a+/#"];

pub async fn run_case(role: Role, unsub: bool, filters: &[String]) -> Vec<(String, String)> {
    let app = App::new("c18c");
    let cfg = ConnCfg::new(role);
    let mut c = conn::start(&cfg, app.clone()).await;
    let mut vio = Vec::new();
    let all_valid = filters.iter().all(|f| super::c18::ref_filter_valid(f));
    let pkt = if unsub { R::Unsubscribe { pid: 5, props: vec![], filters: filters.to_vec() } } else { R::Subscribe { pid: 5, props: vec![], filters: filters.iter().map(|f| (f.clone(), 0u8)).collect() } };
    c.peer.send(&pkt);
    c.settle().await;
    let handled = app.count(|e| matches!(e, Ev::ProtoEnter { .. })) > 0;
    let stops = app.stops();
    let what = format!("{} {} {filters:?}", role.name(), if unsub { "UNSUBSCRIBE" } else { "SUBSCRIBE" });
    if all_valid {
        if !handled || !stops.is_empty() {
            vio.push(("request with valid topic filters was not handled".into(), format!("handled {handled}, stops {stops:?} — {what}")));
        }
    } else if unsub {
        // the statement is about SUBSCRIBE (and about the validators themselves); for UNSUBSCRIBE
        // only "handled or refused, never a panic" is demanded
    } else {
        if handled {
            vio.push(("request carrying an invalid topic filter reached the application".into(), what.clone()));
        }
        match stops.first() {
            Some(s) if s.1 == StopClass::Protocol => {}
            other => vio.push(("request carrying an invalid topic filter did not end the connection with a protocol error".into(), format!("{other:?} — {what}"))),
        }
    }
    c.finish().await;
    vio
}

pub fn run_part(opts: &Opts, rep: &Report) {
    // every single filter, every ordered pair, and random triples
    let all: Vec<&str> = VALID.iter().chain(INVALID.iter()).copied().collect();
    let mut lists: Vec<Vec<String>> = Vec::new();
    for a in &all {
        // an empty filter string cannot be encoded by the reference encoder as a valid UTF-8 string of length 0? it can: keep it
        lists.push(vec![a.to_string()]);
        for b in &all {
            lists.push(vec![a.to_string(), b.to_string()]);
        }
    }
    let mut rng = Rng::for_case(opts.seed, "c18c", 0);
    let n_rand = if opts.tier == Tier::Quick { 300 } else { 6000 };
    for _ in 0..n_rand {
        lists.push((0..3).map(|_| rng.pick(&all).to_string()).collect());
    }
    let mut jobs: Vec<(Role, bool, Vec<String>)> = Vec::new();
    for role in [Role::V3Server, Role::V5Server] {
        for unsub in [false, true] {
            for l in &lists {
                jobs.push((role, unsub, l.clone()));
            }
        }
    }
    pool::par_for(jobs.len() as u64, None, |i| {
        let (role, unsub, filters) = &jobs[i as usize];
        let r = exec(run_case(*role, *unsub, filters));
        rep.eval();
        match &r {
            Run::Done(v, _) => {
                rep.count("conn_subscribe_requests", 1);
                for (class, what) in v {
                    rep.violation(Violation { signature: format!("conn/{}/{}: {}", role.name(), if *unsub { "unsubscribe" } else { "subscribe" }, class), what: format!("{class} — {what}"), replay: json!({"kind": "conn", "role": role.name(), "unsub": unsub, "filters": filters}) });
                }
            }
            Run::Panic(p, _) => rep.violation(Violation { signature: format!("conn/{}: {}", role.name(), p.signature()), what: format!("panic: {} at {} — {filters:?}", p.msg, p.location), replay: json!({"kind": "conn", "role": role.name(), "unsub": unsub, "filters": filters}) }),
            Run::Livelock(_) => rep.violation(Violation { signature: format!("conn/{}: live-lock", role.name()), what: format!("never quiescent — {filters:?}"), replay: json!({"kind": "conn", "role": role.name(), "unsub": unsub, "filters": filters}) }),
            Run::Watchdog => rep.inconclusive("watchdog"),
        }
        r.after()
    });
}
