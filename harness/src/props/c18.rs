//! C18 — topic filter validation and matching follow MQTT §4.7.
//!
//! Oracle: a reference validator and a recursive matcher written from §4.7 (below, ~40 lines),
//! compared with the library on *every* string of a bounded alphabet, every (filter, topic)
//! pair, and every pair of filters for the covering relation.
use std::str::FromStr;
use std::sync::Mutex;

use ntex_bytes::ByteString;
use ntex_mqtt::{TopicFilter, TopicFilterLevel};
use serde_json::{Value, json};

use crate::pool::{self, After, Rng, hash_str};
use crate::report::{Opts, Report, Violation};

// ---------------------------------------------------------------- reference (MQTT 5 §4.7)

/// §4.7.1/4.7.3: at least one character; '#' only as the last level and alone in it; '+' alone
/// in its level.
pub fn ref_filter_valid(s: &str) -> bool {
    if s.is_empty() {
        return false;
    }
    let levels: Vec<&str> = s.split('/').collect();
    for (i, l) in levels.iter().enumerate() {
        if l.contains('#') && (*l != "#" || i != levels.len() - 1) {
            return false;
        }
        if l.contains('+') && *l != "+" {
            return false;
        }
    }
    true
}

/// Topic names: at least one character, no wildcard characters.
pub fn ref_topic_valid(s: &str) -> bool {
    !s.is_empty() && !s.contains('+') && !s.contains('#')
}

/// §4.7: the §4.7 answer for a valid filter and a valid topic name.
pub fn ref_matches(filter: &str, topic: &str) -> bool {
    let f: Vec<&str> = filter.split('/').collect();
    let t: Vec<&str> = topic.split('/').collect();
    // §4.7.2: a filter starting with a wildcard does not match a topic starting with '$'
    if t[0].starts_with('$') && (f[0] == "#" || f[0] == "+") {
        return false;
    }
    fn rec(f: &[&str], t: &[&str]) -> bool {
        match f.first() {
            None => t.is_empty(),
            Some(&"#") => true, // matches the parent level and any number of child levels
            Some(&"+") => !t.is_empty() && rec(&f[1..], &t[1..]),
            Some(l) => !t.is_empty() && t[0] == *l && rec(&f[1..], &t[1..]),
        }
    }
    rec(&f, &t)
}

// ---------------------------------------------------------------- enumeration helpers

fn all_strings(alphabet: &[u8], max_len: usize) -> Vec<String> {
    let mut out = vec![String::new()];
    let mut start = 0;
    for _ in 0..max_len {
        let end = out.len();
        for i in start..end {
            for &c in alphabet {
                let mut s = out[i].clone();
                s.push(c as char);
                out.push(s);
            }
        }
        start = end;
    }
    out
}

fn lib_parse(s: &str) -> Result<TopicFilter, ntex_mqtt::TopicFilterError> {
    TopicFilter::try_from(ByteString::from(s))
}

fn viol(kind: &str, class: &str, what: String, input: Value) -> Violation {
    Violation {
        signature: format!("{kind}: {class}"),
        what,
        replay: json!({"kind": kind, "input": input}),
    }
}

/// All validation-side checks for one candidate filter string. Returns the parsed filter when
/// the reference says it is valid and the library parsed it.
fn check_validation(rep: &Report, s: &str) -> Option<TopicFilter> {
    let want = ref_filter_valid(s);
    let parsed = lib_parse(s);
    let from_str = TopicFilter::from_str(s);
    rep.eval();
    if parsed.is_ok() != want {
        rep.violation(viol(
            "validate",
            &format!("try_from {} {:?}", if want { "rejects valid" } else { "accepts invalid" }, s),
            format!("TopicFilter::try_from({s:?}) = {parsed:?}, §4.7 says valid={want}"),
            json!(s),
        ));
    }
    if from_str.is_ok() != parsed.is_ok() {
        rep.violation(viol(
            "validate",
            &format!("from_str and try_from disagree on {s:?}"),
            format!("from_str={from_str:?} try_from={parsed:?}"),
            json!(s),
        ));
    }
    #[cfg(feature = "hooks")]
    {
        let v2 = ntex_mqtt::verif::topic_is_valid(s);
        rep.count("validator2_calls", 1);
        if v2 != want {
            rep.violation(viol(
                "validate",
                &format!(
                    "is_valid (SUBSCRIBE path) {} {:?}",
                    if want { "rejects valid" } else { "accepts invalid" },
                    s
                ),
                format!("topic::is_valid({s:?}) = {v2}, §4.7 says {want}"),
                json!(s),
            ));
        }
        if v2 != parsed.is_ok() {
            rep.count("validators_disagree", 1);
        }
    }
    if let Ok(f) = &parsed {
        if want {
            rep.count("valid_filters", 1);
            let shown = f.to_string();
            if shown != s {
                rep.violation(viol(
                    "display",
                    &format!("Display(parse({s:?})) != input"),
                    format!("Display gives {shown:?}"),
                    json!(s),
                ));
            }
            // levels() -> TryFrom<Vec<_>> round trip
            let lv: Vec<TopicFilterLevel> = f.levels().to_vec();
            match TopicFilter::try_from(lv) {
                Ok(g) if &g == f => {}
                other => rep.violation(viol(
                    "display",
                    &format!("levels() round trip differs for {s:?}"),
                    format!("TryFrom<Vec<TopicFilterLevel>> gives {other:?}"),
                    json!(s),
                )),
            }
        }
    } else {
        rep.count("invalid_filters", 1);
    }
    if want { parsed.ok() } else { None }
}

fn check_match(rep: &Report, fs: &str, f: &TopicFilter, t: &str) {
    let want = ref_matches(fs, t);
    let got = f.matches_topic(t);
    if want {
        rep_count_fast(rep, true);
    } else {
        rep_count_fast(rep, false);
    }
    if got != want {
        let class = if t.starts_with('$') { "$-topic" } else { "plain topic" };
        rep.violation(viol(
            "match",
            &format!("matches_topic wrong ({class}) filter={fs:?} topic={t:?}"),
            format!("matches_topic({fs:?}, {t:?}) = {got}, §4.7 says {want}"),
            json!({"filter": fs, "topic": t}),
        ));
    }
}

thread_local! {
    static LOCAL: std::cell::Cell<(u64, u64)> = const { std::cell::Cell::new((0, 0)) };
}
fn rep_count_fast(_rep: &Report, matched: bool) {
    LOCAL.with(|c| {
        let (a, b) = c.get();
        c.set(if matched { (a + 1, b) } else { (a, b + 1) });
    });
}
fn flush_local(rep: &Report) {
    LOCAL.with(|c| {
        let (a, b) = c.replace((0, 0));
        rep.count("pairs_matching", a);
        rep.count("pairs_not_matching", b);
        rep.evals(a + b);
    });
}

fn cover_class(f: &str, g: &str) -> String {
    let f0 = f.split('/').next().unwrap();
    let g0 = g.split('/').next().unwrap();
    if (f0 == "+" || f0 == "#") && g0.starts_with('$') {
        "first-level wildcard reported to cover a filter whose first level starts with '$'".into()
    } else {
        format!("f={f:?} g={g:?}")
    }
}

pub fn run(opts: &Opts) -> i32 {
    let rep = Report::new(
        opts,
        "exploration",
        "exhaustive: every string over {a,b,$,/,+,#} up to the stated length as a filter (both validators, \
         parse/Display round trip), every (valid filter, wildcard-free topic over {a,b,$,/}) pair against a \
         reference §4.7 matcher, every ordered pair of valid filters for the covering relation (match bitsets \
         over the topic set); plus seeded random filters/topics with long and multi-byte levels. A case is \
         distinct by its input string(s); non-trivial = the filter is valid (matching/covering) or the string \
         is non-empty (validation)",
    );
    if let Some(p) = &opts.replay {
        return replay(opts, &rep_into(rep), p);
    }
    let quick = opts.tier == crate::report::Tier::Quick;
    let (val_len, filt_len, topic_len, cover_len) = if std::env::var("VERIF_SANITIZER").is_ok() {
        // sanitizer stage (interpreter speed): the same enumeration over shorter strings
        (3, 3, 3, 3)
    } else if quick {
        (7, 6, 5, 5)
    } else {
        (8, 7, 6, 6)
    };

    // 1. validation of every string up to val_len
    let all = all_strings(b"ab$/+#", val_len);
    rep.extra("validation_strings", json!(all.len()));
    let filters: Mutex<Vec<(String, TopicFilter)>> = Mutex::new(Vec::new());
    // (under a sanitizer a fixed number of *chunks* is executed per shard: small chunks there)
    let sanitized = std::env::var("VERIF_SANITIZER").is_ok();
    let chunk = if sanitized { 16usize } else { 4096usize };
    let nchunks = all.len().div_ceil(chunk) as u64;
    pool::par_for(nchunks, None, |ci| {
        let lo = ci as usize * chunk;
        let hi = (lo + chunk).min(all.len());
        let mut local = Vec::new();
        for s in &all[lo..hi] {
            let r = pool::catch(|| check_validation(&rep, s));
            match r {
                Ok(Some(f)) if s.len() <= filt_len => local.push((s.clone(), f)),
                Ok(_) => {}
                Err(p) => rep.violation(Violation {
                    signature: p.signature(),
                    what: format!("panic validating {s:?}: {} at {}", p.msg, p.location),
                    replay: json!({"kind": "validate", "input": s}),
                }),
            }
        }
        filters.lock().unwrap().extend(local);
        After::Continue
    });
    let mut filters = filters.into_inner().unwrap();
    filters.sort_by(|a, b| (a.0.len(), &a.0).cmp(&(b.0.len(), &b.0)));
    rep.distinct_many(all.iter().filter(|s| !s.is_empty()).map(|s| hash_str(s)));
    rep.sample(4, || json!({"validation_case": all[all.len() / 3]}));

    // 2. matching: every valid filter x every topic
    let topics: Vec<String> =
        all_strings(b"ab$/", topic_len).into_iter().filter(|t| ref_topic_valid(t)).collect();
    rep.extra("match_filters", json!(filters.len()));
    rep.extra("match_topics", json!(topics.len()));
    pool::par_for(filters.len() as u64, None, |i| {
        let (fs, f) = &filters[i as usize];
        let r = pool::catch(|| {
            for t in &topics {
                check_match(&rep, fs, f, t);
            }
        });
        flush_local(&rep);
        if let Err(p) = r {
            rep.violation(Violation {
                signature: p.signature(),
                what: format!("panic matching filter {fs:?}: {}", p.msg),
                replay: json!({"kind": "match", "input": {"filter": fs, "topic": ""}}),
            });
        }
        After::Continue
    });
    if !filters.is_empty() && !topics.is_empty() {
        rep.sample(8, || json!({"match_case": {"filter": filters[filters.len() / 2].0, "topic": topics[topics.len() / 2]}}));
    }

    // 3. covering: f.matches_filter(g) => topics(g) subset of topics(f)  (reference bitsets)
    let small: Vec<&(String, TopicFilter)> =
        filters.iter().filter(|(s, _)| s.len() <= cover_len).collect();
    let words = topics.len().div_ceil(64);
    let bits: Vec<Vec<u64>> = small
        .iter()
        .map(|(fs, _)| {
            let mut b = vec![0u64; words];
            for (k, t) in topics.iter().enumerate() {
                if ref_matches(fs, t) {
                    b[k / 64] |= 1 << (k % 64);
                }
            }
            b
        })
        .collect();
    rep.extra("cover_filters", json!(small.len()));
    pool::par_for(small.len() as u64, None, |i| {
        let (fs, f) = small[i as usize];
        let mut claimed = 0u64;
        let r = pool::catch(|| {
            for (j, (gs, g)) in small.iter().enumerate() {
                if f.matches_filter(g) {
                    claimed += 1;
                    let bad = (0..words).find(|&w| bits[j][w] & !bits[i as usize][w] != 0);
                    if let Some(w) = bad {
                        let k = w * 64 + (bits[j][w] & !bits[i as usize][w]).trailing_zeros() as usize;
                        rep.violation(viol(
                            "cover",
                            &cover_class(fs, gs),
                            format!(
                                "{fs:?}.matches_filter({gs:?}) = true, but topic {:?} is matched by {gs:?} and not by {fs:?}",
                                topics[k]
                            ),
                            json!({"f": fs, "g": gs, "topic": topics[k]}),
                        ));
                    }
                }
            }
        });
        rep.evals(small.len() as u64);
        rep.count("cover_pairs", small.len() as u64);
        rep.count("cover_claims", claimed);
        if let Err(p) = r {
            rep.violation(Violation {
                signature: p.signature(),
                what: format!("panic in matches_filter with {fs:?}: {}", p.msg),
                replay: json!({"kind": "cover", "input": {"f": fs, "g": "", "topic": ""}}),
            });
        }
        After::Continue
    });

    // 4. random long / unicode levels
    let n_rand: u64 = ((if quick { 100_000.0 } else { 2_000_000.0 }) * opts.scale) as u64;
    let pool_levels = [
        "", "a", "b", "$", "$SYS", "$share", "é", "日本語", "a b", "sport", "tennis", "player1", "😀", "+", "#",
        "a+", "#b", "ab", "\u{7f}", "ÿ", "x".repeat(70).as_str().to_owned().leak(),
    ];
    let per_chunk: u64 = if sanitized { 12 } else { 1000 };
    pool::par_for(n_rand.div_ceil(per_chunk), None, |ci| {
        let mut rng = Rng::for_case(opts.seed, "C18-rand", ci);
        for _ in 0..per_chunk {
            let nl = 1 + rng.usize(5);
            let fs: Vec<&str> = (0..nl).map(|_| *rng.pick(&pool_levels)).collect();
            let fs = fs.join("/");
            // a topic derived from the filter (so that matches are frequent) or independent
            let ts: String = if rng.chance(2, 3) {
                let mut lv: Vec<&str> = Vec::new();
                for l in fs.split('/') {
                    lv.push(match l {
                        "+" | "#" => *rng.pick(&["a", "", "$SYS", "日本語", "b"]),
                        o => o,
                    });
                }
                if rng.chance(1, 3) {
                    lv.push("tail");
                }
                lv.join("/")
            } else {
                let n = 1 + rng.usize(4);
                let mut lv: Vec<&str> = Vec::new();
                for _ in 0..n {
                    lv.push(*rng.pick(&pool_levels[..14]));
                }
                lv.join("/")
            };
            let r = pool::catch(|| {
                if let Some(f) = check_validation(&rep, &fs) {
                    if ref_topic_valid(&ts) {
                        check_match(&rep, &fs, &f, &ts);
                        rep.count("random_pairs", 1);
                    }
                }
            });
            if let Err(p) = r {
                rep.violation(Violation {
                    signature: p.signature(),
                    what: format!("panic on random filter {fs:?} topic {ts:?}: {}", p.msg),
                    replay: json!({"kind": "match", "input": {"filter": fs, "topic": ts}}),
                });
            }
            rep.distinct(hash_str(&fs) ^ hash_str(&ts).rotate_left(17));
            if ci == 0 {
                rep.sample(12, || json!({"random_case": {"filter": fs, "topic": ts}}));
            }
        }
        flush_local(&rep);
        After::Continue
    });

    rep.distinct_many(
        filters.iter().take(200_000).map(|(s, _)| hash_str(s).wrapping_mul(31)),
    );
    rep.set_exhaustive(true);
    rep.extra(
        "bounds",
        json!({"validation_len": val_len, "filter_len": filt_len, "topic_len": topic_len, "cover_len": cover_len,
               "alphabet_filters": "ab$/+#", "alphabet_topics": "ab$/"}),
    );
    rep.assume("reference validator/matcher in props/c18.rs written from MQTT 5 §4.7 (40 lines)");
    rep.assume("U+0000 is not generated: the statement's alphabet does not contain it");
    rep.require("valid_filters", 1000);
    rep.require("pairs_matching", 10_000);
    rep.require("cover_claims", 1000);
    // connection level: SUBSCRIBE / UNSUBSCRIBE with invalid filters (skipped in the interpreter stage)
    if std::env::var("VERIF_SANITIZER").as_deref() != Ok("miri") {
        super::c18_conn::run_part(opts, &rep);
    }
    rep.finish()
}

fn rep_into(r: Report) -> Report {
    r
}

fn replay(_opts: &Opts, rep: &Report, path: &std::path::Path) -> i32 {
    let v: Value = serde_json::from_str(&std::fs::read_to_string(path).expect("replay file")).expect("json");
    let r = &v["replay"];
    let kind = r["kind"].as_str().unwrap_or("");
    println!("replaying {kind}: {}", r["input"]);
    match kind {
        "validate" | "display" => {
            let s = r["input"].as_str().unwrap();
            println!("  ref_filter_valid = {}", ref_filter_valid(s));
            println!("  try_from = {:?}", lib_parse(s));
            #[cfg(feature = "hooks")]
            println!("  topic::is_valid = {}", ntex_mqtt::verif::topic_is_valid(s));
            check_validation(rep, s);
        }
        "match" => {
            let f = r["input"]["filter"].as_str().unwrap();
            let t = r["input"]["topic"].as_str().unwrap();
            println!("  ref_matches = {}", ref_matches(f, t));
            if let Ok(tf) = lib_parse(f) {
                println!("  matches_topic = {}", tf.matches_topic(t));
                check_match(rep, f, &tf, t);
            }
        }
        "cover" => {
            let f = r["input"]["f"].as_str().unwrap();
            let g = r["input"]["g"].as_str().unwrap();
            let t = r["input"]["topic"].as_str().unwrap();
            let (tf, tg) = (lib_parse(f).unwrap(), lib_parse(g).unwrap());
            let claim = tf.matches_filter(&tg);
            println!("  {f:?}.matches_filter({g:?}) = {claim}; ref: g matches {t:?} = {}, f matches = {}", ref_matches(g, t), ref_matches(f, t));
            if claim && ref_matches(g, t) && !ref_matches(f, t) {
                rep.violation(viol("cover", &cover_class(f, g), "replayed".into(), r["input"].clone()));
            }
        }
        _ => {
            println!("unknown replay kind");
            return 2;
        }
    }
    if rep.violation_count() > 0 {
        println!("VIOLATION property=C18 replay={}", path.display());
        1
    } else {
        println!("replay: no violation");
        0
    }
}
