//! C09 part B — the size the sink builders report equals the Remaining Length actually written.
use serde_json::json;

use crate::app::App;
use crate::conn::{self, ConnCfg, Role};
use crate::explore::{Run, exec};
use crate::pool::{self, Rng};
use crate::refcodec;
use crate::report::{Opts, Report, Tier, Violation};
use crate::sink::{Op, PubSpec, next_op_id};

pub struct Outc {
    pub violations: Vec<(String, String)>,
    pub compared: usize,
    pub sig: u64,
}

fn word(rng: &mut Rng, max: usize) -> String {
    let n = rng.usize(max + 1);
    (0..n).map(|_| *rng.pick(&['a', 'b', '/', 'é', 'x', '0'])).collect()
}

/// remaining lengths of the frames in `raw`, in order
fn frames(raw: &[u8]) -> Vec<(u8, u32)> {
    let mut v = Vec::new();
    let mut pos = 0;
    while pos < raw.len() {
        match refcodec::fixed_header(&raw[pos..]) {
            Ok(Some((first, rl, h))) => {
                v.push((first >> 4, rl));
                pos += h + rl as usize;
            }
            _ => break,
        }
    }
    v
}

pub async fn run_case(role: Role, seed: u64) -> Outc {
    let mut rng = Rng::for_case(seed, "c09b", 0);
    let app = App::new("c09b");
    let mut cfg = ConnCfg::new(role);
    cfg.max_send = 64;
    cfg.peer_receive_max = Some(64);
    cfg.peer_topic_alias_max = 16;
    if role == Role::V5Client {
        cfg.connack_props = vec![crate::refcodec::Prop::U16(0x21, 64), crate::refcodec::Prop::U16(0x22, 16)];
    }
    let mut c = conn::start(&cfg, app.clone()).await;
    let mut o = Outc { violations: vec![], compared: 0, sig: 0 };
    if !c.has_sink() {
        return o;
    }
    let sink = c.sink();
    c.settle().await;
    let mut expected: Vec<(u8, u32, String)> = Vec::new(); // (packet type, reported size, what)
    let mut ops: Vec<Op> = Vec::new();
    let base = frames(&c.peer.raw).len();
    let n = 1 + rng.usize(8);
    for i in 0..n {
        match rng.below(if role.is_server() { 3 } else { 5 }) {
            0 | 1 | 2 => {
                let qos = rng.below(3) as u8;
                let plen = *rng.pick(&[0usize, 1, 5, 100, 127, 128, 200, 16383, 16384, 20000]);
                let mut spec = PubSpec::new(&format!("t/{}{}", i, word(&mut rng, 20)), vec![i as u8; plen]);
                spec.retain = rng.bool();
                if sink.is_v5() {
                    for _ in 0..rng.usize(4) {
                        spec.user_props.push((word(&mut rng, 8), word(&mut rng, 30)));
                    }
                    if rng.bool() {
                        spec.content_type = Some(word(&mut rng, 12));
                    }
                    if rng.chance(1, 4) {
                        spec.alias = Some(1 + rng.below(16) as u16);
                    }
                }
                let reported = sink.reported_publish_size(&spec, qos);
                expected.push((3, reported, format!("PUBLISH qos {qos} payload {plen} {spec:?}").chars().take(160).collect()));
                match qos {
                    0 => {
                        let _ = sink.send_qos0(&spec);
                    }
                    1 => {
                        let mut op = Op::new(&app, next_op_id(), "q1", sink.send_qos1(&spec));
                        op.start();
                        ops.push(op);
                    }
                    _ => {
                        let ch = crate::sink::Chan::new();
                        let mut op = Op::new(&app, next_op_id(), "q2", sink.send_qos2(&spec, ch, std::rc::Rc::new(|_, _| {})));
                        op.start();
                        ops.push(op);
                    }
                }
            }
            3 => {
                let fs: Vec<(String, u8)> = (0..1 + rng.usize(4)).map(|_| (format!("s/{}", word(&mut rng, 25)), rng.below(3) as u8)).collect();
                let refs: Vec<(&str, u8)> = fs.iter().map(|(f, q)| (f.as_str(), *q)).collect();
                let reported = sink.reported_subscribe_size(&refs);
                expected.push((8, reported, format!("SUBSCRIBE {fs:?}")));
                let mut op = Op::new(&app, next_op_id(), "sub", sink.subscribe(None, &refs));
                op.start();
                ops.push(op);
            }
            _ => {
                let fs: Vec<String> = (0..1 + rng.usize(4)).map(|_| format!("u/{}", word(&mut rng, 25))).collect();
                let refs: Vec<&str> = fs.iter().map(String::as_str).collect();
                let reported = sink.reported_unsubscribe_size(&refs);
                expected.push((10, reported, format!("UNSUBSCRIBE {fs:?}")));
                let mut op = Op::new(&app, next_op_id(), "unsub", sink.unsubscribe(None, &refs));
                op.start();
                ops.push(op);
            }
        }
        c.settle().await;
    }
    c.settle().await;
    let written: Vec<(u8, u32)> = frames(&c.peer.raw).into_iter().skip(base).collect();
    if written.len() != expected.len() {
        o.violations.push(("number of frames written differs from the number of sends".into(), format!("{} written, {} sent: {written:?}", written.len(), expected.len())));
    } else {
        for ((ty, rl), (ety, rep, what)) in written.iter().zip(expected.iter()) {
            o.compared += 1;
            if ty != ety {
                o.violations.push(("frames written in a different order than sent".into(), format!("type {ty} vs {ety}")));
                break;
            }
            if rl != rep {
                o.violations.push((
                    format!("{} builder reports a size different from the Remaining Length written", match ety { 3 => "publish", 8 => "subscribe", _ => "unsubscribe" }),
                    format!("reported {rep}, Remaining Length {rl}: {what}"),
                ));
            }
        }
    }
    o.sig = app.trace_signature() ^ seed;
    drop(ops);
    c.finish().await;
    o
}

/// Part C: acknowledgements produced by the handlers of a MQTT 5 server, with diagnostics
/// (reason string, user properties) attached, under the peer's Maximum Packet Size and its
/// Request Problem Information flag — judged on the wire.
pub async fn ack_case(seed: u64) -> (Vec<(String, String)>, usize, usize, usize, u64) {
    use crate::refcodec::{Packet as R, Prop, Ver};
    let mut rng = Rng::for_case(seed, "c09c", 0);
    let app = App::new("c09c");
    let mut cfg = ConnCfg::new(Role::V5Server);
    cfg.max_qos = 2;
    cfg.request_problem_info = rng.chance(2, 3);
    let limit: Option<u32> = match rng.below(4) {
        0 => None,
        1 => Some(20 + rng.below(30) as u32),
        2 => Some(40 + rng.below(120) as u32),
        _ => Some(300),
    };
    cfg.peer_max_packet_size = limit;
    // CONNACK answers that go through the codec's flag setters after the CONNECT was decoded
    cfg.hs.retain_available = *rng.pick(&[None, Some(true), Some(false)]);
    cfg.hs.sub_ids_available = *rng.pick(&[None, Some(true), Some(false)]);
    let n_up = rng.usize(4);
    let ups: Vec<(String, String)> = (0..n_up).map(|i| (format!("k{i}"), "v".repeat(*rng.pick(&[0usize, 1, 10, 40, 150])))).collect();
    let reason = rng.chance(2, 3).then(|| "R".repeat(*rng.pick(&[1usize, 8, 30, 100])));
    *app.ack_decor.borrow_mut() = Some((reason.clone(), ups.clone()));
    let mut c = conn::start(&cfg, app.clone()).await;
    let mut vio: Vec<(String, String)> = Vec::new();
    if !c.has_sink() {
        return (vio, 0, 0, 0, 0);
    }
    let what = format!("problem info requested: {}, peer Maximum Packet Size {limit:?}, reason string {:?} bytes, user properties {:?}", cfg.request_problem_info, reason.as_ref().map(String::len), ups.iter().map(|(k, v)| k.len() + v.len()).collect::<Vec<_>>());
    let mut pid = 10u16;
    let n = 2 + rng.usize(5);
    for _ in 0..n {
        pid += 1;
        match rng.below(4) {
            0 => {
                c.peer.send(&R::Publish { dup: false, qos: 1, retain: false, topic: "a".into(), pid: Some(pid), props: vec![], payload: vec![1] });
            }
            1 => {
                c.peer.send(&R::Publish { dup: false, qos: 2, retain: false, topic: "a".into(), pid: Some(pid), props: vec![], payload: vec![2] });
                c.settle().await;
                c.peer.send(&R::PubRel { pid, code: Some(0), props: None });
            }
            2 => {
                c.peer.send(&R::Subscribe { pid, props: vec![], filters: vec![("f/#".into(), 1)] });
            }
            _ => {
                c.peer.send(&R::Unsubscribe { pid, props: vec![], filters: vec!["f/#".into()] });
            }
        }
        c.settle().await;
    }
    // ---- judge every acknowledgement on the wire
    let decor_props = |with_reason: bool| -> Vec<Prop> {
        let mut v: Vec<Prop> = ups.iter().map(|(k, v)| Prop::Pair(0x26, k.clone(), v.clone())).collect();
        if with_reason {
            if let Some(r) = &reason {
                v.push(Prop::Str(0x1F, r.clone()));
            }
        }
        v
    };
    let (mut acks, mut shortened, mut complete) = (0usize, 0usize, 0usize);
    for (_, p) in app.wire() {
        let (props, full): (Vec<Prop>, R) = match &p {
            R::PubAck { pid, code, props } => (props.clone().unwrap_or_default(), R::PubAck { pid: *pid, code: Some(code.unwrap_or(0)), props: Some(decor_props(true)) }),
            R::PubRec { pid, code, props } => (props.clone().unwrap_or_default(), R::PubRec { pid: *pid, code: Some(code.unwrap_or(0)), props: Some(decor_props(true)) }),
            R::PubComp { pid, code, props } => (props.clone().unwrap_or_default(), R::PubComp { pid: *pid, code: Some(code.unwrap_or(0)), props: Some(decor_props(true)) }),
            R::SubAck { pid, props, codes } => (props.clone(), R::SubAck { pid: *pid, props: decor_props(true), codes: codes.clone() }),
            R::UnsubAck { pid, props, codes } => (props.clone(), R::UnsubAck { pid: *pid, props: decor_props(true), codes: codes.clone() }),
            _ => continue,
        };
        acks += 1;
        let name = p.name();
        let on_wire = refcodec::encode(Ver::V5, &p).map(|b| b.len()).unwrap_or(0);
        if let Some(l) = limit {
            if on_wire as u32 > l {
                vio.push((format!("{name} larger than the peer's Maximum Packet Size"), format!("{on_wire} bytes — {what}")));
            }
        }
        let diag: Vec<&Prop> = props.iter().filter(|q| matches!(q, Prop::Str(0x1F, _) | Prop::Pair(0x26, _, _))).collect();
        if !cfg.request_problem_info && !diag.is_empty() {
            vio.push((format!("{name} carries a reason string / user properties although the CONNECT declined problem information"), format!("{diag:?} — {what}").chars().take(300).collect()));
        }
        // whole properties only: everything present is one of the attached diagnostics
        let all = decor_props(true);
        for q in &diag {
            if !all.contains(q) {
                vio.push((format!("{name} carries a diagnostic property that differs from what the handler attached (truncated?)"), format!("{q:?} — {what}").chars().take(300).collect()));
            }
        }
        // (when diagnostics are dropped is the library's choice — it budgets the fixed header
        // conservatively; the statement only says what may be left out and that the limit holds)
        let full_len = refcodec::encode(Ver::V5, &full).map(|b| b.len()).unwrap_or(usize::MAX);
        if diag.len() == all.len() {
            complete += 1;
        } else if limit.is_some_and(|l| full_len as u32 > l) {
            shortened += 1;
        }
    }
    if let Some(g) = &c.peer.garbage {
        vio.push(("acknowledgement stream does not parse".into(), format!("{g} — {what}")));
    }
    let sig = app.trace_signature() ^ seed;
    c.finish().await;
    (vio, acks, shortened, complete, sig)
}

pub fn run_part(opts: &Opts, rep: &Report) {
    let n: u64 = if opts.tier == Tier::Quick { 6000 } else { 200_000 };
    pool::par_for(n, None, |i| {
        let seed = pool::mix(opts.seed ^ 0xC09C, i);
        let r = exec(ack_case(seed));
        rep.eval();
        match &r {
            Run::Done((v, acks, shortened, complete, sig), _) => {
                rep.distinct(*sig);
                rep.count("conn_acks_judged_on_the_wire", *acks as u64);
                rep.count("conn_acks_that_had_to_be_shortened", *shortened as u64);
                rep.count("conn_acks_that_fit_completely", *complete as u64);
                for (class, what) in v {
                    rep.violation(Violation { signature: format!("conn/v5/server/acks: {}", pool::abstract_numbers(class)), what: format!("{class} — {what}"), replay: json!({"kind": "conn-acks", "seed": seed}) });
                }
            }
            Run::Panic(p, _) => rep.violation(Violation { signature: format!("conn/v5/server/acks: {}", p.signature()), what: format!("panic: {} at {}", p.msg, p.location), replay: json!({"kind": "conn-acks", "seed": seed}) }),
            Run::Livelock(_) => rep.violation(Violation { signature: "conn/v5/server/acks: live-lock".into(), what: "never quiescent".into(), replay: json!({"kind": "conn-acks", "seed": seed}) }),
            Run::Watchdog => rep.inconclusive("watchdog"),
        }
        r.after()
    });
    rep.require("conn_acks_judged_on_the_wire", 10_000);
    rep.require("conn_acks_that_had_to_be_shortened", 500);

    let n: u64 = if opts.tier == Tier::Quick { 4000 } else { 60_000 };
    pool::par_for(n, None, |i| {
        let role = Role::ALL[(i % 4) as usize];
        let seed = pool::mix(opts.seed, i);
        let r = exec(run_case(role, seed));
        rep.eval();
        match &r {
            Run::Done(o, _) => {
                rep.distinct(o.sig);
                rep.count("builder_sizes_compared_with_wire", o.compared as u64);
                for (class, what) in &o.violations {
                    rep.violation(Violation { signature: format!("conn/{}: {}", role.name(), pool::abstract_numbers(class)), what: format!("{class} — {what}"), replay: json!({"kind": "conn", "role": role.name(), "seed": seed}) });
                }
            }
            Run::Panic(p, _) => rep.violation(Violation { signature: format!("conn/{}: {}", role.name(), p.signature()), what: format!("panic: {} at {}", p.msg, p.location), replay: json!({"kind": "conn", "role": role.name(), "seed": seed}) }),
            Run::Livelock(_) => rep.violation(Violation { signature: format!("conn/{}: live-lock", role.name()), what: "never quiescent".into(), replay: json!({"kind": "conn", "role": role.name(), "seed": seed}) }),
            Run::Watchdog => rep.inconclusive("watchdog"),
        }
        r.after()
    });
    rep.require("builder_sizes_compared_with_wire", 5000);
}
