//! C09 part B — the size the sink builders report equals the Remaining Length actually written.
use serde_json::json;

use crate::app::App;
use crate::conn::{self, ConnCfg, Role};
use crate::explore::{Run, exec};
use crate::pool::{self, Rng};
use crate::refcodec;
use crate::report::{Opts, Report, Tier, Violation};
use crate::sink::{Op, PubSpec, next_op_id};

pub struct Outc {
    pub violations: Vec<(String, String)>,
    pub compared: usize,
    pub sig: u64,
}

fn word(rng: &mut Rng, max: usize) -> String {
    let n = rng.usize(max + 1);
    (0..n).map(|_| *rng.pick(&['a', 'b', '/', 'é', 'x', '0'])).collect()
}

/// remaining lengths of the frames in `raw`, in order
fn frames(raw: &[u8]) -> Vec<(u8, u32)> {
    let mut v = Vec::new();
    let mut pos = 0;
    while pos < raw.len() {
        match refcodec::fixed_header(&raw[pos..]) {
            Ok(Some((first, rl, h))) => {
                v.push((first >> 4, rl));
                pos += h + rl as usize;
            }
            _ => break,
        }
    }
    v
}

pub async fn run_case(role: Role, seed: u64) -> Outc {
    let mut rng = Rng::for_case(seed, "c09b", 0);
    let app = App::new("c09b");
    let mut cfg = ConnCfg::new(role);
    cfg.max_send = 64;
    cfg.peer_receive_max = Some(64);
    cfg.peer_topic_alias_max = 16;
    if role == Role::V5Client {
        cfg.connack_props = vec![crate::refcodec::Prop::U16(0x21, 64), crate::refcodec::Prop::U16(0x22, 16)];
    }
    let mut c = conn::start(&cfg, app.clone()).await;
    let mut o = Outc { violations: vec![], compared: 0, sig: 0 };
    if !c.has_sink() {
        return o;
    }
    let sink = c.sink();
    c.settle().await;
    let mut expected: Vec<(u8, u32, String)> = Vec::new(); // (packet type, reported size, what)
    let mut ops: Vec<Op> = Vec::new();
    let base = frames(&c.peer.raw).len();
    let n = 1 + rng.usize(8);
    for i in 0..n {
        match rng.below(if role.is_server() { 3 } else { 5 }) {
            0 | 1 | 2 => {
                let qos = rng.below(3) as u8;
                let plen = *rng.pick(&[0usize, 1, 5, 100, 127, 128, 200, 16383, 16384, 20000]);
                let mut spec = PubSpec::new(&format!("t/{}{}", i, word(&mut rng, 20)), vec![i as u8; plen]);
                spec.retain = rng.bool();
                if sink.is_v5() {
                    for _ in 0..rng.usize(4) {
                        spec.user_props.push((word(&mut rng, 8), word(&mut rng, 30)));
                    }
                    if rng.bool() {
                        spec.content_type = Some(word(&mut rng, 12));
                    }
                    if rng.chance(1, 4) {
                        spec.alias = Some(1 + rng.below(16) as u16);
                    }
                }
                let reported = sink.reported_publish_size(&spec, qos);
                expected.push((3, reported, format!("PUBLISH qos {qos} payload {plen} {spec:?}").chars().take(160).collect()));
                match qos {
                    0 => {
                        let _ = sink.send_qos0(&spec);
                    }
                    1 => {
                        let mut op = Op::new(&app, next_op_id(), "q1", sink.send_qos1(&spec));
                        op.start();
                        ops.push(op);
                    }
                    _ => {
                        let ch = crate::sink::Chan::new();
                        let mut op = Op::new(&app, next_op_id(), "q2", sink.send_qos2(&spec, ch, std::rc::Rc::new(|_, _| {})));
                        op.start();
                        ops.push(op);
                    }
                }
            }
            3 => {
                let fs: Vec<(String, u8)> = (0..1 + rng.usize(4)).map(|_| (format!("s/{}", word(&mut rng, 25)), rng.below(3) as u8)).collect();
                let refs: Vec<(&str, u8)> = fs.iter().map(|(f, q)| (f.as_str(), *q)).collect();
                let reported = sink.reported_subscribe_size(&refs);
                expected.push((8, reported, format!("SUBSCRIBE {fs:?}")));
                let mut op = Op::new(&app, next_op_id(), "sub", sink.subscribe(None, &refs));
                op.start();
                ops.push(op);
            }
            _ => {
                let fs: Vec<String> = (0..1 + rng.usize(4)).map(|_| format!("u/{}", word(&mut rng, 25))).collect();
                let refs: Vec<&str> = fs.iter().map(String::as_str).collect();
                let reported = sink.reported_unsubscribe_size(&refs);
                expected.push((10, reported, format!("UNSUBSCRIBE {fs:?}")));
                let mut op = Op::new(&app, next_op_id(), "unsub", sink.unsubscribe(None, &refs));
                op.start();
                ops.push(op);
            }
        }
        c.settle().await;
    }
    c.settle().await;
    let written: Vec<(u8, u32)> = frames(&c.peer.raw).into_iter().skip(base).collect();
    if written.len() != expected.len() {
        o.violations.push(("number of frames written differs from the number of sends".into(), format!("{} written, {} sent: {written:?}", written.len(), expected.len())));
    } else {
        for ((ty, rl), (ety, rep, what)) in written.iter().zip(expected.iter()) {
            o.compared += 1;
            if ty != ety {
                o.violations.push(("frames written in a different order than sent".into(), format!("type {ty} vs {ety}")));
                break;
            }
            if rl != rep {
                o.violations.push((
                    format!("{} builder reports a size different from the Remaining Length written", match ety { 3 => "publish", 8 => "subscribe", _ => "unsubscribe" }),
                    format!("reported {rep}, Remaining Length {rl}: {what}"),
                ));
            }
        }
    }
    o.sig = app.trace_signature() ^ seed;
    drop(ops);
    c.finish().await;
    o
}

pub fn run_part(opts: &Opts, rep: &Report) {
    let n: u64 = if opts.tier == Tier::Quick { 4000 } else { 60_000 };
    pool::par_for(n, None, |i| {
        let role = Role::ALL[(i % 4) as usize];
        let seed = pool::mix(opts.seed, i);
        let r = exec(run_case(role, seed));
        rep.eval();
        match &r {
            Run::Done(o, _) => {
                rep.distinct(o.sig);
                rep.count("builder_sizes_compared_with_wire", o.compared as u64);
                for (class, what) in &o.violations {
                    rep.violation(Violation { signature: format!("conn/{}: {}", role.name(), pool::abstract_numbers(class)), what: format!("{class} — {what}"), replay: json!({"kind": "conn", "role": role.name(), "seed": seed}) });
                }
            }
            Run::Panic(p, _) => rep.violation(Violation { signature: format!("conn/{}: {}", role.name(), p.signature()), what: format!("panic: {} at {}", p.msg, p.location), replay: json!({"kind": "conn", "role": role.name(), "seed": seed}) }),
            Run::Livelock(_) => rep.violation(Violation { signature: format!("conn/{}: live-lock", role.name()), what: "never quiescent".into(), replay: json!({"kind": "conn", "role": role.name(), "seed": seed}) }),
            Run::Watchdog => rep.inconclusive("watchdog"),
        }
        r.after()
    });
    rep.require("builder_sizes_compared_with_wire", 5000);
}
