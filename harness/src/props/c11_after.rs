//! C11, part "after the peer has gone": a burst of QoS 1/2 publishes (and PUBRELs) that is still
//! buffered when the connection is closed, on a server configured to go on handling publishes
//! (`handle_qos_after_disconnect`). The in-use rule does not depend on anybody being there to
//! read the acknowledgement: a publish whose identifier is still in use is not delivered.
//!
//! QoS 1 handlers stay pending for the whole scenario (their identifiers stay in use), QoS 2
//! handlers complete at once (the identifier stays in use until PUBREL).
use std::collections::HashSet;

use serde_json::json;

use crate::app::{App, Ev, GateKind, Outcome, PubPlan, ReadMode};
use crate::conn::{self, ConnCfg, Role};
use crate::explore::{Run, exec};
use crate::pool;
use crate::refcodec::Packet as R;
use crate::report::{Opts, Report, Violation};

#[derive(Debug, Clone, Copy, PartialEq, Eq)]
pub enum Pk {
    Pub { qos: u8, pid: u16 },
    Rel(u16),
}

#[derive(Debug, Clone)]
pub struct Case {
    pub role: Role,
    pub after_qos: u8,
    pub pkts: Vec<Pk>,
    /// the handshake answers only after the peer has closed (everything is handled "after")
    pub slow_handshake: bool,
}

pub struct Outc {
    pub vio: Vec<(String, String)>,
    pub delivered: usize,
    pub refused: usize,
    pub log: Vec<String>,
}

pub async fn run_case(case: &Case) -> Outc {
    let app = App::new("c11a");
    let mut cfg = ConnCfg::new(case.role);
    cfg.max_qos = 2;
    cfg.max_receive = 16;
    cfg.handle_qos_after_disconnect = Some(case.after_qos);
    cfg.hs.gated = case.slow_handshake;
    let v5 = case.role.is_v5();
    // ---- reference model
    let mut in_use: HashSet<u16> = HashSet::new();
    let mut expect: Vec<(u8, u16, u8)> = Vec::new(); // (qos, pid, marker)
    let mut refused = 0usize;
    let mut dead = false;
    for (i, p) in case.pkts.iter().enumerate() {
        if dead {
            break;
        }
        match *p {
            Pk::Pub { qos, pid } => {
                if in_use.contains(&pid) {
                    refused += 1;
                    if !v5 {
                        dead = true;
                    }
                } else {
                    in_use.insert(pid);
                    expect.push((qos, pid, i as u8));
                }
            }
            Pk::Rel(pid) => {
                // (a QoS 1 exchange is not completed by a PUBREL; the alphabet keeps the
                // identifiers of the two kinds apart)
                if !in_use.remove(&pid) && !v5 {
                    dead = true;
                }
            }
        }
    }
    for (qos, _, _) in &expect {
        app.pub_plans.borrow_mut().push_back(PubPlan { read: ReadMode::Eager, gated: *qos == 1, outcome: Outcome::Ok });
    }
    let mut c = conn::start_server_raw(&cfg, app.clone()).await;
    let what = format!("{case:?}");
    let mut bytes = crate::refcodec::encode(c.peer.ver, &cfg.peer_connect()).unwrap();
    app.log_peer(&cfg.peer_connect());
    for (i, p) in case.pkts.iter().enumerate() {
        let pkt = match *p {
            Pk::Pub { qos, pid } => R::Publish { dup: false, qos, retain: false, topic: "a/d".into(), pid: Some(pid), props: vec![], payload: vec![i as u8] },
            Pk::Rel(pid) => R::PubRel { pid, code: if v5 { Some(0) } else { None }, props: None },
        };
        app.log_peer(&pkt);
        bytes.extend(crate::refcodec::encode(c.peer.ver, &pkt).unwrap());
    }
    c.peer.write_part(&bytes);
    if !case.slow_handshake {
        crate::rt::rounds(3).await;
    }
    c.peer.close();
    c.settle().await;
    app.open_gate((GateKind::Handshake, 0), Outcome::Ok);
    c.settle().await;
    // ---- compare
    let mut vio = Vec::new();
    let got: Vec<(u8, u16, u8)> = app
        .events()
        .iter()
        .filter_map(|(_, e)| if let Ev::PubEnter { call, qos, pid, .. } = e { Some((*call, *qos, pid.unwrap_or(0))) } else { None })
        .map(|(call, qos, pid)| {
            let marker = app.events().iter().find_map(|(_, e)| if let Ev::PubPayload { call: c2, bytes } = e { (*c2 == call).then(|| bytes.first().copied().unwrap_or(255)) } else { None }).unwrap_or(255);
            (qos, pid, marker)
        })
        .collect();
    // a packet above the after-disconnect QoS may or may not be handled depending on whether it
    // was read before the close was noticed: only what the model calls "in use" is judged
    let mut seen: HashSet<u16> = HashSet::new();
    let mut model_in_use: HashSet<u16> = HashSet::new();
    let mut idx = 0usize;
    for (i, p) in case.pkts.iter().enumerate() {
        let delivered = got.get(idx).is_some_and(|g| g.2 == i as u8);
        match *p {
            Pk::Pub { pid, .. } => {
                if delivered {
                    idx += 1;
                    if model_in_use.contains(&pid) {
                        vio.push((
                            "publish with an in-use packet identifier delivered to the handler (after the peer had gone)".into(),
                            format!("packet #{i} id {pid}, delivered {got:?} — {what}"),
                        ));
                    }
                    model_in_use.insert(pid);
                    seen.insert(pid);
                }
            }
            Pk::Rel(pid) => {
                model_in_use.remove(&pid);
            }
        }
    }
    if idx != got.len() {
        vio.push(("handler invocations out of order or duplicated (after the peer had gone)".into(), format!("delivered {got:?} — {what}")));
    }
    let log = app.render(40);
    app.open_all(Outcome::Ok);
    c.settle().await;
    c.finish().await;
    let _ = expect;
    Outc { vio, delivered: got.len(), refused, log }
}

pub fn run_part(_opts: &Opts, rep: &Report) {
    let mut cases = Vec::new();
    for role in [Role::V3Server, Role::V5Server] {
        for after_qos in [1u8, 2] {
            let mut alpha = vec![Pk::Pub { qos: 1, pid: 1 }, Pk::Pub { qos: 1, pid: 2 }];
            if after_qos == 2 {
                alpha.extend([Pk::Pub { qos: 2, pid: 3 }, Pk::Pub { qos: 2, pid: 4 }, Pk::Rel(3), Pk::Rel(4)]);
            }
            for slow_handshake in [true, false] {
                for a in &alpha {
                    for b in &alpha {
                        cases.push(Case { role, after_qos, pkts: vec![*a, *b], slow_handshake });
                        for c in &alpha {
                            cases.push(Case { role, after_qos, pkts: vec![*a, *b, *c], slow_handshake });
                            if after_qos == 2 && matches!(c, Pk::Rel(_)) {
                                for d in &alpha {
                                    cases.push(Case { role, after_qos, pkts: vec![*a, *b, *c, *d], slow_handshake });
                                }
                            }
                        }
                    }
                }
            }
        }
    }
    pool::par_for(cases.len() as u64, None, |i| {
        let case = &cases[i as usize];
        let r = exec(run_case(case));
        rep.eval();
        match &r {
            Run::Done(o, _) => {
                rep.count("after_disconnect_cases", 1);
                rep.count("after_disconnect_publishes_delivered", o.delivered as u64);
                rep.count("after_disconnect_reuses_of_an_in_use_identifier", o.refused as u64);
                for (class, what) in &o.vio {
                    rep.violation(Violation { signature: format!("{}/after-disconnect: {class}", case.role.name()), what: format!("{class} — {what}"), replay: json!({"after_case": format!("{case:?}"), "log": o.log}) });
                }
            }
            Run::Panic(p, tail) => rep.violation(Violation { signature: format!("{}/after-disconnect: {}", case.role.name(), p.signature()), what: format!("panic: {} at {} — {case:?}", p.msg, p.location), replay: json!({"after_case": format!("{case:?}"), "log": tail}) }),
            Run::Livelock(tail) => rep.violation(Violation { signature: format!("{}/after-disconnect: live-lock", case.role.name()), what: format!("never quiescent — {case:?}"), replay: json!({"after_case": format!("{case:?}"), "log": tail}) }),
            Run::Watchdog => rep.inconclusive("watchdog"),
        }
        r.after()
    });
    rep.require("after_disconnect_publishes_delivered", 500);
    rep.require("after_disconnect_reuses_of_an_in_use_identifier", 100);
}
