//! C07 — however a connection ends, it is torn down completely and exactly once.
//!
//! Fault enumeration: base scenarios (B1 publishes in flight with gated handlers; B2 a streamed
//! payload half received with the handler waiting in read(); B3 outbound sends awaiting acks and
//! senders parked on a full window plus a ready() waiter; B4 write back-pressure active with
//! queued responses; B5 = B1 with a slow (gated) control service) x termination cause x EVERY
//! step index of the base script and, for peer close / read error, EVERY byte offset of the
//! inbound stream x 4 roles. Oracle `RefTeardown` over the event log at final quiescence.
use std::rc::Rc;

use serde_json::json;

use crate::app::{App, ControlPlan, ControlAnswer, Ev, GateKind, InnerOp, Outcome, ProtoAnswer, ProtoPlan, PubPlan, ReadMode, ReadyMode, SVC_PROTO, SVC_PUB, SinkRes, StopClass};
use crate::conn::{self, ConnCfg, Role};
use crate::explore::{Run, exec};
use crate::pool::{self, After};
use crate::refcodec::{self, Packet as R};
use crate::report::{Opts, Report, Tier, Violation};
use crate::sink::{Op, PubSpec, next_op_id};

#[derive(Debug, Clone, Copy, PartialEq, Eq)]
pub enum Base {
    B1,
    B2,
    /// B2 with the payload taken out of the message and read by a task that outlives the handler
    /// (clients: routed through `resource`, i.e. with the library's default control service)
    B2D,
    B3,
    /// B3 with the publish-ack callback registered and two non-blocking sends among the senders
    B3C,
    B4,
    B5,
    /// an inbound handler in flight while the application's own writes run into back-pressure
    B6,
    /// a handler that uses the sink itself and awaits the result (an outbound QoS 1 publish the
    /// peer never acknowledges) with further requests queued behind it
    B7,
    /// B3 with the parked senders in a chosen order (`step` selects which kind waits first); at
    /// the end the peer acknowledges the oldest publish and the cause follows after `variant`
    /// scheduler rounds, i.e. while the woken waiter may not have run yet
    B3W,
    /// B2 with a handler that asks for the whole payload at once (`read_all`) and waits for it
    B2A,
    /// an exactly-once send whose PUBREC has arrived and whose receipt the application still holds
    /// when the end comes; it is released only after the connection is gone
    B3R,
}

#[derive(Debug, Clone, Copy, PartialEq, Eq)]
pub enum Cause {
    PeerClose,
    ReadError,
    WriteError,
    Garbage,
    ProtocolViolation,
    PublishHandlerError,
    /// the most recently started handler fails while earlier ones are still running; they complete afterwards
    PublishHandlerErrorLast,
    ProtoHandlerError,
    /// the protocol-message handler asks for a disconnect
    ProtoDisconnect,
    LocalClose,
    CloseWithReason,
    ForceClose,
    PeerDisconnect,
    /// `Service::ready` of the publish service fails
    PubReadyError,
    /// `Service::ready` of the protocol-message service fails
    ProtoReadyError,
}

pub const CAUSES: [Cause; 15] = [
    Cause::PubReadyError,
    Cause::ProtoReadyError,
    Cause::PublishHandlerErrorLast,
    Cause::ProtoDisconnect,
    Cause::PeerClose,
    Cause::ReadError,
    Cause::WriteError,
    Cause::Garbage,
    Cause::ProtocolViolation,
    Cause::PublishHandlerError,
    Cause::ProtoHandlerError,
    Cause::LocalClose,
    Cause::CloseWithReason,
    Cause::ForceClose,
    Cause::PeerDisconnect,
];

fn expected_class(cause: Cause, role: Role) -> Option<StopClass> {
    Some(match cause {
        Cause::PeerClose | Cause::ReadError | Cause::WriteError | Cause::LocalClose | Cause::CloseWithReason | Cause::ForceClose | Cause::ProtoDisconnect => StopClass::PeerGone,
        Cause::Garbage | Cause::ProtocolViolation => StopClass::Protocol,
        Cause::PublishHandlerError | Cause::PublishHandlerErrorLast | Cause::ProtoHandlerError | Cause::PubReadyError | Cause::ProtoReadyError => StopClass::Error,
        Cause::PeerDisconnect => {
            // a v3 client does not expect DISCONNECT from a server: protocol violation
            if role == Role::V3Client { StopClass::Protocol } else { StopClass::PeerGone }
        }
    })
}

#[derive(Debug, Clone)]
pub struct Case {
    pub role: Role,
    pub base: Base,
    pub cause: Cause,
    /// inject after this many base steps
    pub step: usize,
    /// Some(b): the inbound bytes of the base script are cut after b bytes, then the cause (byte-offset mode)
    pub byte_offset: Option<usize>,
    /// what happens to the still-gated handlers: 0 stay gated, 1 released together with the cause, 2 released after the cause settled
    pub variant: u8,
}

pub struct Outc {
    pub violations: Vec<(String, String)>,
    pub log: Vec<String>,
    pub sig: u64,
    pub steps_total: usize,
    pub inbound_len: usize,
    pub injected: bool,
    pub stop: Option<StopClass>,
    pub pending_ops: usize,
    pub handlers_cancelled: usize,
    pub parked_at_cause: usize,
    pub wr_backpressure: bool,
    pub reader_waiting: bool,
    pub reader_errors: usize,
}

/// the inbound byte stream of a base scenario (what the peer writes), as separate steps
fn inbound_steps(base: Base, role: Role) -> Vec<Vec<u8>> {
    let ver = role.ver();
    let enc = |p: &R| refcodec::encode(ver, p).unwrap();
    let publ = |qos: u8, id: u16, n: usize| R::Publish { dup: false, qos, retain: false, topic: "b/t".into(), pid: (qos > 0).then_some(id), props: vec![], payload: vec![id as u8; n] };
    match base {
        Base::B1 | Base::B5 => vec![enc(&publ(1, 11, 8)), enc(&publ(0, 0, 3)), enc(&publ(1, 12, 20))],
        Base::B6 => vec![enc(&publ(1, 61, 5))],
        Base::B2 | Base::B2D | Base::B2A => {
            let full = enc(&publ(1, 21, 40));
            let cut = full.len() - 25;
            vec![full[..cut].to_vec(), full[cut..cut + 10].to_vec(), full[cut + 10..].to_vec()]
        }
        Base::B3 | Base::B3C | Base::B3W | Base::B3R => vec![],
        Base::B7 => {
            if role.is_server() {
                vec![
                    enc(&publ(1, 71, 6)),
                    enc(&R::Subscribe { pid: 72, props: vec![], filters: vec![("i/a".into(), 0)] }),
                    enc(&R::Subscribe { pid: 73, props: vec![], filters: vec![("i/b".into(), 0)] }),
                ]
            } else {
                vec![enc(&publ(1, 71, 6)), enc(&publ(1, 72, 6)), enc(&publ(0, 0, 2))]
            }
        }
        Base::B4 => vec![enc(&publ(1, 41, 5)), enc(&publ(1, 42, 5)), enc(&publ(1, 43, 5)), enc(&publ(1, 44, 5))],
    }
}

pub fn steps_of(base: Base, role: Role) -> usize {
    match base {
        Base::B3 | Base::B3C | Base::B3W => 6,
        Base::B3R => 2,
        Base::B6 => 2,
        _ => inbound_steps(base, role).len(),
    }
}

pub async fn run_case(case: &Case) -> Outc {
    let role = case.role;
    let v5 = role.is_v5();
    let app = App::new("c07");
    let mut cfg = ConnCfg::new(role);
    cfg.max_qos = 2;
    cfg.min_chunk_size = 4;
    cfg.max_send = 2;
    if role == Role::V5Client {
        cfg.connack_props = vec![crate::refcodec::Prop::U16(0x21, 2)];
    }
    if case.base == Base::B4 {
        cfg.write_buf = Some((16, 8));
    }
    let routed_client = case.base == Base::B2D && !role.is_server();
    if routed_client {
        cfg.client_resources = vec!["b/t".into(), "f".into(), "w".into()];
    }
    if case.base == Base::B6 {
        cfg.write_buf = Some((32, 8));
    }
    // handlers
    match case.base {
        Base::B2 => *app.pub_default.borrow_mut() = PubPlan { read: ReadMode::Chunks, gated: true, outcome: Outcome::Ok },
        Base::B2A => *app.pub_default.borrow_mut() = PubPlan { read: ReadMode::Eager, gated: true, outcome: Outcome::Ok },
        Base::B2D => *app.pub_default.borrow_mut() = PubPlan { read: ReadMode::Detached, gated: true, outcome: Outcome::Ok },
        Base::B4 => *app.pub_default.borrow_mut() = PubPlan { read: ReadMode::Eager, gated: false, outcome: Outcome::Ok },
        _ => *app.pub_default.borrow_mut() = PubPlan { read: ReadMode::Eager, gated: true, outcome: Outcome::Ok },
    }
    if case.base == Base::B5 {
        *app.stop_plan.borrow_mut() = Some(ControlPlan { gated: true, answer: ControlAnswer::None });
    }
    if case.variant == 3 && case.base != Base::B3W {
        // the control service answers the Stop notification with an error of its own
        *app.stop_plan.borrow_mut() = Some(ControlPlan { gated: false, answer: ControlAnswer::Err });
    }
    if case.base == Base::B7 {
        if role.is_server() {
            // the first SUBSCRIBE handler publishes through the sink and awaits the acknowledgement
            app.proto_inner.borrow_mut().push_back(Some(InnerOp::SendQ1));
        } else {
            app.pub_inner.borrow_mut().push_back(Some(InnerOp::SendQ1));
        }
    }
    let mut c = conn::start(&cfg, app.clone()).await;
    let mut o = Outc { violations: vec![], log: vec![], sig: 0, steps_total: 0, inbound_len: 0, injected: false, stop: None, pending_ops: 0, handlers_cancelled: 0, parked_at_cause: 0, wr_backpressure: false, reader_waiting: false, reader_errors: 0 };
    if !c.has_sink() {
        o.violations.push(("harness: handshake failed".into(), String::new()));
        return o;
    }
    let sink = c.sink();
    let mut ops: Vec<Op> = Vec::new();
    let held_receipt = crate::sink::Chan::<crate::sink::ReceiptCmd>::new();
    let inbound = inbound_steps(case.base, role);
    o.inbound_len = inbound.iter().map(Vec::len).sum();
    let total_steps = steps_of(case.base, role);
    o.steps_total = total_steps;

    // ---- the base script, up to the injection point
    let mut noblock = 0usize;
    let mut written = 0usize;
    let stop_at_bytes = case.byte_offset;
    'script: for step in 0..total_steps {
        if step >= case.step && stop_at_bytes.is_none() && case.base != Base::B3W {
            break;
        }
        match case.base {
            Base::B6 if step == 1 => {
                // the peer stops reading and the application writes: back-pressure while the
                // handler of step 0 is still running
                c.peer.set_budget(0);
                for k in 0..8u8 {
                    let _ = sink.send_qos0(&PubSpec::new("o/bp", vec![k; 10]));
                }
            }
            Base::B3C if step == 0 => {
                // callback registered, then an awaited send that is in flight when the end comes
                sink.set_ack_cb(&app);
                let mut op = Op::new(&app, next_op_id(), "b3c-awaited", sink.send_qos1(&PubSpec::new("o/t", vec![0; 6])));
                op.start();
                ops.push(op);
            }
            Base::B3C if step == 1 => {
                c.settle().await;
                if sink.send_qos1_noblock(&PubSpec::new("o/nb", vec![2; 4])).is_some() {
                    noblock += 1;
                }
            }
            Base::B3R if step == 0 => {
                let id = next_op_id();
                let mut op = Op::new(&app, id, "b3r-q2-held", sink.send_qos2(&PubSpec::new("o/q2h", vec![8; 4]), held_receipt.clone(), Rc::new(|_, _| {})));
                op.start();
                ops.push(op);
            }
            Base::B3R => {
                // the peer answers PUBREC: the application now holds the receipt
                let first = app.wire().iter().find_map(|(_, p)| if let R::Publish { pid: Some(id), qos: 2, .. } = p { Some(*id) } else { None });
                if let Some(id) = first {
                    c.peer.send(&R::PubRec { pid: id, code: if v5 { Some(0) } else { None }, props: None });
                }
            }
            Base::B3W => {
                // two QoS 1 sends fill the window; the four parked waiters follow in the order
                // selected by `case.step` (which kind is woken first by the acknowledgement)
                let order: [u8; 4] = match case.step % 4 {
                    0 => [b'r', b'2', b'1', b's'],
                    1 => [b'2', b'r', b's', b'1'],
                    2 => [b's', b'2', b'r', b'1'],
                    _ => [b'1', b'r', b'2', b's'],
                };
                let id = next_op_id();
                let kind = if step < 2 { b'1' } else { order[step - 2] };
                let fut = match kind {
                    b'1' => sink.send_qos1(&PubSpec::new("o/t", vec![step as u8; 6])),
                    b'r' => sink.ready(),
                    b's' if !role.is_server() => sink.subscribe(None, &[("o/s", 0)]),
                    b's' => sink.send_qos1(&PubSpec::new("o/t2", vec![step as u8; 3])),
                    _ => {
                        let ch = crate::sink::Chan::new();
                        ch.push(crate::sink::ReceiptCmd::Release);
                        let app3 = app.clone();
                        sink.send_qos2(&PubSpec::new("o/q2", vec![9; 4]), ch, Rc::new(move |ph, r| {
                            app3.log(Ev::Note(format!("q2 op {id} phase {ph}: {r:?}")));
                        }))
                    }
                };
                let mut op = Op::new(&app, id, &format!("b3w-{step}-{}", kind as char), fut);
                op.start();
                ops.push(op);
            }
            Base::B3 | Base::B3C => {
                // 6 steps: four QoS 1 senders (2 fit the window), a ready() waiter, a QoS 2 sender
                let id = next_op_id();
                let fut = match step {
                    0..=3 => sink.send_qos1(&PubSpec::new("o/t", vec![step as u8; 6])),
                    4 => sink.ready(),
                    _ => {
                        let ch = crate::sink::Chan::new();
                        ch.push(crate::sink::ReceiptCmd::Release);
                        sink.send_qos2(&PubSpec::new("o/q2", vec![9; 4]), ch, Rc::new(|_, _| {}))
                    }
                };
                let mut op = Op::new(&app, id, &format!("b3-{step}"), fut);
                op.start();
                ops.push(op);
            }
            _ => {
                let bytes = &inbound[step];
                if let Some(limit) = stop_at_bytes {
                    if written + bytes.len() > limit {
                        c.peer.write_quiet(&bytes[..limit - written]);
                        c.settle().await;
                        break 'script;
                    }
                }
                if case.base == Base::B4 && step == 0 {
                    // the peer stops reading: responses pile up
                    c.peer.set_budget(0);
                }
                c.peer.write_quiet(bytes);
                written += bytes.len();
            }
        }
        c.settle().await;
    }
    c.settle().await;
    if !app.stops().is_empty() {
        // the base script itself must not end the connection
        o.violations.push(("harness: base script ended the connection before the cause".into(), format!("{:?}", app.stops())));
        c.finish().await;
        return o;
    }
    let wr_on = app.count(|e| matches!(e, Ev::CtlEnter { what, .. } if what == "wr(true)")) > 0;
    let handlers_running_before = app.pubs_running.get();
    o.wr_backpressure = wr_on;
    o.parked_at_cause = ops.iter().filter(|op| !op.is_done()).count();
    o.reader_waiting = matches!(case.base, Base::B2 | Base::B2D | Base::B2A) && handlers_running_before > 0 && app.count(|e| matches!(e, Ev::PubPayload { .. })) == 0;

    // ---- B3W: the peer acknowledges the oldest publish; the cause follows while the waiter that the
    // acknowledgement wakes may not have been polled yet
    if case.base == Base::B3W {
        let first = app.wire().iter().find_map(|(_, p)| if let R::Publish { pid: Some(id), .. } = p { Some(*id) } else { None });
        if let Some(id) = first {
            c.peer.send(&R::PubAck { pid: id, code: if v5 { Some(0) } else { None }, props: None });
            crate::rt::rounds(case.variant as usize).await;
        }
    }
    // ---- the cause
    o.injected = true;
    // handlers started by the cause itself do not use the sink
    app.pub_inner.borrow_mut().clear();
    app.proto_inner.borrow_mut().clear();
    app.log(Ev::Note(format!("CAUSE {:?}", case.cause)));
    match case.cause {
        Cause::PeerClose => c.peer.close(),
        Cause::ReadError => c.peer.read_error(),
        Cause::WriteError => {
            c.peer.write_error();
            // something has to be written for the error to surface
            let _ = sink.send_qos0(&PubSpec::new("w/e", vec![1, 2, 3]));
        }
        Cause::Garbage => c.peer.send_bytes(&[0x00, 0x05, 0xFF, 0xFF, 0xFF, 0xFF, 0xFF, 0x7F], "garbage"),
        Cause::ProtocolViolation => {
            if role.is_server() {
                // wildcard in a topic name
                c.peer.send(&R::Publish { dup: false, qos: 0, retain: false, topic: "x/#".into(), pid: None, props: vec![], payload: vec![] });
            } else {
                c.peer.send(&R::PingReq);
            }
        }
        Cause::PublishHandlerError => {
            // fail a running handler if there is one, else the next publish fails
            let gates: Vec<(GateKind, u32)> = app.pending_gates().into_iter().filter(|g| g.0 == GateKind::Pub).collect();
            if let Some(g) = gates.first() {
                app.open_gate(*g, Outcome::Err);
            } else {
                app.pub_plans.borrow_mut().push_back(PubPlan { read: ReadMode::Eager, gated: false, outcome: Outcome::Err });
                c.peer.send(&R::Publish { dup: false, qos: 1, retain: false, topic: "f".into(), pid: Some(901), props: vec![], payload: vec![1] });
            }
        }
        Cause::PublishHandlerErrorLast => {
            let gates: Vec<(GateKind, u32)> = app.pending_gates().into_iter().filter(|g| g.0 == GateKind::Pub).collect();
            if let Some(g) = gates.last() {
                app.open_gate(*g, Outcome::Err);
                c.settle().await;
                // the earlier handlers now complete normally
                for g in &gates[..gates.len() - 1] {
                    app.open_gate(*g, Outcome::Ok);
                }
            } else {
                app.pub_plans.borrow_mut().push_back(PubPlan { read: ReadMode::Eager, gated: false, outcome: Outcome::Err });
                c.peer.send(&R::Publish { dup: false, qos: 1, retain: false, topic: "f".into(), pid: Some(901), props: vec![], payload: vec![1] });
            }
        }
        Cause::ProtoDisconnect => {
            app.proto_plans.borrow_mut().push_back(ProtoPlan { gated: false, answer: ProtoAnswer::Disconnect });
            if role.is_server() {
                c.peer.send(&R::Subscribe { pid: 903, props: vec![], filters: vec![("d/#".into(), 0)] });
            } else {
                sink.close();
            }
        }
        Cause::ProtoHandlerError => {
            app.proto_plans.borrow_mut().push_back(ProtoPlan { gated: false, answer: ProtoAnswer::Err });
            if role.is_server() {
                c.peer.send(&R::Subscribe { pid: 902, props: vec![], filters: vec![("e/#".into(), 0)] });
            } else {
                // clients: a PUBREL for a QoS 2 publish that is in flight is the only protocol message; use a failing publish instead
                app.pub_plans.borrow_mut().push_back(PubPlan { read: ReadMode::Eager, gated: false, outcome: Outcome::Err });
                c.peer.send(&R::Publish { dup: false, qos: 0, retain: false, topic: "f".into(), pid: None, props: vec![], payload: vec![1] });
            }
        }
        Cause::PubReadyError | Cause::ProtoReadyError => {
            app.set_ready(if case.cause == Cause::PubReadyError { SVC_PUB } else { SVC_PROTO }, ReadyMode::Fail);
            // readiness is asked again when the connection task runs: any inbound bytes do
            if role.is_server() {
                c.peer.send(&R::PingReq);
            } else {
                c.peer.send(&R::PingResp);
            }
        }
        Cause::LocalClose => sink.close(),
        Cause::CloseWithReason => sink.close_with_reason(0x8B),
        Cause::ForceClose => sink.force_close(),
        Cause::PeerDisconnect => {
            app.proto_plans.borrow_mut().push_back(ProtoPlan { gated: false, answer: ProtoAnswer::Ack });
            c.peer.send(&R::Disconnect { code: if v5 { Some(0) } else { None }, props: None });
        }
    }
    if case.variant == 1 && case.base != Base::B3W {
        for g in app.pending_gates().into_iter().filter(|g| g.0 == GateKind::Pub) {
            app.open_gate(g, Outcome::Ok);
        }
    }
    c.settle().await;
    if case.variant == 2 && case.base != Base::B3W {
        for g in app.pending_gates().into_iter().filter(|g| g.0 == GateKind::Pub) {
            app.open_gate(g, Outcome::Ok);
        }
        c.settle().await;
    }
    c.peer.unlimited();
    c.settle().await;

    // ---- B5: the control service is slow; nothing may be cancelled before it has handled Stop
    if case.base == Base::B5 {
        let log = app.snapshot();
        let stop_entered = log.iter().any(|(_, e)| matches!(e, Ev::CtlEnter { stop: Some(_), .. }));
        let stop_exited = log.iter().position(|(_, e)| matches!(e, Ev::CtlExit { .. }));
        let dropped = log.iter().any(|(_, e)| matches!(e, Ev::PubDropped { .. } | Ev::ProtoDropped { .. }));
        if stop_entered && stop_exited.is_none() && dropped {
            o.violations.push(("running handler cancelled before the control service finished handling Stop".into(), "control service still gated".into()));
        }
        for g in app.pending_gates().into_iter().filter(|g| g.0 == GateKind::Ctl) {
            app.open_gate(g, Outcome::Ok);
        }
        c.settle().await;
    }
    // the graceful shutdown may wait for the peer: close our side once the Stop has been seen
    c.peer.close();
    c.settle().await;
    for g in app.pending_gates().into_iter().filter(|g| g.0 == GateKind::Ctl) {
        app.open_gate(g, Outcome::Ok);
    }
    c.settle().await;

    if case.base == Base::B3R {
        // only now does the application release the receipt it has been holding
        held_receipt.push(crate::sink::ReceiptCmd::Release);
        c.settle().await;
    }

    // -------------------------------------------------------------------- RefTeardown
    let log = app.snapshot();
    let stops = app.stops();
    o.stop = stops.first().map(|s| s.1.clone());
    let what = format!("{case:?}; wr-backpressure seen: {wr_on}; handlers running at cause: {handlers_running_before}");
    if routed_client {
        // library's default control service: nothing to observe there
    } else if stops.len() != 1 {
        o.violations.push((format!("control service received {} Stop notifications", stops.len()), what.clone()));
    } else if let Some(want) = expected_class(case.cause, role) {
        // byte-offset mode cuts a frame: a decode error may legitimately win over the close
        // B7: protocol messages are handled one at a time; while the handler that awaits its own
        // send occupies the protocol service, a cause that needs that service cannot take effect
        // before the peer goes away
        let proto_busy = case.base == Base::B7
            && matches!(case.cause, Cause::ProtoHandlerError | Cause::ProtoReadyError | Cause::ProtoDisconnect | Cause::PeerDisconnect)
            && {
                let cause_seq = log.iter().find_map(|(s, e)| matches!(e, Ev::Note(n) if n.starts_with("CAUSE")).then_some(*s)).unwrap_or(0);
                log.iter().any(|(s, e)| *s < cause_seq && matches!(e, Ev::ProtoEnter { call, .. } if !log.iter().any(|(s2, e2)| *s2 < cause_seq && matches!(e2, Ev::ProtoExit { call: c2, .. } | Ev::ProtoDropped { call: c2 } if c2 == call))))
            };
        if stops[0].1 != want && !(proto_busy && stops[0].1 == StopClass::PeerGone) {
            o.violations.push((
                format!("Stop reason is {:?}, expected {:?} for cause {:?}", stops[0].1, want, case.cause),
                format!("{what}; detail {}", stops[0].2),
            ));
        }
    }
    if !c.done() {
        o.violations.push(("connection task did not complete".into(), what.clone()));
    }
    // pending sends / readiness futures
    for op in &ops {
        match op.result() {
            None => {
                o.pending_ops += 1;
                o.violations.push(("a send / readiness future is still pending after the connection ended".into(), format!("{} — {what}", op.what)));
            }
            Some(SinkRes::ErrDisconnected) | Some(SinkRes::Ready(false)) => {}
            // B3R: release() is *called* after the connection has gone (it is not a future that
            // was pending at the end): any prompt error will do, it must not hang or succeed
            Some(SinkRes::ErrUnexpectedRelease) if case.base == Base::B3R => {}
            // B3W: the acknowledged send may complete at any time; with a cause the endpoint only
            // learns about later, a waiter polled in between may legitimately report success
            Some(r) if r.is_ok() && case.base == Base::B3W && (op.id == ops[0].id || !matches!(case.cause, Cause::LocalClose | Cause::CloseWithReason | Cause::ForceClose)) => {}
            Some(r) if r.is_ok() => {
                // may have completed before the cause; acceptable only if it was logged before the cause
                let cause_seq = log.iter().find_map(|(s, e)| matches!(e, Ev::Note(n) if n.starts_with("CAUSE")).then_some(*s)).unwrap_or(0);
                let done_seq = log.iter().find_map(|(s, e)| matches!(e, Ev::SinkRet { op: id, n: 0, .. } if *id == op.id).then_some(*s)).unwrap_or(u64::MAX);
                if done_seq > cause_seq {
                    o.violations.push(("a pending send completed successfully after the connection ended".into(), format!("{} -> {r:?} — {what}", op.what)));
                }
            }
            Some(r) => o.violations.push((format!("pending future resolved with {} instead of a disconnected error", pool::abstract_numbers(&format!("{r:?}"))), format!("{} — {what}", op.what))),
        }
    }
    // order: handlers are cancelled only after Stop was handled
    let stop_exit_seq = log.iter().find_map(|(s, e)| matches!(e, Ev::CtlExit { .. }).then_some(*s));
    let stop_enter_seq = log.iter().find_map(|(s, e)| matches!(e, Ev::CtlEnter { stop: Some(_), .. }).then_some(*s));
    for (s, e) in &log {
        if matches!(e, Ev::PubDropped { .. } | Ev::ProtoDropped { .. }) {
            o.handlers_cancelled += 1;
            if let (Some(en), Some(ex)) = (stop_enter_seq, stop_exit_seq) {
                let _ = en;
                if *s < ex {
                    o.violations.push(("running handler cancelled before the control service finished handling Stop".into(), format!("handler dropped at {s}, Stop handled at {ex} — {what}")));
                }
            }
        }
    }
    // payload readers: a clean end of a truncated payload is an error
    for (_, e) in &log {
        if let Ev::PubPayload { bytes, call } = e {
            let streamed = log.iter().any(|(_, e2)| matches!(e2, Ev::PubEnter { call: c2, topic, .. } if c2 == call && topic == "b/t"));
            let sent: usize = 40;
            if matches!(case.base, Base::B2 | Base::B2D | Base::B2A) && streamed && bytes.len() < sent {
                o.violations.push(("payload reader saw a clean end of a truncated payload".into(), format!("call {call}: {} of {sent} bytes — {what}", bytes.len())));
            }
        }
    }
    // a detached reader (it outlives its handler) must have seen the end of the payload or an error
    if case.base == Base::B2D {
        for (_, e) in &log {
            if let Ev::PubEnter { call, topic, .. } = e {
                if topic != "b/t" {
                    continue;
                }
                let finished = log.iter().any(|(_, e2)| matches!(e2, Ev::PubPayload { call: c2, .. } if c2 == call) || matches!(e2, Ev::PubRead { call: c2, res: Err(_) } if c2 == call));
                if !finished {
                    o.violations.push(("payload reader is left waiting for ever after the connection ended".into(), format!("call {call} — {what}")));
                }
            }
        }
    }
    // non-blocking sends: exactly one callback each (acknowledged or disconnected)
    if noblock > 0 {
        let cbs = log.iter().filter(|(_, e)| matches!(e, Ev::AckCb { .. })).count();
        if cbs != noblock {
            o.violations.push((format!("{noblock} non-blocking sends but {cbs} publish-ack callbacks after the connection ended"), what.clone()));
        }
    }
    o.reader_errors = log.iter().filter(|(_, e)| matches!(e, Ev::PubRead { res: Err(_), .. })).count();
    // a handler still waiting on its gate/reader and never dropped = left waiting for ever
    let entered: Vec<u32> = log.iter().filter_map(|(_, e)| if let Ev::PubEnter { call, .. } = e { Some(*call) } else { None }).collect();
    for call in entered {
        let finished = log.iter().any(|(_, e)| matches!(e, Ev::PubExit { call: c2, .. } | Ev::PubDropped { call: c2 } if *c2 == call));
        if !finished {
            o.violations.push(("a publish handler is left waiting for ever (neither completed nor cancelled)".into(), format!("call {call} — {what}")));
        }
    }
    let pentered: Vec<u32> = log.iter().filter_map(|(_, e)| if let Ev::ProtoEnter { call, .. } = e { Some(*call) } else { None }).collect();
    for call in pentered {
        let finished = log.iter().any(|(_, e)| matches!(e, Ev::ProtoExit { call: c2, .. } | Ev::ProtoDropped { call: c2 } if *c2 == call));
        if !finished {
            o.violations.push(("a protocol-message handler is left waiting for ever (neither completed nor cancelled)".into(), format!("call {call} — {what}")));
        }
    }
    o.sig = app.trace_signature();
    o.log = app.render(60);
    c.finish().await;
    o
}

pub fn cases(quick: bool) -> Vec<Case> {
    let mut v = Vec::new();
    for role in Role::ALL {
        for base in [Base::B1, Base::B2, Base::B2D, Base::B3, Base::B3C, Base::B4, Base::B5, Base::B6, Base::B7, Base::B3W, Base::B2A, Base::B3R] {
            let n = steps_of(base, role);
            for cause in CAUSES {
                if cause == Cause::CloseWithReason && !role.is_v5() {
                    continue;
                }
                // clients have a publish service of their own only when they route through `resource`
                if cause == Cause::PubReadyError && !role.is_server() && base != Base::B2D {
                    continue;
                }
                if base == Base::B3W {
                    // step = order of the parked waiters, variant = scheduler rounds between ack and cause
                    for order in 0..4 {
                        for rounds in 0..5u8 {
                            v.push(Case { role, base, cause, step: order, byte_offset: None, variant: rounds });
                        }
                    }
                    continue;
                }
                for step in 0..=n {
                    // B2, mid-payload: inbound bytes are payload data, so causes that need an inbound packet do not apply
                    let needs_inbound = matches!(
                        cause,
                        Cause::Garbage | Cause::ProtocolViolation | Cause::ProtoHandlerError | Cause::PeerDisconnect | Cause::PublishHandlerError | Cause::PublishHandlerErrorLast | Cause::ProtoDisconnect
                    );
                    if matches!(base, Base::B2 | Base::B2D | Base::B2A) && (step == 1 || step == 2) && needs_inbound {
                        continue;
                    }
                    for variant in 0..4u8 {
                        if (variant == 1 || variant == 2) && !matches!(base, Base::B1 | Base::B5 | Base::B6) {
                            continue;
                        }
                        // variant 3: the control service fails on Stop (not with the slow control service of B5)
                        if variant == 3 && !matches!(base, Base::B1 | Base::B2 | Base::B3 | Base::B3R | Base::B4) {
                            continue;
                        }
                        v.push(Case { role, base, cause, step, byte_offset: None, variant });
                    }
                }
            }
            // every byte offset of the inbound stream for close / read error
            let len: usize = inbound_steps(base, role).iter().map(Vec::len).sum();
            for cause in [Cause::PeerClose, Cause::ReadError] {
                for b in 0..len {
                    if quick && b % 3 != 0 {
                        continue;
                    }
                    v.push(Case { role, base, cause, step: 0, byte_offset: Some(b), variant: 0 });
                }
            }
        }
    }
    v
}

pub fn run(opts: &Opts) -> i32 {
    let rep = Report::new(
        opts,
        "fault_enumeration",
        "4 roles x 5 base scenarios x 11 termination causes x every step index of the base script, plus peer close / \
         read error at every byte offset (quick: every third) of the inbound stream; each run is judged by RefTeardown \
         (exactly one Stop of the right class, every pending future disconnected, truncated payloads never end cleanly, \
         handlers cancelled only after Stop was handled, connection task completed, no handler left waiting). \
         distinct = distinct boundary-event trace signatures",
    );
    if let Some(p) = &opts.replay {
        return replay(p);
    }
    let quick = opts.tier == Tier::Quick;
    let cases = cases(quick);
    rep.extra("fault_cases", json!(cases.len()));
    pool::par_for(cases.len() as u64, None, |i| {
        let case = cases[i as usize].clone();
        let r = exec(run_case(&case));
        rep.eval();
        let replay = json!({"index": i, "role": case.role.name(), "base": format!("{:?}", case.base), "cause": format!("{:?}", case.cause), "step": case.step, "byte_offset": case.byte_offset, "variant": case.variant});
        match &r {
            Run::Done(o, st) => {
                rep.distinct(o.sig);
                rep.count(&format!("cause_{:?}", case.cause), 1);
                rep.count(&format!("base_{:?}", case.base), 1);
                rep.count("handlers_cancelled_after_stop", o.handlers_cancelled as u64);
                rep.count("busy_wait_quiescences(info)", st.spins);
                rep.count("sends_pending_at_cause", o.parked_at_cause as u64);
                rep.count("cases_with_write_backpressure_active", o.wr_backpressure as u64);
                rep.count("cases_with_reader_waiting_mid_payload", o.reader_waiting as u64);
                rep.count("payload_reads_that_observed_an_error", o.reader_errors as u64);
                if let Some(s) = &o.stop {
                    rep.count(&format!("stop_{s:?}"), 1);
                }
                if i % 401 == 0 {
                    rep.sample(6, || json!({"case": replay, "log": o.log}));
                }
                for (class, what) in &o.violations {
                    rep.violation(Violation {
                        signature: format!("{}/{:?}/{:?}: {}", case.role.name(), case.base, case.cause, pool::abstract_numbers(class)),
                        what: format!("{class} — {what}"),
                        replay: json!({"case": replay, "log": o.log}),
                    });
                }
            }
            Run::Panic(p, tail) => rep.violation(Violation { signature: format!("{}: {}", case.role.name(), p.signature()), what: format!("panic: {} at {} — {case:?}", p.msg, p.location), replay: json!({"case": replay, "log": tail}) }),
            Run::Livelock(tail) => rep.violation(Violation { signature: format!("{}/{:?}/{:?}: live-lock", case.role.name(), case.base, case.cause), what: format!("never quiescent — {case:?}"), replay: json!({"case": replay, "log": tail}) }),
            Run::Watchdog => rep.inconclusive(format!("watchdog {case:?}")),
        }
        r.after()
    });
    rep.set_exhaustive(true);
    rep.assume("after the cause the peer side is closed so that the graceful shutdown does not wait for the disconnect timer");
    rep.assume("keep-alive expiry as a cause is exercised under real time in C20");
    rep.require("handlers_cancelled_after_stop", 200);
    rep.require("sends_pending_at_cause", 200);
    rep.require("cases_with_write_backpressure_active", 40);
    rep.require("cases_with_reader_waiting_mid_payload", 40);
    rep.finish()
}

fn replay(path: &std::path::Path) -> i32 {
    let v: serde_json::Value = serde_json::from_str(&std::fs::read_to_string(path).expect("replay file")).expect("json");
    let idx = v["replay"]["case"]["index"].as_u64().unwrap_or(0) as usize;
    let quick = v["tier"].as_str() != Some("thorough");
    let cases = cases(quick);
    let case = cases[idx.min(cases.len() - 1)].clone();
    println!("replaying {case:?}");
    match exec(run_case(&case)) {
        Run::Done(o, _) => {
            for l in &o.log {
                println!("{l}");
            }
            println!("violations: {:?}", o.violations);
            if o.violations.is_empty() {
                0
            } else {
                println!("VIOLATION property=C07 replay={}", path.display());
                1
            }
        }
        Run::Panic(p, tail) => {
            for l in &tail {
                println!("{l}");
            }
            println!("panic {} at {}\nVIOLATION property=C07 replay={}", p.msg, p.location, path.display());
            1
        }
        Run::Livelock(_) => {
            println!("live-lock\nVIOLATION property=C07 replay={}", path.display());
            1
        }
        Run::Watchdog => 2,
    }
}
