//! C09 — the encoder emits one frame with a truthful length, within the peer's maximum packet size.
//!
//! Pure codec check. For (packet p, outbound limit L, problem-info flag q):
//!   Ok  => exactly one frame appended (reference framing), Remaining Length truthful, total <= L,
//!          every field other than Reason String / User Property decodes to p's value, the
//!          diagnostic properties that are present are whole properties of p (never truncated),
//!          q = declined => acknowledgements carry neither;
//!   Err => nothing appended;   never a panic / overflow.
use ntex_bytes::{BytePages, BytesMut};
use ntex_codec::{Decoder, Encoder};
use ntex_mqtt::error::EncodeError;
use ntex_mqtt::v3::codec as c3;
use ntex_mqtt::v5::codec as c5;
use serde_json::{Value, json};

use crate::genpkt::{self, GenCfg, Item3, Item5};
use crate::libcodec;
use crate::map;
use crate::pool::{self, After, Rng, hash_bytes, hex_short};
use crate::refcodec::{self, Packet as R, Prop, Ver};
use crate::report::{Opts, Report, Tier, Violation};

const PREFIX: &[u8] = b"\xAA\xBB\xCC";

fn strip_diag(p: &R) -> (R, Vec<Prop>) {
    // remove Reason String (0x1F) and User Property (0x26) from the packet-level property list
    let mut diag = Vec::new();
    let mut f = |props: &Vec<Prop>| -> Vec<Prop> {
        let mut keep = Vec::new();
        for x in props {
            if x.id() == 0x1F || x.id() == 0x26 {
                diag.push(x.clone());
            } else {
                keep.push(x.clone());
            }
        }
        keep
    };
    let q = match p {
        R::Connect { level, clean, keep_alive, props, client_id, will, username, password } => R::Connect {
            level: *level, clean: *clean, keep_alive: *keep_alive, props: f(props), client_id: client_id.clone(),
            will: will.clone(), username: username.clone(), password: password.clone(),
        },
        R::ConnAck { session_present, code, props } => R::ConnAck { session_present: *session_present, code: *code, props: f(props) },
        R::Publish { dup, qos, retain, topic, pid, props, payload } => R::Publish {
            dup: *dup, qos: *qos, retain: *retain, topic: topic.clone(), pid: *pid, props: f(props), payload: payload.clone(),
        },
        R::PubAck { pid, code, props } => R::PubAck { pid: *pid, code: *code, props: props.as_ref().map(&mut f) },
        R::PubRec { pid, code, props } => R::PubRec { pid: *pid, code: *code, props: props.as_ref().map(&mut f) },
        R::PubRel { pid, code, props } => R::PubRel { pid: *pid, code: *code, props: props.as_ref().map(&mut f) },
        R::PubComp { pid, code, props } => R::PubComp { pid: *pid, code: *code, props: props.as_ref().map(&mut f) },
        R::Subscribe { pid, props, filters } => R::Subscribe { pid: *pid, props: f(props), filters: filters.clone() },
        R::SubAck { pid, props, codes } => R::SubAck { pid: *pid, props: f(props), codes: codes.clone() },
        R::Unsubscribe { pid, props, filters } => R::Unsubscribe { pid: *pid, props: f(props), filters: filters.clone() },
        R::UnsubAck { pid, props, codes } => R::UnsubAck { pid: *pid, props: f(props), codes: codes.clone() },
        R::PingReq => R::PingReq,
        R::PingResp => R::PingResp,
        R::Disconnect { code, props } => R::Disconnect { code: *code, props: props.as_ref().map(&mut f) },
        R::Auth { code, props } => R::Auth { code: *code, props: props.as_ref().map(&mut f) },
    };
    (q, diag)
}

/// `out` must be obtainable from `orig` by leaving out whole properties (order kept).
fn is_subsequence(out: &[Prop], orig: &[Prop]) -> bool {
    let mut it = orig.iter();
    out.iter().all(|o| it.any(|x| x == o))
}

fn is_ack_kind(p: &R) -> bool {
    matches!(p, R::PubAck { .. } | R::PubRec { .. } | R::PubRel { .. } | R::PubComp { .. } | R::SubAck { .. } | R::UnsubAck { .. })
}

struct Case<'a> {
    rep: &'a Report,
    tag: String,
}

fn vio(c: &Case<'_>, ver: &str, kind: &str, class: String, what: String, extra: Value) {
    c.rep.violation(Violation {
        signature: format!("{ver}/{kind}: {}", pool::abstract_numbers(&class)),
        what,
        replay: json!({"tag": c.tag, "case": extra}),
    });
}

fn limit_class(l: u32) -> &'static str {
    match l {
        0 => "no limit",
        1..=5 => "limit 1..5",
        6..=11 => "limit 6..11",
        _ => "limit >= 12",
    }
}

/// One (packet, limit, flag) triple on the v5 codec.
fn check5(c: &Case<'_>, it: &Item5, limit: u32, declined: bool) {
    let want = match it {
        Item5::Packet(p) => map::v5_packet(p),
        Item5::Publish(p, pl) => map::v5_publish(p, pl),
    };
    let kind = want.name();
    let codec = c5::Codec::new();
    if declined {
        // the flag is learnt from a decoded CONNECT
        let connect = c5::Packet::Connect(Box::new(c5::Connect { request_problem_info: false, client_id: "c".into(), ..Default::default() }));
        let b = libcodec::enc5(&c5::Codec::new(), &Item5::Packet(connect)).unwrap();
        let mut buf = BytesMut::from(&b[..]);
        let _ = codec.decode(&mut buf);
    }
    codec.set_max_outbound_size(limit);
    // a copy of the configured codec (what `Client::into_inner()` hands out) obeys the same
    // outbound limit; it forgets what was negotiated, so only the plain case can be compared
    let codec = if !declined && limit % 3 == 1 { codec.clone() } else { codec };
    let mut dst = BytePages::default();
    dst.extend_from_slice(PREFIX);
    let before = dst.len();
    let info = json!({"packet": map::brief(&want), "limit": limit, "problem_info_declined": declined});
    c.rep.eval();
    let res = pool::catch(|| libcodec::enc5_into(&codec, it, &mut dst));
    let res = match res {
        Ok(r) => r,
        Err(p) => {
            c.rep.count("panics", 1);
            c.rep.violation(Violation {
                signature: format!("{} [{}]", p.signature(), limit_class(limit)),
                what: format!("encoder panicked: {} at {} (limit {limit}, packet {})", p.msg, p.location, map::brief(&want)),
                replay: json!({"tag": c.tag, "case": info}),
            });
            return;
        }
    };
    let after = dst.len();
    let all = libcodec::take(&mut dst);
    match res {
        Err(e) => {
            c.rep.count(&format!("err_{e:?}"), 1);
            if after != before {
                vio(c, "v5", kind, format!("failed encode ({e:?}) left bytes behind"), format!("{e:?} but {} bytes were appended: {}", after - before, hex_short(&all[before..])), info);
            }
        }
        Ok(()) => {
            c.rep.count("ok", 1);
            if !all.starts_with(PREFIX) {
                vio(c, "v5", kind, "existing buffer content modified".into(), "prefix overwritten".into(), info.clone());
                return;
            }
            let out = &all[before..];
            c.rep.distinct(hash_bytes(out) ^ limit as u64);
            if limit != 0 && out.len() > limit as usize {
                vio(c, "v5", kind, format!("frame exceeds the outbound limit [{}]", limit_class(limit)), format!("limit {limit}, frame is {} bytes: {}", out.len(), hex_short(out)), info.clone());
            }
            match refcodec::decode(Ver::V5, out) {
                Ok((got, n)) => {
                    if n != out.len() {
                        vio(c, "v5", kind, "not exactly one frame / Remaining Length not truthful".into(), format!("Remaining Length describes {n} bytes, {} were appended", out.len()), info.clone());
                        return;
                    }
                    let (g2, gdiag) = strip_diag(&map::normalize(true, &got));
                    let (w2, wdiag) = strip_diag(&map::normalize(true, &want));
                    if g2 != w2 {
                        vio(c, "v5", kind, "a field other than Reason String / User Property changed".into(), format!("wire: {}  value: {}", map::brief(&g2), map::brief(&w2)), info.clone());
                    }
                    if !is_subsequence(&gdiag, &wdiag) {
                        vio(c, "v5", kind, "diagnostic property altered or truncated".into(), format!("wire carries {gdiag:?}, packet had {wdiag:?}"), info.clone());
                    }
                    if gdiag.len() < wdiag.len() {
                        c.rep.count("trimmed", 1);
                        if limit == 0 && !(declined && !matches!(want, R::Publish { .. } | R::ConnAck { .. } | R::Disconnect { .. } | R::Connect { .. })) {
                            vio(c, "v5", kind, "diagnostic properties dropped without a limit in force".into(), format!("wire carries {} of {} diagnostic properties", gdiag.len(), wdiag.len()), info.clone());
                        }
                    }
                    if declined && is_ack_kind(&want) && !gdiag.is_empty() {
                        vio(c, "v5", kind, "acknowledgement carries diagnostics although problem information was declined".into(), format!("{gdiag:?}"), info.clone());
                    }
                    if declined && is_ack_kind(&want) {
                        c.rep.count("declined_acks_checked", 1);
                    }
                }
                Err(e) => vio(c, "v5", kind, format!("output is not one well-formed frame: {e:?}"), format!("{e:?}: {}", hex_short(out)), info),
            }
        }
    }
}

fn check3(c: &Case<'_>, it: &Item3, max_size: u32) {
    let want = match it {
        Item3::Packet(p) => map::v3_packet(p),
        Item3::Publish(p, pl) => map::v3_publish(p, pl),
    };
    let kind = want.name();
    let codec = c3::Codec::new();
    codec.set_max_size(max_size);
    let mut dst = BytePages::default();
    dst.extend_from_slice(PREFIX);
    let before = dst.len();
    let info = json!({"packet": map::brief(&want), "max_size": max_size});
    c.rep.eval();
    let res = match pool::catch(|| libcodec::enc3_into(&codec, it, &mut dst)) {
        Ok(r) => r,
        Err(p) => {
            c.rep.count("panics", 1);
            c.rep.violation(Violation { signature: p.signature(), what: format!("v3 encoder panicked: {} at {}", p.msg, p.location), replay: json!({"tag": c.tag, "case": info}) });
            return;
        }
    };
    let after = dst.len();
    let all = libcodec::take(&mut dst);
    match res {
        Err(e) => {
            c.rep.count(&format!("err_{e:?}"), 1);
            if after != before {
                vio(c, "v3", kind, format!("failed encode ({e:?}) left bytes behind"), format!("{e:?} but {} bytes were appended: {}", after - before, hex_short(&all[before..])), info);
            }
        }
        Ok(()) => {
            c.rep.count("ok", 1);
            let out = &all[before..];
            c.rep.distinct(hash_bytes(out) ^ ((max_size as u64) << 32));
            match refcodec::decode(Ver::V3, out) {
                Ok((got, n)) => {
                    if n != out.len() {
                        vio(c, "v3", kind, "not exactly one frame / Remaining Length not truthful".into(), format!("Remaining Length describes {n} bytes, {} were appended", out.len()), info.clone());
                    } else if map::normalize(false, &got) != map::normalize(false, &want) {
                        vio(c, "v3", kind, "field changed".into(), format!("wire: {} value: {}", map::brief(&got), map::brief(&want)), info);
                    }
                }
                Err(e) => vio(c, "v3", kind, format!("output is not one well-formed frame: {e:?}"), format!("{e:?}: {}", hex_short(out)), info),
            }
        }
    }
}

/// packets the encoder must refuse; whatever it answers, nothing may be appended on Err
fn hostile5(rng: &mut Rng) -> Item5 {
    let big = || ntex_bytes::ByteString::from("x".repeat(65536 + 3));
    match rng.below(6) {
        0 => Item5::Publish(c5::Publish { topic: big(), payload_size: 3, ..Default::default() }, vec![1, 2, 3]),
        1 => Item5::Publish(c5::Publish { topic: "t".into(), qos: c5::QoS::AtMostOnce, packet_id: std::num::NonZeroU16::new(5), payload_size: 2, ..Default::default() }, vec![1, 2]),
        2 => Item5::Publish(c5::Publish { topic: "t".into(), qos: c5::QoS::AtLeastOnce, packet_id: None, payload_size: 2, ..Default::default() }, vec![1, 2]),
        3 => Item5::Publish(c5::Publish { topic: "t".into(), payload_size: 1, properties: c5::PublishProperties { content_type: Some(big()), ..Default::default() }, ..Default::default() }, vec![9]),
        4 => Item5::Packet(c5::Packet::PublishAck(c5::PublishAck { reason_string: Some(big()), ..Default::default() })),
        _ => Item5::Packet(c5::Packet::Subscribe(c5::Subscribe { packet_id: std::num::NonZeroU16::new(1).unwrap(), id: None, user_properties: vec![("k".into(), big())], topic_filters: vec![("a".into(), c5::SubscriptionOptions::default())] })),
    }
}

fn hostile3(rng: &mut Rng) -> Item3 {
    let big = || ntex_bytes::ByteString::from("x".repeat(65536 + 3));
    let pubp = |topic: ntex_bytes::ByteString, qos, pid: Option<u16>| c3::Publish { dup: false, retain: false, qos, topic, packet_id: pid.and_then(std::num::NonZeroU16::new), payload_size: 2 };
    match rng.below(5) {
        0 => Item3::Publish(pubp(big(), c3::QoS::AtMostOnce, None), vec![1, 2]),
        1 => Item3::Publish(pubp("t".into(), c3::QoS::AtMostOnce, Some(7)), vec![1, 2]),
        2 => Item3::Publish(pubp("t".into(), c3::QoS::ExactlyOnce, None), vec![1, 2]),
        3 => Item3::Packet(c3::Packet::Subscribe { packet_id: std::num::NonZeroU16::new(1).unwrap(), topic_filters: vec![("a".into(), c3::QoS::AtMostOnce), (big(), c3::QoS::AtLeastOnce)] }),
        _ => Item3::Packet(c3::Packet::Connect(Box::new(c3::Connect { client_id: big(), clean_session: true, ..Default::default() }))),
    }
}

pub fn run(opts: &Opts) -> i32 {
    let rep = Report::new(
        opts,
        "exploration",
        "pure codec: generated library packets (weighted to acks, CONNACK, DISCONNECT, SUBACK/UNSUBACK, AUTH with reason \
         strings and up to 20 user properties) x every outbound limit 1..64 plus limits around the packet's natural \
         size, 2^14, 2^21, 2^28-1 and 0 x request-problem-information on/off, checked against the reference framing \
         and reference decoder; plus packets the encoder must refuse. distinct = distinct (output bytes, limit)",
    );
    let quick = opts.tier == Tier::Quick;
    let n_pkts = ((if quick { 6_000.0 } else { 250_000.0 }) * opts.scale) as u64;
    let weighted: [usize; 24] = [3, 4, 5, 6, 3, 4, 5, 6, 1, 1, 13, 13, 8, 8, 10, 10, 14, 14, 2, 7, 9, 0, 11, 12];
    pool::par_for(n_pkts, None, |i| {
        let mut rng = Rng::for_case(opts.seed, "C09", i);
        let c = Case { rep: &rep, tag: format!("C09/{i}") };
        let cfg = GenCfg { big_strings: false, max_payload: 200, max_user_props: if rng.bool() { 20 } else { 3 } };
        let kind = *rng.pick(&weighted);
        let mask = rng.next() | if rng.chance(2, 3) { u64::MAX } else { 0 }; // mostly: everything present
        let it = genpkt::gen_v5(&mut rng, kind, mask, &cfg);
        // natural size with no limit
        let natural = libcodec::enc5(&c5::Codec::new(), &it).map(|b| b.len() as u32).unwrap_or(0);
        let mut limits: Vec<u32> = (1..=64).collect();
        limits.push(0);
        for d in 0..=8u32 {
            limits.push(natural.saturating_sub(d).max(1));
            limits.push(natural + d);
        }
        for l in [16382u32, 16383, 16384, 16385, 16386, 2_097_150, 2_097_151, 2_097_152, 2_097_153, 268_435_454, 268_435_455, u32::MAX] {
            limits.push(l);
        }
        for _ in 0..6 {
            limits.push(rng.range(1, natural as u64 + 30) as u32);
        }
        for l in limits {
            let declined = rng.bool();
            check5(&c, &it, l, declined);
            if i < 3 && l == 40 {
                rep.sample(8, || json!({"packet": match &it { Item5::Packet(p) => map::brief(&map::v5_packet(p)), Item5::Publish(p, pl) => map::brief(&map::v5_publish(p, pl)) }, "limit": l, "declined": declined, "natural_size": natural}));
            }
        }
        // v3 companion
        let k3 = rng.usize(14);
        let m3 = rng.next();
        let it3 = genpkt::gen_v3(&mut rng, k3, m3, &GenCfg::SMALL);
        for ms in [0u32, 1, 2, 5, 20, 100, 1000, u32::MAX] {
            check3(&c, &it3, ms);
        }
        // refused packets
        if i % 8 == 0 {
            let h = hostile5(&mut rng);
            for l in [0u32, 7, 30, 100_000] {
                check5(&c, &h, l, false);
            }
            rep.count("hostile_cases", 1);
            let h3 = hostile3(&mut rng);
            check3(&c, &h3, 0);
        }
        After::Continue
    });
    rep.extra("limits_exhaustive", json!("1..=64 for every generated packet"));
    rep.assume("reference codec (self-tested) is the framing / decoding oracle");
    rep.assume("retention of diagnostic properties under a limit is not demanded (the statement only forbids exceeding it); with no limit everything must be kept");
    rep.require("ok", 10_000);
    rep.require("trimmed", 100);
    rep.require("declined_acks_checked", 100);
    rep.require("err_OverMaxPacketSize", 100);
    // ---- B. builder-reported sizes at connection level
    // (the strict interpreter stage covers the pure codec part only)
    if std::env::var("VERIF_SANITIZER").as_deref() != Ok("miri") {
        super::c09_conn::run_part(opts, &rep);
    }
    rep.finish()
}
