//! C16 — no sequence of well-formed peer packets can panic or hang an endpoint.
//!
//! Alphabet of ~28 packet templates per version (every packet type incl. ones illegal for the
//! direction, ids {1,2}, a PUBLISH head with partial payload and matching / short payload tails,
//! duplicate ids by repetition, acks of every type, PUBREL, DISCONNECT with/without expiry, AUTH,
//! a second CONNECT); ALL sequences up to length L (3 quick / 4 thorough sampled) and random
//! sequences of length 4..8, each (a) instead of the handshake, (b) after the handshake with an
//! idle application, (c) after the handshake with a busy application (outstanding QoS 1 / QoS 2 /
//! subscribe sends, gated handlers, optionally a streamed send in progress). Oracle: panic hook,
//! logical step budget (live-lock), and end-state classification at final quiescence: the
//! connection has ended, or it answers a probe request.
use std::rc::Rc;

use serde_json::json;

use crate::app::{App, Ev, Outcome, PubPlan, ProtoPlan, ProtoAnswer, ReadMode};
use crate::conn::{self, ConnCfg, Role};
use crate::explore::{Run, exec};
use crate::pool::{self, After, Rng};
use crate::refcodec::{self, Packet as R, Prop, Ver};
use crate::report::{Opts, Report, Tier, Violation};
use crate::sink::{Chan, Op, PubSpec, ReceiptCmd, StreamCmd, next_op_id};

#[derive(Debug, Clone, Copy, PartialEq, Eq)]
pub enum State {
    NoHandshake,
    Idle,
    Busy,
    BusyStreaming,
    /// gated handlers; the only outstanding send is an exactly-once publish whose future the
    /// application dropped before PUBREC
    GaveUp,
}

/// a template: bytes to write + how many payload bytes the frame still owes afterwards
#[derive(Clone)]
pub struct Tpl {
    pub name: &'static str,
    pub bytes: Vec<u8>,
    /// payload bytes still owed after this fragment (for PUBLISH heads), or bytes delivered (tails, negative)
    pub owed_delta: i32,
}

pub fn alphabet(ver: Ver) -> Vec<Tpl> {
    let v5 = ver == Ver::V5;
    let code = if v5 { Some(0) } else { None };
    let enc = |p: &R| refcodec::encode(ver, p).unwrap();
    let mut v: Vec<Tpl> = Vec::new();
    let mut add = |name: &'static str, p: R| v.push(Tpl { name, bytes: enc(&p), owed_delta: 0 });
    add("CONNECT", R::Connect { level: if v5 { 5 } else { 4 }, clean: true, keep_alive: 0, props: vec![], client_id: "x".into(), will: None, username: None, password: None });
    add("CONNACK", R::ConnAck { session_present: false, code: 0, props: vec![] });
    add("PUB0", R::Publish { dup: false, qos: 0, retain: false, topic: "a/b".into(), pid: None, props: vec![], payload: b"zero".to_vec() });
    add("PUB1#1", R::Publish { dup: false, qos: 1, retain: false, topic: "a/b".into(), pid: Some(1), props: vec![], payload: b"one".to_vec() });
    add("PUB1#2", R::Publish { dup: true, qos: 1, retain: true, topic: "a/c".into(), pid: Some(2), props: vec![], payload: vec![] });
    add("PUB2#1", R::Publish { dup: false, qos: 2, retain: false, topic: "a/b".into(), pid: Some(1), props: vec![], payload: b"two".to_vec() });
    add("PUB2#2", R::Publish { dup: false, qos: 2, retain: false, topic: "q".into(), pid: Some(2), props: vec![], payload: b"2".to_vec() });
    add("PUB-wild", R::Publish { dup: false, qos: 0, retain: false, topic: "a/#".into(), pid: None, props: vec![], payload: vec![] });
    if v5 {
        add("PUB-alias-only", R::Publish { dup: false, qos: 0, retain: false, topic: String::new(), pid: None, props: vec![Prop::U16(0x23, 3)], payload: vec![1] });
        add("PUB-alias-bind", R::Publish { dup: false, qos: 1, retain: false, topic: "a/l".into(), pid: Some(2), props: vec![Prop::U16(0x23, 3)], payload: vec![1] });
    }
    add("PUBACK#1", R::PubAck { pid: 1, code, props: None });
    add("PUBACK#2", R::PubAck { pid: 2, code, props: None });
    add("PUBACK#3", R::PubAck { pid: 3, code, props: None });
    add("PUBREC#3", R::PubRec { pid: 3, code, props: None });
    add("PUBCOMP#3", R::PubComp { pid: 3, code, props: None });
    add("PUBREC#1", R::PubRec { pid: 1, code, props: None });
    add("PUBREC#2", R::PubRec { pid: 2, code, props: None });
    add("PUBREL#1", R::PubRel { pid: 1, code, props: None });
    add("PUBREL#2", R::PubRel { pid: 2, code, props: None });
    add("PUBCOMP#1", R::PubComp { pid: 1, code, props: None });
    add("PUBCOMP#2", R::PubComp { pid: 2, code, props: None });
    add("SUB#1", R::Subscribe { pid: 1, props: vec![], filters: vec![("s/+".into(), 1)] });
    add("SUB#2-badfilter", R::Subscribe { pid: 2, props: vec![], filters: vec![("s/#/x".into(), 0)] });
    add("UNSUB#1", R::Unsubscribe { pid: 1, props: vec![], filters: vec!["s/+".into()] });
    add("SUBACK#1", R::SubAck { pid: 1, props: vec![], codes: vec![0] });
    add("SUBACK#2", R::SubAck { pid: 2, props: vec![], codes: vec![1] });
    add("UNSUBACK#1", R::UnsubAck { pid: 1, props: vec![], codes: if v5 { vec![0] } else { vec![] } });
    add("PINGREQ", R::PingReq);
    add("PINGRESP", R::PingResp);
    add("DISCONNECT", R::Disconnect { code: if v5 { Some(0) } else { None }, props: None });
    if v5 {
        add("DISCONNECT-expiry", R::Disconnect { code: Some(0), props: Some(vec![Prop::U32(0x11, 60)]) });
        add("AUTH", R::Auth { code: Some(0x19), props: Some(vec![Prop::Str(0x15, "m".into())]) });
    }
    // PUBLISH head with 4 of 10 payload bytes, and tails
    let full = enc(&R::Publish { dup: false, qos: 1, retain: false, topic: "a/s".into(), pid: Some(2), props: vec![], payload: b"0123456789".to_vec() });
    v.push(Tpl { name: "PUB1#2-head(4/10)", bytes: full[..full.len() - 6].to_vec(), owed_delta: 6 });
    v.push(Tpl { name: "tail(6)", bytes: b"456789".to_vec(), owed_delta: -6 });
    v.push(Tpl { name: "tail(3)", bytes: b"456".to_vec(), owed_delta: -3 });
    v
}

pub struct Outc {
    pub violation: Option<(String, String)>,
    pub log: Vec<String>,
    pub sig: u64,
    pub ended: bool,
    pub responsive: bool,
    pub stop_seen: bool,
}

pub async fn run_seq(role: Role, state: State, seq: &[usize], alpha: &[Tpl], reverse_release: bool) -> Outc {
    let app = App::new("c16");
    let mut cfg = ConnCfg::new(role);
    cfg.max_qos = 2;
    cfg.max_topic_alias = 8;
    cfg.peer_topic_alias_max = 8;
    // every fragment of a payload is handed over as a chunk of its own (0 would make the decoder
    // wait for the complete rest of the payload)
    cfg.min_chunk_size = 1;
    // a byte limit on concurrently handled publishes that the 10-byte streamed PUBLISH of the
    // alphabet exceeds: its chunks have to pass the limiter while its handler is running
    cfg.max_receive_size = 8;
    cfg.max_send = 8;
    if role == Role::V5Client {
        cfg.connack_props = vec![Prop::U16(0x21, 8)];
    }
    let busy = matches!(state, State::Busy | State::BusyStreaming | State::GaveUp);
    if busy {
        *app.pub_default.borrow_mut() = PubPlan { read: ReadMode::Eager, gated: true, outcome: Outcome::Ok };
        *app.proto_default.borrow_mut() = ProtoPlan { gated: true, answer: ProtoAnswer::Ack };
    }
    let mut out = Outc { violation: None, log: vec![], sig: 0, ended: false, responsive: false, stop_seen: false };
    // ---- bring the endpoint into the chosen state
    let mut c = if state == State::NoHandshake {
        if role.is_server() {
            conn::start_server_raw(&cfg, app.clone()).await
        } else {
            // client: the library has sent CONNECT and waits for the first packet
            let mut cfg2 = cfg.clone();
            cfg2.connack_code = 0;
            start_client_without_connack(&cfg2, app.clone()).await
        }
    } else {
        conn::start(&cfg, app.clone()).await
    };
    let mut ops: Vec<Op> = Vec::new();
    let receipt = Chan::<ReceiptCmd>::new();
    let stream_cmds = Chan::<StreamCmd>::new();
    if busy && c.has_sink() {
        let sink = c.sink();
        {
            // an exactly-once send the application gave up on (future dropped before PUBREC): id 1 (the oldest outstanding exchange)
            let mut od = Op::new(&app, next_op_id(), "q2-dropped", sink.send_qos2(&PubSpec::new("o/3", b"out3".to_vec()), Chan::<ReceiptCmd>::new(), Rc::new(|_, _| {})));
            od.start();
            c.settle().await;
            od.cancel();
            drop(od);
        }
        let id1 = next_op_id();
        if state != State::GaveUp {
        let mut o1 = Op::new(&app, id1, "q1", sink.send_qos1(&PubSpec::new("o/1", b"out1".to_vec())));
        o1.start();
        ops.push(o1);
        let id2 = next_op_id();
        let app2 = app.clone();
        let mut o2 = Op::new(&app, id2, "q2", sink.send_qos2(&PubSpec::new("o/2", b"out2".to_vec()), receipt.clone(), Rc::new(move |_, res| {
            app2.log(Ev::SinkRet { op: id2, n: 1, res });
        })));
        o2.start();
        ops.push(o2);
        if !role.is_server() {
            let mut o3 = Op::new(&app, next_op_id(), "sub", sink.subscribe(None, &[("f/#", 0)]));
            o3.start();
            ops.push(o3);
        }
        if state == State::BusyStreaming {
            let (ack, w) = sink.stream_qos1(&PubSpec::new("o/s", vec![]), 10, stream_cmds.clone(), Rc::new(|_, _| {}));
            let mut oa = Op::new(&app, next_op_id(), "stream-ack", ack);
            oa.start();
            ops.push(oa);
            let mut ow = Op::new(&app, next_op_id(), "stream-writer", w);
            ow.start();
            ops.push(ow);
            stream_cmds.push(StreamCmd::Chunk(b"0123".to_vec()));
        }
        }
        c.settle().await;
    }
    // ---- the sequence
    let mut owed: i32 = 0;
    for &k in seq {
        let t = &alpha[k];
        app.log(Ev::PeerSent(t.name.to_string()));
        c.peer.write_quiet(&t.bytes);
        if t.owed_delta > 0 {
            // only counts if the decoder is at a frame boundary
            if owed == 0 {
                owed = t.owed_delta;
            } else {
                owed = (owed - t.bytes.len() as i32).max(0);
            }
        } else if t.owed_delta < 0 && owed > 0 {
            owed = (owed + t.owed_delta).max(0);
        } else if owed > 0 {
            // whole packet swallowed as payload
            owed = (owed - t.bytes.len() as i32).max(0);
        }
        c.settle().await;
    }
    // ---- release everything the application holds
    receipt.push(ReceiptCmd::Release);
    if state == State::BusyStreaming {
        stream_cmds.push(StreamCmd::Chunk(b"456789".to_vec()));
    }
    for _ in 0..32 {
        c.settle().await;
        if reverse_release {
            // newest handler first, one at a time
            let gates = app.pending_gates();
            match gates.last() {
                Some(g) => {
                    app.open_gate(*g, Outcome::Ok);
                }
                None => break,
            }
        } else if app.open_all(Outcome::Ok) == 0 {
            break;
        }
    }
    c.settle().await;
    out.stop_seen = !app.stops().is_empty();
    // an endpoint that ends the connection because of what the peer sent must say so: the only
    // other legitimate end here is the peer's own DISCONNECT
    if let Some((_, class, detail)) = app.stops().first() {
        let peer_disconnected = seq.iter().any(|k| alpha[*k].name.starts_with("DISCONNECT"));
        if *class != crate::app::StopClass::Protocol && !peer_disconnected {
            // a class of its own (open finding, DESIGN.md §10.2): an acknowledgement that does not
            // match the oldest outstanding send makes the sink close the io at once, while the
            // protocol error itself waits in the ordered response queue behind a handler that is
            // still pending - the dispatcher then notices the closed io first
            let names: Vec<&str> = seq.iter().map(|k| alpha[*k].name).collect();
            let stray_ack = names.iter().any(|n| ["PUBACK", "PUBREC", "PUBCOMP", "SUBACK", "UNSUBACK"].iter().any(|a| n.starts_with(a)));
            // a handler was running when the control service was told (entered before, ended after)
            let handler_pending = {
                let log = app.snapshot();
                let stop_seq = log.iter().find_map(|(s, e)| matches!(e, Ev::CtlEnter { stop: Some(_), .. }).then_some(*s)).unwrap_or(u64::MAX);
                let mut open: std::collections::HashSet<u32> = std::collections::HashSet::new();
                for (s, e) in &log {
                    if *s >= stop_seq {
                        break;
                    }
                    match e {
                        Ev::PubEnter { call, .. } | Ev::ProtoEnter { call, .. } => {
                            open.insert(*call);
                        }
                        Ev::PubExit { call, .. } | Ev::ProtoExit { call, .. } | Ev::PubDropped { call } | Ev::ProtoDropped { call } => {
                            open.remove(call);
                        }
                        _ => {}
                    }
                }
                !open.is_empty()
            };
            let class_txt = if *class == crate::app::StopClass::PeerGone && stray_ack && handler_pending {
                "unexpected acknowledgement while a handler was pending: the control service saw PeerGone instead of the protocol error".to_string()
            } else {
                format!("connection ended by a peer packet without a protocol error reported to the control service ({class:?})")
            };
            out.violation = Some((
                class_txt,
                format!("state {state:?}, sequence {names:?}, detail {detail}"),
            ));
        }
    }
    out.ended = c.done() || out.stop_seen;
    if !out.ended {
        // complete a frame that is still open, then probe
        if owed > 0 {
            c.peer.write_quiet(&vec![b'.'; owed as usize]);
            c.settle().await;
            for _ in 0..8 {
                if app.open_all(Outcome::Ok) == 0 {
                    break;
                }
                c.settle().await;
            }
        }
        out.ended = c.done() || !app.stops().is_empty();
    }
    if !out.ended {
        *app.pub_default.borrow_mut() = PubPlan::default();
        *app.proto_default.borrow_mut() = ProtoPlan::default();
        let wire_before = app.wire().len();
        if state == State::NoHandshake {
            // nothing accepted yet: a CONNECT (server) / CONNACK (client) must still be possible,
            // or the endpoint must have ended. Probe with the handshake packet.
            let hs = if role.is_server() { &alpha[0] } else { &alpha[1] };
            c.peer.write_quiet(&hs.bytes);
            c.settle().await;
            out.responsive = app.wire().len() > wire_before || c.has_sink() || c.done() || !app.stops().is_empty();
        } else if role.is_server() {
            c.peer.send(&R::PingReq);
            c.settle().await;
            for _ in 0..4 {
                if app.open_all(Outcome::Ok) == 0 {
                    break;
                }
                c.settle().await;
            }
            out.responsive = app.wire().iter().skip(wire_before).any(|(_, p)| matches!(p, R::PingResp)) || c.done() || !app.stops().is_empty();
        } else {
            c.peer.send(&R::Publish { dup: false, qos: 1, retain: false, topic: "probe".into(), pid: Some(777), props: vec![], payload: vec![7] });
            c.settle().await;
            for _ in 0..4 {
                if app.open_all(Outcome::Ok) == 0 {
                    break;
                }
                c.settle().await;
            }
            out.responsive = app.wire().iter().skip(wire_before).any(|(_, p)| matches!(p, R::PubAck { pid: 777, .. })) || c.done() || !app.stops().is_empty();
        }
        if !out.responsive {
            out.violation = Some((
                "endpoint neither ended the connection nor answers a probe request (hang)".into(),
                format!("state {state:?}, sequence {:?}", seq.iter().map(|k| alpha[*k].name).collect::<Vec<_>>()),
            ));
        }
    }
    out.sig = app.trace_signature();
    out.log = app.render(50);
    c.finish().await;
    out
}

/// client role without answering CONNACK (the sequence comes "instead of the handshake")
async fn start_client_without_connack(cfg: &ConnCfg, app: Rc<App>) -> conn::Conn {
    conn::start_client_opts(cfg, app, false).await
}

fn states_for(quick: bool) -> Vec<State> {
    if quick { vec![State::NoHandshake, State::Idle, State::Busy, State::GaveUp] } else { vec![State::NoHandshake, State::Idle, State::Busy, State::GaveUp, State::BusyStreaming] }
}

pub fn run(opts: &Opts) -> i32 {
    let rep = Report::new(
        opts,
        "exploration",
        "exhaustive: every well-formed sequence of length <= 3 (thorough: plus a 1/4 sample of length 4) over ~31 templates per version, x {instead of handshake, idle, \
         busy: outstanding sends of every kind incl. one the application gave up on, gated handlers released oldest-first and newest-first (+ busy with a streamed send in progress, thorough)} x 4 roles; plus seeded random sequences of length \
         4..8. distinct = distinct (role, state, sequence)",
    );
    if let Some(p) = &opts.replay {
        return replay(p);
    }
    let quick = opts.tier == Tier::Quick;
    let a3 = alphabet(Ver::V3);
    let a5 = alphabet(Ver::V5);
    rep.extra("alphabet_v3", json!(a3.iter().map(|t| t.name).collect::<Vec<_>>()));
    rep.extra("alphabet_v5", json!(a5.iter().map(|t| t.name).collect::<Vec<_>>()));
    // job list (interpreter stage: sequences of length <= 2 and a few random ones)
    let interp = std::env::var("VERIF_SANITIZER").as_deref() == Ok("miri");
    let mut jobs: Vec<(Role, State, Vec<usize>)> = Vec::new();
    for role in Role::ALL {
        let n = if role.is_v5() { a5.len() } else { a3.len() };
        for st in states_for(quick) {
            for a in 0..n {
                jobs.push((role, st, vec![a]));
                for b in 0..n {
                    jobs.push((role, st, vec![a, b]));
                    for c3 in 0..(if interp { 0 } else { n }) {
                        let idx = (a * n + b) * n + c3;
                        jobs.push((role, st, vec![a, b, c3]));
                        if !quick {
                            for d in 0..n {
                                if (idx * n + d) % 4 == 3 {
                                    jobs.push((role, st, vec![a, b, c3, d]));
                                }
                            }
                        }
                    }
                }
            }
        }
    }
    // random longer ones
    let n_rand = if interp { 400 } else { ((if quick { 20_000.0 } else { 1_500_000.0 }) * opts.scale) as u64 };
    let mut rng = Rng::for_case(opts.seed, "C16-rand", 0);
    for _ in 0..n_rand {
        let role = *rng.pick(&Role::ALL);
        let n = if role.is_v5() { a5.len() } else { a3.len() };
        let len = 4 + rng.usize(5);
        let st = *rng.pick(&[State::NoHandshake, State::Idle, State::Busy, State::Busy, State::GaveUp, State::BusyStreaming]);
        jobs.push((role, st, (0..len).map(|_| rng.usize(n)).collect()));
    }
    jobs.retain(|(role, _, seq)| well_formed(seq, if role.is_v5() { &a5 } else { &a3 }));
    // busy states: the gated handlers are released oldest-first and newest-first
    let jobs: Vec<(Role, State, Vec<usize>, bool)> = jobs
        .into_iter()
        .flat_map(|(r, st, seq)| {
            let both = matches!(st, State::Busy | State::BusyStreaming | State::GaveUp) && seq.len() >= 2;
            let mut v = vec![(r, st, seq.clone(), false)];
            if both {
                v.push((r, st, seq, true));
            }
            v
        })
        .collect();
    rep.extra("sequences", json!(jobs.len()));
    let deadline = std::time::Instant::now() + std::time::Duration::from_secs(if quick { 120 } else { 1500 });
    let done = pool::par_for(jobs.len() as u64, Some(deadline), |i| {
        let (role, st, seq, reverse) = &jobs[i as usize];
        let alpha = if role.is_v5() { &a5 } else { &a3 };
        let names: Vec<&str> = seq.iter().map(|k| alpha[*k].name).collect();
        let r = exec(run_seq(*role, *st, seq, alpha, *reverse));
        rep.eval();
        rep.distinct(pool::mix(pool::hash_str(role.name()) ^ (*st as u64) ^ ((*reverse as u64) << 17), pool::hash_bytes(&seq.iter().map(|x| *x as u8).collect::<Vec<_>>())));
        let replay = json!({"role": role.name(), "state": format!("{st:?}"), "sequence": names, "indices": seq, "reverse_release": reverse});
        match &r {
            Run::Done(o, st2) => {
                if o.ended {
                    rep.count("ended", 1);
                } else if o.responsive {
                    rep.count("responsive", 1);
                }
                rep.count(&format!("len{}", seq.len().min(4)), 1);
                rep.count("busy_wait_quiescences(info)", st2.spins);
                if i % 50_021 == 3 {
                    rep.sample(8, || json!({"case": replay, "log": o.log}));
                }
                if let Some((class, what)) = &o.violation {
                    rep.violation(Violation {
                        signature: if class.starts_with("unexpected acknowledgement while a handler was pending") { format!("{}: {}", role.name(), class) } else { format!("{}: {} [{}]", role.name(), class, first_cause(&names)) },
                        what: format!("{class} — {what}"),
                        replay: json!({"case": replay, "log": o.log}),
                    });
                }
            }
            Run::Panic(p, tail) => rep.violation(Violation {
                signature: format!("{}: {}", role.name(), p.signature()),
                what: format!("panic: {} at {} — state {st:?}, sequence {names:?}", p.msg, p.location),
                replay: json!({"case": replay, "log": tail}),
            }),
            Run::Livelock(tail) => rep.violation(Violation {
                signature: format!("{}: live-lock [{}]", role.name(), first_cause(&names)),
                what: format!("the connection never became quiescent — state {st:?}, sequence {names:?}"),
                replay: json!({"case": replay, "log": tail}),
            }),
            Run::Watchdog => rep.inconclusive(format!("watchdog: {role:?} {st:?} {names:?}")),
        }
        r.after()
    });
    // ---- T: well-formed packets that arrive slowly / in pieces under a configured frame read rate
    // (real time; scenarios shared with C20): no panic, the connection stays in service
    if opts.replay.is_none() && std::env::var("VERIF_SANITIZER").is_err() {
        let ts = timed_scenarios(opts.seed, opts.tier == crate::report::Tier::Quick);
        rep.extra("timed_scenarios", json!(ts.iter().map(|s| s.name.clone()).collect::<Vec<_>>()));
        let (_, late) = super::c20::run_scns(&rep, opts, &ts, Some("T"));
        if late.len() * 4 > ts.len() {
            rep.inconclusive(format!("T: {} of {} timed scenarios undecided because the harness was late (machine overloaded?)", late.len(), ts.len()));
        }
        rep.require("T_expect_Alive", 2);
    }
    rep.extra("sequences_executed", json!(done));
    rep.set_exhaustive(done == jobs.len() as u64);
    rep.assume("a PUBLISH frame left open by the sequence is completed with filler bytes before the probe is sent");
    rep.require("ended", 1000);
    rep.require("responsive", 1000);
    rep.finish()
}

/// a sequence is a sequence of well-formed packets only if payload tails follow a PUBLISH head
/// and nothing else is written while payload bytes are owed
fn well_formed(seq: &[usize], alpha: &[Tpl]) -> bool {
    let mut owed = 0i32;
    for k in seq {
        let d = alpha[*k].owed_delta;
        if d > 0 {
            if owed != 0 {
                return false;
            }
            owed = d;
        } else if d < 0 {
            if owed < -d {
                return false;
            }
            owed += d;
        } else if owed != 0 {
            return false;
        }
    }
    true
}

fn first_cause(names: &[&str]) -> String {
    // the shortest description that still identifies the sequence class: its first two templates
    names.iter().take(2).copied().collect::<Vec<_>>().join(",")
}

/// part T: scenarios of C20's grid in which a live peer delivers well-formed packets slowly or in
/// pieces and the connection has to stay in service
fn timed_scenarios(seed: u64, quick: bool) -> Vec<super::c20::Scn> {
    let mut rng = crate::pool::Rng::for_case(seed, "c20", 0);
    super::c20::scenarios(quick, &mut rng)
        .into_iter()
        .filter(|s| s.expect == super::c20::Expect::Alive && (s.name.contains("read rate") || s.name.contains("straddle")))
        .collect()
}

fn replay(path: &std::path::Path) -> i32 {
    let v: serde_json::Value = serde_json::from_str(&std::fs::read_to_string(path).expect("replay file")).expect("json");
    let c = &v["replay"]["case"];
    if c["part"].as_str() == Some("T") {
        return super::c20::replay_named("C16", path, v["seed"].as_u64().unwrap_or(1), c["name"].as_str().unwrap_or(""));
    }
    let role = match c["role"].as_str().unwrap_or("") {
        "v3/server" => Role::V3Server,
        "v5/server" => Role::V5Server,
        "v3/client" => Role::V3Client,
        _ => Role::V5Client,
    };
    let st = match c["state"].as_str().unwrap_or("") {
        "NoHandshake" => State::NoHandshake,
        "Idle" => State::Idle,
        "Busy" => State::Busy,
        "GaveUp" => State::GaveUp,
        _ => State::BusyStreaming,
    };
    let seq: Vec<usize> = c["indices"].as_array().map(|a| a.iter().filter_map(|x| x.as_u64().map(|x| x as usize)).collect()).unwrap_or_default();
    let alpha = alphabet(role.ver());
    println!("replaying {role:?} {st:?} {:?}", seq.iter().map(|k| alpha[*k].name).collect::<Vec<_>>());
    match exec(run_seq(role, st, &seq, &alpha, c["reverse_release"].as_bool().unwrap_or(false))) {
        Run::Done(o, _) => {
            for l in &o.log {
                println!("{l}");
            }
            println!("ended={} responsive={} violation={:?}", o.ended, o.responsive, o.violation);
            if o.violation.is_some() {
                println!("VIOLATION property=C16 replay={}", path.display());
                1
            } else {
                0
            }
        }
        Run::Panic(p, tail) => {
            for l in &tail {
                println!("{l}");
            }
            println!("panic: {} at {}\nVIOLATION property=C16 replay={}", p.msg, p.location, path.display());
            1
        }
        Run::Livelock(tail) => {
            for l in &tail {
                println!("{l}");
            }
            println!("live-lock\nVIOLATION property=C16 replay={}", path.display());
            1
        }
        Run::Watchdog => 2,
    }
}
