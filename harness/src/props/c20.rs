//! C20 — idle and too-slow peers are timed out, live peers are not.
//!
//! Real (coarse, >= 1 s) time. Every scenario is a timeline of peer actions on one connection;
//! many scenarios run in parallel on their own threads (they mostly sleep). The oracle works on
//! *measured* times: the window in which the connection must end is anchored at the moment the
//! harness actually delivered the last complete packet / fragment, and a run in which the
//! harness itself was too late to keep a "live" peer live is inconclusive, not a violation.
use std::time::{Duration, Instant};

use serde_json::json;

use crate::app::{App, Ev, Outcome, PubPlan, ReadMode, StopClass};
use crate::conn::{self, ConnCfg, Role};
use crate::explore::{Run, exec_with};
use crate::pool::{self, Rng};
use crate::refcodec::{self, Packet as R, Prop, Ver};
use crate::report::{Opts, Report, Tier, Violation};

/// a timer of N seconds may be observed this much early (observed on the unchanged tree: always nominal + 1.0..1.2 s) ...
const EARLY: f64 = 0.5;
/// ... or late (wheel granularity + scheduling on a loaded machine)
const LATE: f64 = 3.5;

#[derive(Debug, Clone)]
pub enum Act {
    /// bytes; `completes` = a complete packet has been delivered once these bytes are in
    Send { bytes: Vec<u8>, completes: bool },
}

#[derive(Debug, Clone, PartialEq)]
pub enum Expect {
    /// ended by keep-alive `timeout` seconds after the last complete packet (or the handshake)
    KeepAlive { timeout: f64 },
    /// ended by the frame read timer `after` seconds after the anchor action (index into the timeline)
    ReadTimeout { anchor: usize, after: f64 },
    /// dropped by the connect timeout `after` seconds after the connection was opened
    ConnectTimeout { after: f64 },
    /// never ended during the observation
    Alive,
    /// client role: PINGREQ at least once per `period` seconds, never ended
    ClientPings { period: f64 },
    /// client role: no PINGREQ at all
    NoPings,
}

#[derive(Debug, Clone)]
pub struct Scn {
    pub name: String,
    pub role: Role,
    pub cfg: ConnCfg,
    /// server: do not perform the handshake (connect-timeout scenarios)
    pub raw: bool,
    /// a gated QoS 1 publish handler is in flight for the whole scenario
    pub busy: bool,
    /// client roles: the application sends a QoS 1 publish at the start; the peer acknowledges it
    /// only after this many ms (the send window, 1, is full across a keep-alive tick)
    pub client_send_ack_ms: Option<u64>,
    pub timeline: Vec<(u64, Act)>,
    pub observe_ms: u64,
    pub expect: Expect,
    /// live phase: complete packets arrive with gaps below this many seconds (checked on measured times)
    pub live_gap: Option<f64>,
    /// before the timeline starts the connection goes through one write back-pressure episode
    /// (the application sends more than the write buffer holds while the peer does not read)
    pub bp_first: bool,
}

pub struct Outc {
    pub violations: Vec<(String, String)>,
    pub inconclusive: Option<String>,
    pub log: Vec<String>,
    pub sig: u64,
    pub end_s: Option<f64>,
    pub pings: Vec<f64>,
}

async fn sleep_ms(ms: u64) {
    ntex_util::time::sleep(ntex_util::time::Millis(ms as u32)).await;
}

pub async fn run_scn(s: &Scn) -> Outc {
    let app = App::new("c20");
    let mut o = Outc { violations: vec![], inconclusive: None, log: vec![], sig: 0, end_s: None, pings: vec![] };
    let t_open = Instant::now();
    let mut c = if s.raw { conn::start_server_raw(&s.cfg, app.clone()).await } else { conn::start(&s.cfg, app.clone()).await };
    let ver = s.role.ver();
    if !s.raw && !c.has_sink() {
        o.violations.push(("harness: handshake failed".into(), s.name.clone()));
        return o;
    }
    if s.busy {
        app.pub_plans.borrow_mut().push_back(PubPlan { read: ReadMode::Eager, gated: true, outcome: Outcome::Ok });
        c.peer.send(&R::Publish { dup: false, qos: 1, retain: false, topic: "busy".into(), pid: Some(77), props: vec![], payload: vec![1] });
        c.settle().await;
    }
    let mut pending_send: Option<(crate::sink::Op, u64, bool)> = None;
    if let Some(ack_ms) = s.client_send_ack_ms {
        let sink = c.sink();
        let mut op = crate::sink::Op::new(&app, crate::sink::next_op_id(), "q1", sink.send_qos1(&crate::sink::PubSpec::new("c/s", vec![1, 2, 3])));
        op.start();
        c.settle().await;
        pending_send = Some((op, ack_ms, false));
    }
    if s.bp_first {
        let sink = c.sink();
        c.peer.set_budget(0);
        for i in 0..3u8 {
            let _ = sink.send_qos0(&crate::sink::PubSpec::new("c/big", vec![i; 700]));
            c.settle().await;
        }
        c.peer.unlimited();
        c.settle().await;
        let on = app.count(|e| matches!(e, Ev::CtlEnter { what, .. } if what == "wr(true)"));
        let off = app.count(|e| matches!(e, Ev::CtlEnter { what, .. } if what == "wr(false)"));
        if on == 0 || off == 0 {
            o.inconclusive = Some(format!("harness: no write back-pressure episode ({on} on / {off} off): {}", s.name));
        }
    }
    let t0 = Instant::now();
    let secs = |t: Instant| t.duration_since(t0).as_secs_f64();
    let mut actual: Vec<f64> = Vec::new();
    let mut last_complete = 0.0f64;
    let mut max_gap = 0.0f64;
    let mut idx = 0usize;
    let mut pings_seen = 0usize;
    let mut live_until = 0.0f64;
    loop {
        let now_ms = t0.elapsed().as_millis() as u64;
        while idx < s.timeline.len() && s.timeline[idx].0 <= now_ms {
            let Act::Send { bytes, completes } = &s.timeline[idx].1;
            if c.peer.is_open() {
                c.peer.write_quiet(bytes);
            }
            let t = secs(Instant::now());
            actual.push(t);
            if *completes {
                max_gap = max_gap.max(t - last_complete);
                last_complete = t;
                live_until = t;
            }
            app.log(Ev::Note(format!("t={t:.2}s peer wrote {}B{}", bytes.len(), if *completes { " (packet complete)" } else { "" })));
            idx += 1;
        }
        c.settle().await;
        if let Some((_, ack_ms, acked)) = pending_send.as_mut() {
            if !*acked && t0.elapsed().as_millis() as u64 >= *ack_ms {
                *acked = true;
                let pid = app.wire().iter().find_map(|(_, p)| if let R::Publish { pid: Some(p), .. } = p { Some(*p) } else { None }).unwrap_or(1);
                let ack = R::PubAck { pid, code: if s.role.is_v5() { Some(0) } else { None }, props: None };
                if c.peer.is_open() {
                    c.peer.write_quiet(&refcodec::encode(ver, &ack).unwrap());
                }
                app.log(Ev::Note(format!("t={:.2}s peer acknowledged the publish", secs(Instant::now()))));
                c.settle().await;
            }
        }
        // client role: answer pings, remember when they came
        let pings = app.count(|e| matches!(e, Ev::Wire(R::PingReq)));
        while pings_seen < pings {
            pings_seen += 1;
            let t = secs(Instant::now());
            o.pings.push(t);
            app.log(Ev::Note(format!("t={t:.2}s PINGREQ seen")));
            if c.peer.is_open() {
                c.peer.write_quiet(&refcodec::encode(ver, &R::PingResp).unwrap());
            }
        }
        let ended = !app.stops().is_empty() || app.done.get();
        if ended && o.end_s.is_none() {
            let t = secs(Instant::now());
            o.end_s = Some(t);
            app.log(Ev::Note(format!("t={t:.2}s connection ended")));
        }
        let now_ms = t0.elapsed().as_millis() as u64;
        if now_ms >= s.observe_ms || (o.end_s.is_some() && idx >= s.timeline.len()) {
            break;
        }
        sleep_ms(40).await;
    }
    let opened_before = t0.duration_since(t_open).as_secs_f64();
    // ------------------------------------------------------------------ oracle
    let what = format!("{} (measured: actions at {:?}, end {:?})", s.name, actual.iter().map(|t| (t * 100.0).round() / 100.0).collect::<Vec<_>>(), o.end_s);
    let stops = app.stops();
    let wire = app.wire();
    let window = |anchor: f64, t: f64| (anchor + t - EARLY, anchor + t + LATE);
    match &s.expect {
        Expect::KeepAlive { timeout } => {
            // live phase first: the harness must have kept its own schedule
            if let Some(g) = s.live_gap {
                if max_gap > g {
                    o.inconclusive = Some(format!("harness delivered packets with a gap of {max_gap:.2}s (> {g}s): {}", s.name));
                }
            }
            let (lo, hi) = window(live_until, *timeout);
            match o.end_s {
                None => o.violations.push(("idle connection was not ended by the keep-alive timer".into(), format!("expected in [{lo:.1},{hi:.1}]s — {what}"))),
                Some(e) if e < lo => {
                    if o.inconclusive.is_none() {
                        o.violations.push(("connection ended before the keep-alive period had passed since the last complete packet".into(), format!("expected in [{lo:.1},{hi:.1}]s — {what}")));
                    }
                }
                Some(e) if e > hi => o.violations.push(("keep-alive timeout fired too late".into(), format!("expected in [{lo:.1},{hi:.1}]s — {what}"))),
                Some(_) => {
                    match stops.first() {
                        Some(st) if st.1 == StopClass::Protocol && st.2.contains("KeepAlive") => {}
                        other => o.violations.push(("idle connection ended without a keep-alive-timeout reason".into(), format!("{other:?} — {what}"))),
                    }
                    if s.role == Role::V5Server {
                        let d: Vec<u8> = wire.iter().filter_map(|(_, p)| if let R::Disconnect { code, .. } = p { Some(code.unwrap_or(0)) } else { None }).collect();
                        if d != vec![0x8D] {
                            o.violations.push(("MQTT 5 keep-alive timeout without DISCONNECT 0x8D".into(), format!("{d:02x?} — {what}")));
                        }
                    }
                }
            }
        }
        Expect::ReadTimeout { anchor, after } => {
            let a = actual.get(*anchor).copied().unwrap_or(0.0);
            let (lo, hi) = window(a, *after);
            match o.end_s {
                None => o.violations.push(("peer stalled / slower than the read rate was not ended by the read timer".into(), format!("expected in [{lo:.1},{hi:.1}]s — {what}"))),
                Some(e) if e < lo => o.violations.push(("connection ended before the frame read period had passed".into(), format!("expected in [{lo:.1},{hi:.1}]s — {what}"))),
                Some(e) if e > hi => o.violations.push(("read timeout fired too late".into(), format!("expected in [{lo:.1},{hi:.1}]s — {what}"))),
                Some(_) => match stops.first() {
                    Some(st) if st.1 == StopClass::Protocol && st.2.contains("ReadTimeout") => {}
                    other => o.violations.push(("slow frame ended the connection without a read-timeout reason".into(), format!("{other:?} — {what}"))),
                },
            }
        }
        Expect::ConnectTimeout { after } => {
            let (lo, hi) = (after - EARLY - opened_before, after + LATE);
            match o.end_s {
                None => o.violations.push(("peer that never completed CONNECT was not dropped by the connect timeout".into(), format!("expected in [{lo:.1},{hi:.1}]s — {what}"))),
                Some(e) if e < lo => o.violations.push(("connection dropped before the connect timeout".into(), format!("expected in [{lo:.1},{hi:.1}]s — {what}"))),
                Some(e) if e > hi => o.violations.push(("connect timeout fired too late".into(), format!("expected in [{lo:.1},{hi:.1}]s — {what}"))),
                Some(_) => {
                    if app.count(|e| matches!(e, Ev::HandshakeEnter)) > 0 {
                        o.violations.push(("handshake service invoked although CONNECT never completed".into(), what.clone()));
                    }
                }
            }
        }
        Expect::Alive => {
            if let Some(g) = s.live_gap {
                if max_gap > g {
                    o.inconclusive = Some(format!("harness delivered packets with a gap of {max_gap:.2}s (> {g}s): {}", s.name));
                }
            }
            if o.end_s.is_some() && o.inconclusive.is_none() {
                o.violations.push(("live connection was ended".into(), format!("{:?} — {what}", stops.first())));
            }
        }
        Expect::ClientPings { period } => {
            if o.end_s.is_some() {
                o.violations.push(("idle client connection with keep-alive ended".into(), format!("{:?} — {what}", stops.first())));
            }
            let mut prev = 0.0;
            let mut worst = 0.0f64;
            for p in o.pings.iter().chain(std::iter::once(&(s.observe_ms as f64 / 1000.0))) {
                worst = worst.max(p - prev);
                prev = *p;
            }
            if worst > period + LATE - 1.0 {
                o.violations.push(("client did not write a PINGREQ within a keep-alive period".into(), format!("longest silence {worst:.2}s, period {period}s, pings at {:?} — {what}", o.pings)));
            }
        }
        Expect::NoPings => {
            if !o.pings.is_empty() {
                o.violations.push(("client with keep-alive 0 wrote PINGREQ".into(), what.clone()));
            }
            if o.end_s.is_some() {
                o.violations.push(("client connection with keep-alive 0 ended".into(), what.clone()));
            }
        }
    }
    o.sig = app.trace_signature();
    o.log = app.render(40);
    app.open_all(Outcome::Ok);
    c.finish().await;
    o
}

// ------------------------------------------------------------------------------ scenarios

fn ka_timeout(k: u16) -> f64 {
    ((k >> 1) + k) as f64
}

fn pkt(ver: Ver, n: u64) -> Vec<u8> {
    if n % 2 == 0 {
        refcodec::encode(ver, &R::PingReq).unwrap()
    } else {
        refcodec::encode(ver, &R::Publish { dup: false, qos: 0, retain: false, topic: "k/a".into(), pid: None, props: vec![], payload: vec![n as u8; 30] }).unwrap()
    }
}

/// `n` complete packets every `period_ms`, each optionally split into fragments `frag_ms` apart
fn traffic(ver: Ver, start_ms: u64, n: u64, period_ms: u64, frags: usize, frag_ms: u64) -> Vec<(u64, Act)> {
    let mut v = Vec::new();
    for i in 0..n {
        let b = pkt(ver, if frags > 1 { 2 * i + 1 } else { i });
        let t = start_ms + i * period_ms;
        if frags <= 1 {
            v.push((t, Act::Send { bytes: b, completes: true }));
        } else {
            let step = b.len().div_ceil(frags);
            let chunks: Vec<&[u8]> = b.chunks(step).collect();
            for (j, ch) in chunks.iter().enumerate() {
                v.push((t + j as u64 * frag_ms, Act::Send { bytes: ch.to_vec(), completes: j + 1 == chunks.len() }));
            }
        }
    }
    v
}

pub fn scenarios(quick: bool, rng: &mut Rng) -> Vec<Scn> {
    let mut v = Vec::new();
    for role in [Role::V3Server, Role::V5Server] {
        let ver = role.ver();
        let base = |f: &dyn Fn(&mut ConnCfg)| {
            let mut c = ConnCfg::new(role);
            c.disconnect_timeout = 1;
            f(&mut c);
            c
        };
        // keep-alive from the client's value: 1.5 x
        for k in [1u16, 2, 4, 8] {
            if quick && (k == 1 || k == 8) {
                continue;
            }
            let t = ka_timeout(k);
            v.push(Scn { name: format!("{} idle, client keep-alive {k}", role.name()), role, cfg: base(&|c| c.keep_alive = k), raw: false, busy: false, client_send_ack_ms: None, timeline: vec![], observe_ms: ((t + LATE + 1.0) * 1000.0) as u64, expect: Expect::KeepAlive { timeout: t }, bp_first: false, live_gap: None });
        }
        // server override
        for x in [1u16, 2, 3] {
            if quick && x != 2 {
                continue;
            }
            v.push(Scn { name: format!("{} idle, client keep-alive 10, handshake imposes {x}", role.name()), role, cfg: base(&|c| { c.keep_alive = 10; c.hs.keepalive = Some(x); }), raw: false, busy: false, client_send_ack_ms: None, timeline: vec![], observe_ms: ((x as f64 + LATE + 1.0) * 1000.0) as u64, expect: Expect::KeepAlive { timeout: x as f64 }, bp_first: false, live_gap: None });
        }
        // very large client values: 1.5 x does not fit into 16 bits, the period saturates (it
        // must neither wrap around to a few seconds nor switch the timer off)
        for k in [43_691u16, 43_692, 43_693, 65_535] {
            if quick && (k == 43_691 || k == 43_693) {
                continue;
            }
            v.push(Scn { name: format!("{} idle, client keep-alive {k} (1.5x overflows 16 bits)", role.name()), role, cfg: base(&|c| c.keep_alive = k), raw: false, busy: false, client_send_ack_ms: None, timeline: vec![], observe_ms: 5500, expect: Expect::Alive, bp_first: false, live_gap: None });
        }
        // the handshake service switches the keep-alive timer off (0) on a listener whose I/O
        // configuration carries a keep-alive of its own: what the handshake says is in force
        // (MQTT 5: HandshakeAck::keep_alive() does not take 0)
        if role == Role::V3Server {
            v.push(Scn { name: format!("{} idle, client keep-alive 1, handshake switches keep-alive off, io-level keep-alive 2", role.name()), role, cfg: base(&|c| { c.keep_alive = 1; c.hs.keepalive = Some(0); c.io_keepalive = Some(2); }), raw: false, busy: false, client_send_ack_ms: None, timeline: vec![], observe_ms: 6000, expect: Expect::Alive, bp_first: false, live_gap: None });
        }
        // ... and the other way round: the negotiated value, not the I/O layer's, is in force
        v.push(Scn { name: format!("{} idle, client keep-alive 2, io-level keep-alive 20", role.name()), role, cfg: base(&|c| { c.keep_alive = 2; c.io_keepalive = Some(20); }), raw: false, busy: false, client_send_ack_ms: None, timeline: vec![], observe_ms: ((3.0 + LATE + 1.0) * 1000.0) as u64, expect: Expect::KeepAlive { timeout: 3.0 }, bp_first: false, live_gap: None });
        // an earlier write back-pressure episode changes nothing about how the idle connection ends
        v.push(Scn { name: format!("{} idle after a write back-pressure episode, client keep-alive 2", role.name()), role, cfg: base(&|c| { c.keep_alive = 2; c.write_buf = Some((256, 64)); }), raw: false, busy: false, client_send_ack_ms: None, timeline: vec![], observe_ms: ((3.0 + LATE + 1.0) * 1000.0) as u64, expect: Expect::KeepAlive { timeout: 3.0 }, bp_first: true, live_gap: None });
        // one complete PINGREQ per second, but every segment ends with the first byte of the next
        // packet: packet boundaries never coincide with segment boundaries
        {
            let ping = refcodec::encode(ver, &R::PingReq).unwrap();
            let mut tl = vec![(200u64, Act::Send { bytes: ping[..1].to_vec(), completes: false })];
            for i in 1..=6u64 {
                tl.push((200 + i * 1000, Act::Send { bytes: vec![ping[1], ping[0]], completes: true }));
            }
            v.push(Scn { name: format!("{} handshake imposes 2, a PINGREQ every second in segments that straddle packet boundaries", role.name()), role, cfg: base(&|c| { c.keep_alive = 10; c.hs.keepalive = Some(2); }), raw: false, busy: false, client_send_ack_ms: None, timeline: tl, observe_ms: 6900, expect: Expect::Alive, bp_first: false, live_gap: Some(2.0 - EARLY) });
        }
        // keep-alive 0: the 30 s default does not fire within the observation
        v.push(Scn { name: format!("{} idle, client keep-alive 0", role.name()), role, cfg: base(&|c| c.keep_alive = 0), raw: false, busy: false, client_send_ack_ms: None, timeline: vec![], observe_ms: 6000, expect: Expect::Alive, bp_first: false, live_gap: None });
        // live peers: keep-alive 2 (3 s), a complete packet every 1.5 s, whole or fragmented, idle or busy handlers
        for (frags, busy) in [(1usize, false), (3, false), (1, true), (3, true)] {
            if quick && frags == 3 && busy {
                continue;
            }
            let tl = traffic(ver, 300, 6, 1500, frags, 250);
            let last = tl.last().unwrap().0;
            // ... and the traffic stops: timed out 3 s after the last complete packet
            v.push(Scn {
                name: format!("{} keep-alive 2, packet every 1.5s x6 in {frags} fragment(s), busy={busy}, then silence", role.name()),
                role,
                cfg: base(&|c| c.keep_alive = 2),
                raw: false,
                busy,
                client_send_ack_ms: None,
                timeline: tl,
                observe_ms: last + ((3.0 + LATE + 0.5) * 1000.0) as u64,
                expect: Expect::KeepAlive { timeout: 3.0 },
                bp_first: false,
                live_gap: Some(3.0 - EARLY),
            });
        }
        // live peer while the server itself has paused reading (in-flight limit exhausted by a busy handler)
        {
            let tl = traffic(ver, 300, 7, 1000, 1, 0);
            let last = tl.last().unwrap().0;
            v.push(Scn {
                name: format!("{} keep-alive 2, receive limit 1 exhausted by a busy handler, peer keeps sending PINGREQ every 1s", role.name()),
                role,
                cfg: base(&|c| { c.keep_alive = 2; c.max_receive = 1; c.max_receive_size = 1; }),
                raw: false,
                busy: true,
                client_send_ack_ms: None,
                timeline: tl,
                observe_ms: last + 800,
                expect: Expect::Alive,
                bp_first: false,
                live_gap: Some(3.0 - EARLY),
            });
        }
        // traffic that stops at every phase
        for n in 1..=3u64 {
            if quick && n == 2 {
                continue;
            }
            let tl = traffic(ver, 300, n, 700, 1, 0);
            let last = tl.last().unwrap().0;
            v.push(Scn { name: format!("{} override 2, {n} packet(s) then silence", role.name()), role, cfg: base(&|c| { c.keep_alive = 10; c.hs.keepalive = Some(2); }), raw: false, busy: false, client_send_ack_ms: None, timeline: tl, observe_ms: last + ((2.0 + LATE + 0.5) * 1000.0) as u64, expect: Expect::KeepAlive { timeout: 2.0 }, bp_first: false, live_gap: Some(2.0 - EARLY) });
        }
        // long-lived live connection
        if !quick {
            let tl = traffic(ver, 300, 12, 1400, 2, 300);
            let last = tl.last().unwrap().0;
            v.push(Scn { name: format!("{} keep-alive 2, 12 fragmented packets every 1.4s, stays alive", role.name()), role, cfg: base(&|c| c.keep_alive = 2), raw: false, busy: false, client_send_ack_ms: None, timeline: tl, observe_ms: last + 500, expect: Expect::Alive, bp_first: false, live_gap: Some(3.0 - EARLY) });
        }
        // ---- frame read rate: period 1 s, at least 10 bytes per period, at most 4 s per frame
        // a frame the decoder needs completely (PUBLISH is handed over as soon as its header is in)
        let big = refcodec::encode(ver, &R::Subscribe { pid: 9, props: vec![], filters: (0..8).map(|i| (format!("r/{i}/{}", "x".repeat(44)), 0u8)).collect() }).unwrap();
        let rr = |mt: u16| base(&|c| { c.keep_alive = 30; c.frame_read_rate = Some((1, mt, 10)); });
        // stall right after the first bytes
        v.push(Scn { name: format!("{} read rate: 8 bytes of a frame, then stall", role.name()), role, cfg: rr(4), raw: false, busy: false, client_send_ack_ms: None, timeline: vec![(300, Act::Send { bytes: big[..8].to_vec(), completes: false })], observe_ms: 300 + ((1.0 + LATE + 0.5) * 1000.0) as u64, expect: Expect::ReadTimeout { anchor: 0, after: 1.0 }, bp_first: false, live_gap: None });
        // fast enough, completes within max_timeout
        {
            let frame = refcodec::encode(ver, &R::Subscribe { pid: 8, props: vec![], filters: (0..3).map(|i| (format!("ok/{i}/{}", "y".repeat(40)), 0u8)).collect() }).unwrap();
            let mut tl = Vec::new();
            let chunks: Vec<&[u8]> = frame.chunks(15).collect();
            for (j, ch) in chunks.iter().enumerate() {
                tl.push((300 + j as u64 * 250, Act::Send { bytes: ch.to_vec(), completes: j + 1 == chunks.len() }));
            }
            let last = tl.last().unwrap().0;
            v.push(Scn { name: format!("{} read rate: 60 B/s trickle completes in {:.1}s (< max 4s)", role.name(), (last - 300) as f64 / 1000.0), role, cfg: rr(4), raw: false, busy: false, client_send_ack_ms: None, timeline: tl, observe_ms: last + 1500, expect: Expect::Alive, bp_first: false, live_gap: None });
        }
        // two slow (but fast enough) frames in a row: the accounting of the first one must not
        // leak into the second, shorter one
        {
            let f1 = refcodec::encode(ver, &R::Subscribe { pid: 8, props: vec![], filters: (0..3).map(|i| (format!("ok/{i}/{}", "y".repeat(40)), 0u8)).collect() }).unwrap();
            let f2 = refcodec::encode(ver, &R::Subscribe { pid: 9, props: vec![], filters: (0..2).map(|i| (format!("ok/{i}/{}", "z".repeat(36)), 0u8)).collect() }).unwrap();
            let mut tl = Vec::new();
            let c1: Vec<&[u8]> = f1.chunks(15).collect();
            for (j, ch) in c1.iter().enumerate() {
                tl.push((300 + j as u64 * 250, Act::Send { bytes: ch.to_vec(), completes: j + 1 == c1.len() }));
            }
            let t2 = tl.last().unwrap().0 + 700;
            let c2: Vec<&[u8]> = f2.chunks(25).collect();
            for (j, ch) in c2.iter().enumerate() {
                tl.push((t2 + j as u64 * 600, Act::Send { bytes: ch.to_vec(), completes: j + 1 == c2.len() }));
            }
            let last = tl.last().unwrap().0;
            v.push(Scn { name: format!("{} read rate: a {} B frame at 60 B/s, then a {} B frame at 40 B/s", role.name(), f1.len(), f2.len()), role, cfg: rr(8), raw: false, busy: false, client_send_ack_ms: None, timeline: tl, observe_ms: last + 1500, expect: Expect::Alive, bp_first: false, live_gap: None });
        }
        // too slow from the start: 4 bytes per second
        {
            let mut tl = Vec::new();
            for j in 0..8u64 {
                tl.push((300 + j * 500, Act::Send { bytes: big[(j * 2) as usize..(j * 2 + 2) as usize].to_vec(), completes: false }));
            }
            v.push(Scn { name: format!("{} read rate: 4 B/s trickle (below 10 B/s)", role.name()), role, cfg: rr(4), raw: false, busy: false, client_send_ack_ms: None, timeline: tl, observe_ms: 300 + ((1.0 + LATE + 0.5) * 1000.0) as u64, expect: Expect::ReadTimeout { anchor: 0, after: 1.0 }, bp_first: false, live_gap: None });
        }
        // fast for two periods, then stall: must be ended one period after the stall began
        for mt in [0u16, 6] {
            if quick && mt == 6 {
                continue;
            }
            let mut tl = Vec::new();
            for j in 0..8u64 {
                tl.push((300 + j * 250, Act::Send { bytes: big[(j * 15) as usize..(j * 15 + 15) as usize].to_vec(), completes: false }));
            }
            let last_idx = tl.len() - 1;
            let last = tl.last().unwrap().0;
            v.push(Scn { name: format!("{} read rate (max {mt}): 60 B/s for 2 s, then stall", role.name()), role, cfg: rr(mt), raw: false, busy: false, client_send_ack_ms: None, timeline: tl, observe_ms: last + ((2.0 + LATE + 0.5) * 1000.0) as u64, expect: Expect::ReadTimeout { anchor: last_idx, after: 1.5 }, bp_first: false, live_gap: None });
        }
        // fast but longer than max_timeout: ended by the cap
        if !quick {
            let mut tl = Vec::new();
            for j in 0..26u64 {
                tl.push((300 + j * 250, Act::Send { bytes: big[(j * 15) as usize..(j * 15 + 15) as usize].to_vec(), completes: false }));
            }
            v.push(Scn { name: format!("{} read rate: fast trickle runs into max_timeout 3", role.name()), role, cfg: rr(3), raw: false, busy: false, client_send_ack_ms: None, timeline: tl, observe_ms: 300 + ((3.0 + LATE + 1.0) * 1000.0) as u64, expect: Expect::ReadTimeout { anchor: 0, after: 3.0 }, bp_first: false, live_gap: None });
        }
        // ---- connect timeout 2 s
        for (combined, what, bytes) in [(false, "nothing", 0usize), (false, "5 bytes of CONNECT", 5), (true, "nothing", 0), (true, "5 bytes of CONNECT", 5)] {
            if quick && combined && bytes == 0 {
                continue;
            }
            let cfg = base(&|c| { c.connect_timeout = 2; c.combined = combined; });
            let connect = refcodec::encode(ver, &cfg.peer_connect()).unwrap();
            let tl = if bytes > 0 { vec![(200, Act::Send { bytes: connect[..bytes].to_vec(), completes: false })] } else { vec![] };
            v.push(Scn { name: format!("{}{} connect timeout 2: peer sends {what}", role.name(), if combined { " (combined)" } else { "" }), role, cfg, raw: true, busy: false, client_send_ack_ms: None, timeline: tl, observe_ms: ((2.0 + LATE + 0.5) * 1000.0) as u64, expect: Expect::ConnectTimeout { after: 2.0 }, bp_first: false, live_gap: None });
        }
        {
            // CONNECT completes in time: the connect timer must not fire later
            let cfg = base(&|c| { c.connect_timeout = 2; c.keep_alive = 0; });
            let connect = refcodec::encode(ver, &cfg.peer_connect()).unwrap();
            let tl = vec![(200, Act::Send { bytes: connect[..6].to_vec(), completes: false }), (1200, Act::Send { bytes: connect[6..].to_vec(), completes: true })];
            v.push(Scn { name: format!("{} connect timeout 2: CONNECT completes after 1.2s, then idle", role.name()), role, cfg, raw: true, busy: false, client_send_ack_ms: None, timeline: tl, observe_ms: 5500, expect: Expect::Alive, bp_first: false, live_gap: None });
        }
    }
    for role in [Role::V3Client, Role::V5Client] {
        for k in [1u16, 2] {
            let mut cfg = ConnCfg::new(role);
            cfg.keep_alive = k;
            v.push(Scn { name: format!("{} idle client, keep-alive {k}", role.name()), role, cfg, raw: false, busy: false, client_send_ack_ms: None, timeline: vec![], observe_ms: (3 * k as u64 + 2) * 1000, expect: Expect::ClientPings { period: k as f64 }, bp_first: false, live_gap: None });
        }
        {
            // the send window (1) is full when the first keep-alive tick comes; the client must keep pinging
            let mut cfg = ConnCfg::new(role);
            cfg.keep_alive = 2;
            cfg.max_send = 1;
            if role == Role::V5Client {
                cfg.connack_props = vec![Prop::U16(0x21, 1)];
            }
            v.push(Scn { name: format!("{} client keep-alive 2, send window full across the first tick", role.name()), role, cfg, raw: false, busy: false, client_send_ack_ms: Some(2600), timeline: vec![], observe_ms: 9000, expect: Expect::ClientPings { period: 2.0 }, bp_first: false, live_gap: None });
        }
        let mut cfg = ConnCfg::new(role);
        cfg.keep_alive = 0;
        v.push(Scn { name: format!("{} idle client, keep-alive 0", role.name()), role, cfg, raw: false, busy: false, client_send_ack_ms: None, timeline: vec![], observe_ms: 4000, expect: Expect::NoPings, bp_first: false, live_gap: None });
        if role == Role::V5Client {
            let mut cfg = ConnCfg::new(role);
            cfg.keep_alive = 5;
            cfg.connack_props = vec![Prop::U16(0x13, 1)];
            v.push(Scn { name: "v5/client keep-alive 5, server keep-alive 1 in CONNACK".into(), role, cfg, raw: false, busy: false, client_send_ack_ms: None, timeline: vec![], observe_ms: 5000, expect: Expect::ClientPings { period: 1.0 }, bp_first: false, live_gap: None });
        }
    }
    // thorough: random arrival patterns, keep-alive from the client (2 -> 3 s) or imposed (2 / 3 s)
    if !quick {
        for i in 0..480u64 {
            let role = if i % 2 == 0 { Role::V3Server } else { Role::V5Server };
            let ver = role.ver();
            let mut cfg = ConnCfg::new(role);
            let timeout: f64 = match rng.below(3) {
                0 => {
                    cfg.keep_alive = 2;
                    3.0
                }
                1 => {
                    cfg.keep_alive = 10;
                    cfg.hs.keepalive = Some(2);
                    2.0
                }
                _ => {
                    cfg.keep_alive = 1;
                    cfg.hs.keepalive = Some(3);
                    3.0
                }
            };
            // complete packets at most (timeout - EARLY - 0.8) s apart
            let budget = ((timeout - EARLY - 0.8) * 1000.0) as u64;
            let n = 1 + rng.below(7);
            let mut t = 150 + rng.below(budget / 2);
            let mut tl = Vec::new();
            for _ in 0..n {
                let frags = 1 + rng.below(3) as usize;
                let frag_ms = 80 + rng.below(120);
                let part = traffic(ver, t, 1, 0, frags, frag_ms);
                let spent = (frags as u64 - 1) * frag_ms;
                t = part.last().unwrap().0 + 150 + rng.below(budget - spent - 150);
                tl.extend(part);
            }
            let last = tl.last().unwrap().0;
            v.push(Scn {
                name: format!("{} random pattern #{i}: {n} packets, time-out {timeout}s, then silence", role.name()),
                role,
                cfg,
                raw: false,
                busy: rng.below(3) == 0,
                client_send_ack_ms: None,
                timeline: tl,
                observe_ms: last + ((timeout + LATE + 0.5) * 1000.0) as u64,
                expect: Expect::KeepAlive { timeout },
                bp_first: false,
                live_gap: Some(timeout - EARLY),
            });
        }
    }
    v
}

/// Run timed scenarios, each on a thread of its own, and judge them. `part` is set when another
/// check borrows scenarios (its tag goes into the replay record and the counters).
pub fn run_scns(rep: &Report, opts: &Opts, scns: &[Scn], part: Option<&str>) -> (Vec<serde_json::Value>, Vec<String>) {
    let timings: std::sync::Mutex<Vec<serde_json::Value>> = std::sync::Mutex::new(Vec::new());
    let late: std::sync::Mutex<Vec<String>> = std::sync::Mutex::new(Vec::new());
    let threads = scns.len().clamp(1, 128);
    pool::par_for_n(threads, scns.len() as u64, None, |i| {
        let s = &scns[i as usize];
        let r = exec_with(run_scn(s), 50_000_000, Duration::from_secs(120));
        rep.eval();
        let rj = match part { Some(p) => json!({"name": s.name, "part": p}), None => json!({"name": s.name}) };
        match &r {
            Run::Done(o, _) => {
                rep.distinct(o.sig);
                let kind = format!("{:?}", s.expect);
                rep.count(&format!("{}expect_{}", part.map(|p| format!("{p}_")).unwrap_or_default(), kind.split([' ', '{']).next().unwrap()), 1);
                rep.count("client_pings_observed", o.pings.len() as u64);
                if o.end_s.is_some() {
                    rep.count("connections_ended_by_a_timer", 1);
                }
                rep.sample(8, || json!({"case": rj, "end_s": o.end_s, "pings": o.pings, "log": o.log}));
                timings.lock().unwrap().push(json!({"scenario": s.name, "expect": format!("{:?}", s.expect), "ended_at_s": o.end_s.map(|e| (e * 100.0).round() / 100.0), "pings_at_s": o.pings.iter().map(|e| (e * 100.0).round() / 100.0).collect::<Vec<_>>()}));
                if opts.replay.is_some() || std::env::var("VERIF_VERBOSE").is_ok() {
                    for l in &o.log {
                        println!("{l}");
                    }
                    println!("end {:?} pings {:?} violations {:?}", o.end_s, o.pings, o.violations);
                }
                if let Some(w) = &o.inconclusive {
                    // this scenario decides nothing (the harness missed its own schedule); the
                    // check as a whole is inconclusive only if that happens to many of them
                    rep.count("scenarios_undecided_because_the_harness_was_late", 1);
                    late.lock().unwrap().push(w.clone());
                }
                for (class, what) in &o.violations {
                    rep.violation(Violation { signature: format!("{}: {}", s.name.split(" #").next().unwrap_or(&s.name), class), what: format!("{class} — {what}"), replay: json!({"case": rj, "log": o.log}) });
                }
            }
            Run::Panic(p, tail) => rep.violation(Violation { signature: format!("{}: {}", s.role.name(), p.signature()), what: format!("panic: {} at {} — {}", p.msg, p.location, s.name), replay: json!({"case": rj, "log": tail}) }),
            Run::Livelock(tail) => rep.violation(Violation { signature: format!("{}: live-lock", s.name), what: "never quiescent".into(), replay: json!({"case": rj, "log": tail}) }),
            Run::Watchdog => rep.inconclusive(format!("watchdog {}", s.name)),
        }
        // the runtime's timer wheel lives in thread-locals that do not survive their runtime:
        // every timed scenario gets a brand new thread
        let _ = r.after();
        pool::After::RetireThread
    });
    (timings.into_inner().unwrap(), late.into_inner().unwrap())
}

/// replay of one named scenario on behalf of check `prop` (C20 itself or a check that borrows scenarios)
pub fn replay_named(prop: &str, path: &std::path::Path, seed: u64, name: &str) -> i32 {
    let mut rng = Rng::for_case(seed, "c20", 0);
    let all = scenarios(false, &mut rng);
    let Some(s) = all.iter().find(|s| s.name == name) else {
        println!("scenario {name:?} not found");
        return 2;
    };
    match exec_with(run_scn(s), 50_000_000, Duration::from_secs(120)) {
        Run::Done(o, _) => {
            for l in &o.log {
                println!("{l}");
            }
            println!("end {:?} pings {:?} violations {:?}", o.end_s, o.pings, o.violations);
            if o.inconclusive.is_some() {
                2
            } else if o.violations.is_empty() {
                0
            } else {
                println!("VIOLATION property={prop} replay={}", path.display());
                1
            }
        }
        Run::Watchdog => 2,
        _ => {
            println!("VIOLATION property={prop} replay={}", path.display());
            1
        }
    }
}

pub fn run(opts: &Opts) -> i32 {
    let rep = Report::new(
        opts,
        "exploration",
        "real time, coarse grid: keep-alive from the client's value (1.5x), handshake override, keep-alive 0, live peers with whole and \
         fragmented packets and idle/busy handlers, traffic stopping at every phase, frame read rate (stall, fast, slow, fast-then-stall, cap), \
         connect timeout (nothing / partial CONNECT, plain and combined server, CONNECT completing in time), client PINGREQ cadence \
         (own and server-imposed keep-alive, keep-alive 0); thorough adds random arrival patterns. Windows are anchored at measured send \
         times; tolerance -0.5 s / +3.5 s around the nominal expiry. distinct = distinct boundary-event trace signatures",
    );
    let quick = opts.tier == Tier::Quick;
    let mut rng = Rng::for_case(opts.seed, "c20", 0);
    let mut scns = scenarios(quick, &mut rng);
    if let Some(p) = &opts.replay {
        let v: serde_json::Value = serde_json::from_str(&std::fs::read_to_string(p).expect("replay file")).expect("json");
        let name = v["replay"]["case"]["name"].as_str().unwrap_or("").to_string();
        let all = {
            let mut r2 = Rng::for_case(v["seed"].as_u64().unwrap_or(opts.seed), "c20", 0);
            scenarios(false, &mut r2)
        };
        scns = all.into_iter().filter(|s| s.name == name).collect();
        if scns.is_empty() {
            println!("scenario {name:?} not found");
            return 2;
        }
    }
    rep.extra("scenarios", json!(scns.len()));
    let (timings, late) = run_scns(&rep, opts, &scns, None);
    if late.len() * 10 > scns.len() {
        rep.inconclusive(format!("{} of {} scenarios undecided because the harness was late (machine overloaded?)", late.len(), scns.len()));
    }
    rep.extra("undecided_scenarios", json!(late));
    let mut t = timings;
    t.sort_by_key(|v| v["scenario"].as_str().unwrap_or("").to_string());
    rep.extra("measured", json!(t));
    rep.set_exhaustive(false);
    rep.assume("timer resolution of the runtime is 1 s: expiry is accepted from 0.5 s before to 3.5 s after the nominal time");
    rep.assume("a connection whose client sent keep-alive 0 gets the library's documented 30 s default idle time-out; only 'not within 6 s' is observed");
    rep.require("connections_ended_by_a_timer", 10);
    rep.require("client_pings_observed", 8);
    rep.finish()
}
