//! C14, part 3 — "each completes when its own PUBCOMP arrives", also when the acknowledgement is
//! the last thing the peer writes before it closes the connection: the acknowledgements and the
//! end of the stream are picked up by the library in one turn.
//!
//! For each role, 1..3 concurrent exactly-once sends (optionally with an at-least-once send in
//! between), the peer acknowledging singly or in one write, and the stage at which the peer
//! leaves: right behind the last PUBREC(s) (every receipt whose PUBREC arrived must have been
//! obtained) or right behind the last PUBCOMP(s) (every release() whose PUBCOMP arrived must
//! complete with Ok).
use std::rc::Rc;

use serde_json::json;

use crate::app::{App, Ev, SinkRes};
use crate::conn::{self, ConnCfg, Role};
use crate::explore::{Run, exec};
use crate::pool;
use crate::refcodec::{self, Packet as R, Prop};
use crate::report::{Opts, Report, Violation};
use crate::sink::{Chan, Op, PubSpec, ReceiptCmd, next_op_id};

#[derive(Debug, Clone, Copy)]
pub struct Case {
    pub role: Role,
    pub n: usize,
    /// an at-least-once send between the exactly-once sends
    pub with_q1: bool,
    /// acknowledgements of the last stage: how many are delivered (and settled) before the final
    /// write that is followed by the close
    pub before: usize,
    /// the peer leaves behind the PUBRECs (else behind the PUBCOMPs)
    pub at_pubrec: bool,
    /// the final acknowledgements are written one by one (several writes, no scheduling in
    /// between) or as one buffer
    pub one_write: bool,
}

pub async fn run_case(case: &Case) -> (Vec<(String, String)>, Vec<String>, u64) {
    let app = App::new("c14c");
    let mut cfg = ConnCfg::new(case.role);
    cfg.max_send = 8;
    cfg.peer_receive_max = Some(8);
    if case.role == Role::V5Client {
        cfg.connack_props = vec![Prop::U16(0x21, 8)];
    }
    let mut c = conn::start(&cfg, app.clone()).await;
    let sink = c.sink();
    let v5 = case.role.is_v5();
    let what = format!("{case:?}");
    let mut vio = Vec::new();
    let mut ops: Vec<(Op, Rc<Chan<ReceiptCmd>>, u32)> = Vec::new();
    let mut q1: Option<Op> = None;
    for i in 0..case.n {
        let id = next_op_id();
        let ch = Chan::new();
        let app2 = app.clone();
        let fut = sink.send_qos2(
            &PubSpec::new("c/q2", vec![i as u8 + 1; 4]),
            ch.clone(),
            Rc::new(move |phase, res| {
                app2.log(Ev::SinkRet { op: id, n: if phase == "received" { 1 } else { 2 }, res });
            }),
        );
        let mut o = Op::new(&app, id, "q2", fut);
        o.start();
        ops.push((o, ch, id));
        if case.with_q1 && i == 0 {
            let mut o = Op::new(&app, next_op_id(), "q1", sink.send_qos1(&PubSpec::new("c/q1", vec![9; 3])));
            o.start();
            q1 = Some(o);
        }
    }
    c.settle().await;
    // packet ids as the peer saw them
    let wire = app.wire();
    let mut pids: Vec<u16> = Vec::new();
    for i in 0..case.n {
        match wire.iter().find_map(|(_, p)| if let R::Publish { topic, payload, pid, qos: 2, .. } = p { (topic == "c/q2" && payload.first() == Some(&(i as u8 + 1))).then_some(*pid) } else { None }) {
            Some(Some(p)) => pids.push(p),
            _ => {
                vio.push(("exactly-once PUBLISH did not reach the peer".into(), what.clone()));
                return (vio, app.render(40), 0);
            }
        }
    }
    let code = if v5 { Some(0u8) } else { None };
    let ver = c.peer.ver;
    let enc = move |p: &R| refcodec::encode(ver, p).unwrap();
    let mut checked = 0u64;

    let rec = |p: u16| R::PubRec { pid: p, code, props: None };
    let comp = |p: u16| R::PubComp { pid: p, code, props: None };
    let before = case.before.min(case.n - 1);
    // first-stage acknowledgements in the order of the PUBLISH packets (PUBREC 1, PUBACK, PUBREC 2, ..)
    let mut stage1: Vec<R> = Vec::new();
    for (_, p) in &wire {
        match p {
            R::Publish { qos: 2, pid: Some(p), .. } => stage1.push(rec(*p)),
            R::Publish { qos: 1, pid: Some(p), .. } => stage1.push(R::PubAck { pid: *p, code, props: None }),
            _ => {}
        }
    }
    // ---- PUBREC stage
    if case.at_pubrec {
        let split = stage1.iter().position(|p| matches!(p, R::PubRec { pid, .. } if *pid == pids[before])).unwrap();
        for pk in &stage1[..split] {
            c.peer.send(pk);
            c.settle().await;
        }
        let mut buf = Vec::new();
        for pk in &stage1[split..] {
            app.log_peer(pk);
            if case.one_write {
                buf.extend_from_slice(&enc(pk));
            } else {
                c.peer.write_part(&enc(pk));
            }
        }
        if case.one_write {
            c.peer.write_part(&buf);
        }
        c.peer.close();
        c.settle().await;
        for (i, (o, _, id)) in ops.iter().enumerate() {
            let received = app.count(|e| matches!(e, Ev::SinkRet { op, n: 1, .. } if op == id)) > 0;
            checked += 1;
            if !received {
                vio.push((
                    "receipt not obtained although its own PUBREC arrived (the peer closed right behind it)".into(),
                    format!("send {i} (packet id {}), result {:?} — {what}", pids[i], o.result()),
                ));
            }
        }
        let log = app.render(60);
        for (_, ch, _) in &ops {
            ch.push(ReceiptCmd::Drop);
        }
        c.settle().await;
        drop(q1);
        c.finish().await;
        return (vio, log, checked);
    }
    for pk in &stage1 {
        c.peer.send(pk);
    }
    c.settle().await;
    for (_, ch, _) in &ops {
        ch.push(ReceiptCmd::Release);
    }
    c.settle().await;
    let rels = app.wire().iter().filter(|(_, p)| matches!(p, R::PubRel { .. })).count();
    if rels != case.n {
        vio.push(("release() did not write exactly one PUBREL each".into(), format!("{rels} PUBREL for {} releases — {what}", case.n)));
    }
    // ---- PUBCOMP stage
    for p in &pids[..before] {
        c.peer.send(&comp(*p));
        c.settle().await;
    }
    let mut buf = Vec::new();
    for p in &pids[before..] {
        let pk = comp(*p);
        app.log_peer(&pk);
        if case.one_write {
            buf.extend_from_slice(&enc(&pk));
        } else {
            c.peer.write_part(&enc(&pk));
        }
    }
    if case.one_write {
        c.peer.write_part(&buf);
    }
    c.peer.close();
    c.settle().await;
    for (i, (o, _, _)) in ops.iter().enumerate() {
        checked += 1;
        match o.result() {
            Some(SinkRes::Ok) => {}
            other => vio.push((
                "release() did not complete with Ok although its own PUBCOMP arrived (the peer closed right behind it)".into(),
                format!("send {i} (packet id {}), result {other:?} — {what}", pids[i]),
            )),
        }
    }
    if let Some(o) = &q1 {
        if !matches!(o.result(), Some(r) if r.is_ok()) {
            vio.push(("at-least-once send between exactly-once sends did not complete although it was acknowledged".into(), format!("{:?} — {what}", o.result())));
        }
    }
    let log = app.render(60);
    c.finish().await;
    (vio, log, checked)
}

pub fn run_part(_opts: &Opts, rep: &Report) {
    let mut cases = Vec::new();
    for role in Role::ALL {
        for n in 1..=3usize {
            for with_q1 in [false, true] {
                for before in 0..n {
                    for at_pubrec in [false, true] {
                        for one_write in [false, true] {
                            cases.push(Case { role, n, with_q1, before, at_pubrec, one_write });
                        }
                    }
                }
            }
        }
    }
    pool::par_for(cases.len() as u64, None, |i| {
        let case = cases[i as usize];
        let r = exec(run_case(&case));
        rep.eval();
        match &r {
            Run::Done((v, log, checked), _) => {
                rep.count("last_ack_then_close_cases", 1);
                rep.count("exchanges_checked_with_the_close_right_behind_their_ack", *checked);
                rep.distinct(pool::hash_str(&format!("{case:?}")));
                for (class, what) in v {
                    rep.violation(Violation { signature: format!("{}: {}", case.role.name(), class), what: format!("{class} — {what}"), replay: json!({"close_case": format!("{case:?}"), "log": log}) });
                }
            }
            Run::Panic(p, tail) => rep.violation(Violation { signature: format!("{}: {}", case.role.name(), p.signature()), what: format!("panic: {} at {} — {case:?}", p.msg, p.location), replay: json!({"close_case": format!("{case:?}"), "log": tail}) }),
            Run::Livelock(tail) => rep.violation(Violation { signature: format!("{}: live-lock", case.role.name()), what: format!("never quiescent — {case:?}"), replay: json!({"close_case": format!("{case:?}"), "log": tail}) }),
            Run::Watchdog => rep.inconclusive("watchdog"),
        }
        r.after()
    });
    rep.require("exchanges_checked_with_the_close_right_behind_their_ack", 100);
}
