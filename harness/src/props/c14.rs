//! C14 — concurrent QoS 2 sends complete independently.
//!
//! Exhaustive (stateless DFS) over all orders of: starting 2..3 exactly-once sends (optionally
//! mixed with a QoS 1 send), the peer delivering PUBREC / PUBCOMP (in the order the spec
//! prescribes, singly or batched in one write), and the application releasing or dropping each
//! receipt; random walks for 4 sends. Oracle: per-id automaton over wire + sink-future events
//! (see `sinkwalk`): a receipt is obtained only after its own PUBREC, release() completes only
//! after its own PUBCOMP and never fails on a healthy connection, exactly one PUBREL per receipt.
use serde_json::json;

use super::sinkwalk::{self, CapSource, SenderKind, WalkCfg};
use crate::conn::Role;
use crate::explore::{Choose, Dfs, RandomChoice, Run, exec};
use crate::pool::{self, After, Rng};
use crate::report::{Opts, Report, Tier, Violation};

fn cfg_for(role: Role, script: Vec<SenderKind>, enumerate: bool) -> WalkCfg {
    WalkCfg {
        role,
        cap: 8,
        cap_source: CapSource::Config,
        max_senders: script.len().max(4),
        steps: 64,
        allow_cancel: false,
        allow_backpressure: false,
        allow_qos2: true,
        allow_subscribe: false,
        allow_loops: false,
        allow_ready: false,
        allow_local_failures: false,
        manual_release: true,
        allow_not_ready: false,
        q2_explicit_ids: false,
        partial_progress_pct: 0,
        enumerate,
        script,
    }
}

fn mine(class: &str) -> bool {
    class.contains("QoS 2") || class.contains("PUBREL") || class.contains("release()") || class.contains("UnexpectedRelease")
        || class.contains("sender Q2") || class.contains("connection ended although")
}

pub fn run(opts: &Opts) -> i32 {
    let rep = Report::new(
        opts,
        "exploration",
        "bounded exhaustive: for each of 4 roles and each script of 2..3 sends (Q2,Q2 / Q2,Q2,Q2 / Q2,Q1,Q2 / Q1,Q2,Q2 / Q2,Q2,Q1) \
         every order of {start next send, peer answers the oldest unanswered packet, peer answers all unanswered packets \
         in one write, release receipt i, drop receipt i}; plus seeded random walks with 4 sends and mixed QoS 1 traffic. \
         distinct = distinct boundary-event trace signatures",
    );
    let quick = opts.tier == Tier::Quick;
    use SenderKind::{Q1, Q2};
    let mut scripts: Vec<Vec<SenderKind>> = vec![vec![Q2, Q2], vec![Q2, Q2, Q2], vec![Q2, Q1, Q2], vec![Q1, Q2, Q2], vec![Q2, Q2, Q1]];
    if !quick {
        scripts.push(vec![Q2, Q2, Q2, Q2]);
        scripts.push(vec![Q2, Q1, Q2, Q2]);
    }
    let mut jobs = Vec::new();
    for role in Role::ALL {
        for s in &scripts {
            // send window exactly as large as the number of sends (a release must not need a
            // free slot of its own) and comfortably larger
            jobs.push((role, s.clone(), s.len() as u16));
            jobs.push((role, s.clone(), 8u16));
        }
    }
    let path_budget: u64 = if quick { 200_000 } else { 4_000_000 };
    let complete = std::sync::atomic::AtomicU64::new(0);
    pool::par_for(jobs.len() as u64, None, |j| {
        let (role, script, cap) = jobs[j as usize].clone();
        let mut cfg = cfg_for(role, script.clone(), true);
        cfg.cap = cap;
        let mut dfs = Dfs::new();
        let mut retire = After::Continue;
        loop {
            let cfg2 = cfg.clone();
            // the chooser has to survive the scenario: move it in and out
            let mut d = std::mem::take(&mut dfs);
            let r = exec(async move {
                let o = sinkwalk::walk(&cfg2, &mut d).await;
                (o, d)
            });
            rep.eval();
            match r {
                Run::Done((o, d), _) => {
                    dfs = d;
                    rep.distinct(o.trace_sig);
                    for (k, v) in &o.stats {
                        rep.count(k, *v);
                    }
                    if dfs.paths < 2 && j < 4 {
                        rep.sample(4, || json!({"role": role.name(), "script": format!("{script:?}"), "choices": o.trace, "log_tail": o.log_tail}));
                    }
                    for v in &o.violations {
                        if mine(&v.class) {
                            rep.violation(Violation {
                                signature: format!("{}: {}", role.name(), pool::abstract_numbers(&v.class)),
                                what: format!("{} — {} (script {script:?})", v.class, v.what),
                                replay: sinkwalk::witness(&cfg, &o, json!({"dfs_path": dfs.paths})),
                            });
                        } else {
                            rep.observe("other_property_violations(info)", &pool::abstract_numbers(&v.class));
                        }
                    }
                }
                Run::Panic(p, _ptail) => {
                    rep.violation(Violation { signature: format!("{}: {}", role.name(), p.signature()), what: format!("panic: {} at {}", p.msg, p.location), replay: json!({"role": role.name(), "script": format!("{script:?}")}) });
                    retire = After::RetireThread;
                    break;
                }
                Run::Livelock(_tail) => {
                    rep.violation(Violation { signature: format!("{}: live-lock", role.name()), what: "step budget exhausted".into(), replay: json!({"script": format!("{script:?}")}) });
                    retire = After::RetireThread;
                    break;
                }
                Run::Watchdog => {
                    rep.inconclusive("watchdog");
                    retire = After::RetireThread;
                    break;
                }
            }
            if !dfs.advance() {
                complete.fetch_add(1, std::sync::atomic::Ordering::Relaxed);
                rep.count("scripts_enumerated_completely", 1);
                break;
            }
            if dfs.paths >= path_budget {
                rep.count("scripts_cut_by_path_budget", 1);
                break;
            }
        }
        rep.count("dfs_paths", dfs.paths);
        retire
    });
    let all = complete.load(std::sync::atomic::Ordering::Relaxed) == jobs.len() as u64;
    rep.set_exhaustive(all);
    rep.extra("dfs_jobs", json!(jobs.len()));

    // random walks with 4 sends
    let n = ((if quick { 6_000.0 } else { 400_000.0 }) * opts.scale) as u64;
    pool::par_for(n, None, |i| {
        let mut rng = Rng::for_case(opts.seed, "C14", i);
        let role = *rng.pick(&Role::ALL);
        let mut cfg = cfg_for(role, vec![], false);
        cfg.max_senders = 4 + rng.usize(3);
        cfg.cap = 2 + rng.below(7) as u16;
        cfg.steps = 40;
        cfg.partial_progress_pct = *rng.pick(&[0, 30]);
        cfg.allow_cancel = rng.chance(1, 3);
        cfg.q2_explicit_ids = rng.chance(1, 3);
        let mut ch = RandomChoice::new(rng);
        let cfg2 = cfg.clone();
        let r = exec(async move { sinkwalk::walk(&cfg2, &mut ch).await });
        rep.eval();
        match &r {
            Run::Done(o, _) => {
                rep.distinct(o.trace_sig);
                for (k, v) in &o.stats {
                    rep.count(k, *v);
                }
                for v in &o.violations {
                    if mine(&v.class) {
                        rep.violation(Violation {
                            signature: format!("{}: {}", role.name(), pool::abstract_numbers(&v.class)),
                            what: format!("{} — {}", v.class, v.what),
                            replay: sinkwalk::witness(&cfg, o, json!({"seed": opts.seed, "index": i})),
                        });
                    }
                }
            }
            Run::Panic(p, _ptail) => rep.violation(Violation { signature: format!("{}: {}", role.name(), p.signature()), what: format!("panic: {} at {}", p.msg, p.location), replay: json!({"seed": opts.seed, "index": i}) }),
            Run::Livelock(_tail) => rep.violation(Violation { signature: format!("{}: live-lock", role.name()), what: "step budget exhausted".into(), replay: json!({"seed": opts.seed, "index": i}) }),
            Run::Watchdog => rep.inconclusive("watchdog"),
        }
        r.after()
    });
    super::c14_close::run_part(opts, &rep);
    rep.require("receipts_with_exactly_one_pubrel", 1000);
    rep.require("releases_checked_against_pubcomp", 500);
    rep.require("receipt_drops", 200);
    rep.finish()
}
