//! C12 — inbound concurrency limits hold and never wedge the connection.
//!
//! Bursts of 1..3x limit publishes (QoS 0/1/2, sizes around the byte limit, some delivered in
//! fragments so that the payload streams) against gated handlers, written in one piece or
//! trickled, interleaved with non-publish packets; max_receive in {0,1,2,3,4}, max_receive_size in
//! {0, 64, 65535}; random release orders. Oracle: maximum overlap / byte sum from handler
//! enter/exit events (v3 default middleware, v3 client), DISCONNECT 0x93 exactly when the v5
//! Receive Maximum is exceeded, and completion accounting at final quiescence (every packet sent
//! was handled, every streamed payload was delivered completely).
use serde_json::json;

use crate::app::{App, Ev, GateKind, Outcome, ProtoAnswer, ProtoPlan, PubPlan, ReadMode, StopClass};
use crate::conn::{self, ConnCfg, Role};
use crate::explore::{Choose, RandomChoice, Run, exec};
use crate::pool::{self, After, Rng};
use crate::refcodec::{self, Packet as R};
use crate::report::{Opts, Report, Tier, Violation};

struct Outc {
    violations: Vec<(String, String)>,
    log: Vec<String>,
    sig: u64,
    max_running: u32,
    max_bytes: u64,
    limit: u16,
    size_limit: usize,
    paused_reads_seen: bool,
    exceeded_rm: bool,
    /// from the peer's own point of view (acks it has not seen yet count)
    peer_exceeded: bool,
    sent: usize,
    handled: usize,
    streamed: usize,
    collisions: usize,
}

async fn scenario(role: Role, rng: &mut Rng, ch: &mut dyn Choose, long_completed: bool) -> Outc {
    let app = App::new("c12");
    app.refusals_need_an_ack.set(true);
    let mut cfg = ConnCfg::new(role);
    cfg.max_qos = 2;
    let limit: u16 = *rng.pick(&[0u16, 1, 2, 3, 4]);
    let size_limit: usize = *rng.pick(&[0usize, 64, 65535]);
    cfg.max_receive = limit;
    cfg.max_receive_size = size_limit;
    // MQTT 5 server: the handshake may advertise a Receive Maximum of its own for this connection;
    // the advertised value is the one that counts, whatever the configuration says
    if role == Role::V5Server && limit > 0 && rng.chance(1, 2) {
        cfg.hs.receive_max = Some(limit);
        cfg.max_receive = *rng.pick(&[1u16, 16]);
        if cfg.max_receive == limit {
            cfg.max_receive = limit + 3;
        }
    }
    cfg.min_chunk_size = *rng.pick(&[0u32, 4]);
    cfg.max_payload_buffer = *rng.pick(&[16usize, 32 * 1024]);
    // clients: publishes reach the application either through the protocol service or through a
    // routed resource handler (another way of starting the client, with its own limit plumbing)
    if !role.is_server() && rng.chance(1, 2) {
        cfg.client_resources = vec!["l/t".into()];
    }
    let v5 = role.is_v5();
    let mut c = conn::start(&cfg, app.clone()).await;
    let mut o = Outc { violations: vec![], log: vec![], sig: 0, max_running: 0, max_bytes: 0, limit, size_limit, paused_reads_seen: false, exceeded_rm: false, peer_exceeded: false, sent: 0, handled: 0, streamed: 0, collisions: 0 };
    let code = if v5 { Some(0) } else { None };
    let mut pid: u16 = 100;
    let mut unacked: Vec<u16> = Vec::new(); // QoS>0 publishes whose final ack was not seen yet
    let mut largest_pkt: u64 = 0;
    let mut wire_seen = 0usize;
    let mut payload_lens: Vec<usize> = Vec::new();
    let mut ctl_id: u16 = 30_000;
    let mut ctl_sent = 0usize;
    let mut collisions = 0usize;

    // v5 receive maximum semantics: at most `limit` unacknowledged QoS 1/2 publishes (0 = no limit)
    let enforce_rm = v5 && limit > 0;
    // In "long completed" mode handlers complete at once and exchanges are finished: the count must return to zero
    let n = if long_completed { 6 + rng.usize(40) } else { 1 + rng.usize(3 * limit.max(1) as usize + 1) };
    let stay_within = long_completed || rng.chance(3, 5);

    macro_rules! absorb {
        () => {{
            let wire = app.wire();
            for (_, p) in wire.iter().skip(wire_seen) {
                match p {
                    R::PubAck { pid, .. } => unacked.retain(|x| x != pid),
                    R::PubRec { pid, code, .. } => {
                        if code.unwrap_or(0) >= 0x80 {
                            unacked.retain(|x| x != pid);
                        }
                    }
                    R::PubComp { pid, .. } => unacked.retain(|x| x != pid),
                    _ => {}
                }
            }
            wire_seen = wire.len();
        }};
    }

    for i in 0..n {
        if !app.stops().is_empty() || c.done() {
            break;
        }
        absorb!();
        let mut qos = rng.below(3) as u8;
        if enforce_rm && stay_within && qos > 0 && unacked.len() >= limit as usize {
            // stay within the advertised Receive Maximum: finish something first or fall back to QoS 0
            let gates: Vec<(GateKind, u32)> = app.pending_gates().into_iter().filter(|g| g.0 == GateKind::Pub).collect();
            if let Some(g) = gates.first() {
                app.open_gate(*g, Outcome::Ok);
                c.settle().await;
                absorb!();
                // QoS 2: complete with PUBREL
                for id in unacked.clone() {
                    if app.wire().iter().any(|(_, p)| matches!(p, R::PubRec { pid, .. } if *pid == id)) {
                        app.proto_plans.borrow_mut().push_back(ProtoPlan { gated: false, answer: ProtoAnswer::Ack });
                        c.peer.send(&R::PubRel { pid: id, code, props: None });
                    }
                }
                c.settle().await;
                absorb!();
            }
            if unacked.len() >= limit as usize {
                qos = 0;
            }
        }
        let mut certain_excess_now = false;
        // a stable starting point: nothing unread, nothing runnable
        c.settle().await;
        let stable = c.peer.unread_by_endpoint() == 0;
        let plen = match rng.below(5) {
            0 => 0,
            1 => 30 + rng.usize(60),
            2 => 200 + rng.usize(300),
            _ => 1 + rng.usize(20),
        };
        let id = if qos > 0 {
            pid += 1;
            Some(pid)
        } else {
            None
        };
        let gated = !long_completed && ch.chance(3, 4);
        let read = if rng.chance(1, 4) { ReadMode::Chunks } else { ReadMode::Eager };
        // MQTT 5: now and then the application refuses a message (negative PUBACK / PUBREC, which
        // ends the exchange just as well)
        let outcome = if v5 && !gated && qos > 0 && rng.chance(1, 4) { Outcome::Nack(0x87) } else { Outcome::Ok };
        app.pub_plans.borrow_mut().push_back(PubPlan { read, gated, outcome });
        let pkt = R::Publish { dup: false, qos, retain: false, topic: "l/t".into(), pid: id, props: vec![], payload: vec![i as u8; plen] };
        let bytes = refcodec::encode(c.peer.ver, &pkt).unwrap();
        largest_pkt = largest_pkt.max(bytes.len() as u64);
        if let Some(id) = id {
            unacked.push(id);
            if enforce_rm && unacked.len() > limit as usize {
                o.peer_exceeded = true;
            }
            // the endpoint is *certain* to see an excess only if that many earlier exchanges are
            // still open on its side: handler not finished, or QoS 2 waiting for PUBREL
            let log = app.snapshot();
            let open_on_endpoint = unacked.iter().filter(|u| **u != id).filter(|u| {
                let enter = log.iter().find_map(|(_, e)| if let Ev::PubEnter { call, pid: Some(p), .. } = e { (*p == **u).then_some(*call) } else { None });
                match enter {
                    None => false, // not even delivered yet: the endpoint may process it any time
                    Some(call) => {
                        let exited = log.iter().any(|(_, e)| matches!(e, Ev::PubExit { call: c2, .. } if *c2 == call));
                        let rec = log.iter().any(|(_, e)| matches!(e, Ev::Wire(R::PubRec { pid, code, .. }) if *pid == **u && code.unwrap_or(0) < 0x80));
                        !exited || rec
                    }
                }
            }).count();
            if enforce_rm && stable && open_on_endpoint + 1 > limit as usize {
                certain_excess_now = true;
            }
        }
        payload_lens.push(plen);
        app.log_peer(&pkt);
        o.sent += 1;
        if rng.chance(1, 3) && bytes.len() > 10 {
            // trickle: the payload streams to the handler
            o.streamed += 1;
            // 2..4 fragments: the PUBLISH is announced with the first one, every further one is a
            // payload chunk of its own
            let mut cuts: Vec<usize> = (0..1 + rng.usize(3)).map(|_| 6 + rng.usize(bytes.len() - 8)).collect();
            cuts.sort_unstable();
            cuts.dedup();
            let mut prev = 0;
            for cut in cuts {
                c.peer.write_part(&bytes[prev..cut]);
                prev = cut;
                if ch.chance(1, 2) {
                    c.settle().await;
                }
            }
            c.peer.write_part(&bytes[prev..]);
        } else {
            c.peer.write_part(&bytes);
        }
        if certain_excess_now {
            // the excess must be seen by the endpoint in exactly this state
            c.settle().await;
            if c.peer.unread_by_endpoint() == 0 {
                o.exceeded_rm = true;
            }
        }
        if rng.chance(1, 6) && role.is_server() {
            app.proto_plans.borrow_mut().push_back(ProtoPlan { gated: false, answer: ProtoAnswer::Ack });
            c.peer.send(&R::PingReq);
        }
        // control packets whose size is around the byte limit, behind a protocol handler that may
        // still be busy (they are buffered and count towards the bytes in flight)
        if rng.chance(1, 5) && role.is_server() && !long_completed {
            for _ in 0..1 + rng.usize(2) {
                ctl_id += 1;
                let flen = *rng.pick(&[1usize, 20, 70, 200]);
                app.proto_plans.borrow_mut().push_back(ProtoPlan { gated: ch.chance(1, 2), answer: ProtoAnswer::Ack });
                c.peer.send(&R::Subscribe { pid: ctl_id, props: vec![], filters: vec![("s/".to_string() + &"f".repeat(flen), 0)] });
                ctl_sent += 1;
            }
        }
        if ch.chance(1, 2) {
            c.settle().await;
            if c.peer.unread_by_endpoint() > 0 {
                o.paused_reads_seen = true;
            }
        }
        if long_completed {
            c.settle().await;
            absorb!();
            for id in unacked.clone() {
                if app.wire().iter().any(|(_, p)| matches!(p, R::PubRec { pid, .. } if *pid == id)) {
                    app.proto_plans.borrow_mut().push_back(ProtoPlan { gated: false, answer: ProtoAnswer::Ack });
                    c.peer.send(&R::PubRel { pid: id, code, props: None });
                }
            }
            c.settle().await;
            absorb!();
        } else if ch.chance(1, 4) {
            let gates: Vec<(GateKind, u32)> = app.pending_gates().into_iter().filter(|g| g.0 == GateKind::Pub).collect();
            if !gates.is_empty() {
                let g = gates[ch.pick(gates.len())];
                app.open_gate(g, Outcome::Ok);
                c.settle().await;
            }
        }
    }
    c.settle().await;
    if c.peer.unread_by_endpoint() > 0 {
        o.paused_reads_seen = true;
    }
    // ---- MQTT 5 server: a PUBLISH that takes the identifier of a SUBSCRIBE still being handled is
    // refused (0x91); it is a QoS 1 PUBLISH of the peer like any other (only sent within Receive
    // Maximum) but must not end up counted against Receive Maximum once it has been refused
    if role == Role::V5Server && app.stops().is_empty() && c.peer.unread_by_endpoint() == 0 && (!enforce_rm || unacked.len() + 1 < limit as usize) {
        absorb!();
        let busy: Option<u16> = app.pending_gates().into_iter().filter(|g| g.0 == GateKind::Proto).find_map(|g| {
            app.events().iter().find_map(|(_, e)| if let Ev::ProtoEnter { call, kind: "subscribe", pid: Some(p) } = e { (*call == g.1).then_some(*p) } else { None })
        });
        if let (Some(cid), true) = (busy, enforce_rm && unacked.len() + 1 < limit as usize) {
            c.peer.send(&R::Publish { dup: false, qos: 1, retain: false, topic: "l/dup".into(), pid: Some(cid), props: vec![], payload: vec![0xDD] });
            c.settle().await;
            // refused only if it was read while the SUBSCRIBE was still being handled (reading may
            // be paused by the byte limit); otherwise it is one more ordinary publish
            // (the refusal itself is an ordered response and may still wait behind earlier handlers)
            let refused = c.peer.unread_by_endpoint() == 0 && app.count(|e| matches!(e, Ev::PubEnter { topic, .. } if topic == "l/dup")) == 0;
            if refused {
                collisions += 1;
            } else {
                // not read yet (reading is paused) or accepted: it occupies a place in the peer's
                // window; whether it counts as "sent to a handler" is settled at the end
                unacked.push(cid);
            }
            // afterwards the peer fills its window up to the advertised limit: all of it is accepted
            absorb!();
            while refused && unacked.len() < limit as usize {
                pid += 1;
                app.pub_plans.borrow_mut().push_back(PubPlan { read: ReadMode::Eager, gated: true, outcome: Outcome::Ok });
                let pkt = R::Publish { dup: false, qos: 1, retain: false, topic: "l/t".into(), pid: Some(pid), props: vec![], payload: vec![1, 2] };
                largest_pkt = largest_pkt.max(refcodec::encode(c.peer.ver, &pkt).unwrap().len() as u64);
                c.peer.send(&pkt);
                unacked.push(pid);
                payload_lens.push(2);
                o.sent += 1;
            }
            c.settle().await;
        }
    }
    // ---- release everything in random order; every packet must be handled
    for _ in 0..200 {
        let gates: Vec<(GateKind, u32)> = app.pending_gates().into_iter().filter(|g| matches!(g.0, GateKind::Pub | GateKind::Proto)).collect();
        if gates.is_empty() {
            break;
        }
        let g = gates[ch.pick(gates.len())];
        app.open_gate(g, Outcome::Ok);
        c.settle().await;
    }
    c.settle().await;
    o.max_running = app.pubs_running_max.get();
    o.max_bytes = app.pub_bytes_running_max.get();
    o.handled = app.count(|e| matches!(e, Ev::PubExit { .. }));
    let stops = app.stops();
    let wire = app.wire();
    let disc_93 = wire.iter().any(|(_, p)| matches!(p, R::Disconnect { code: Some(0x93), .. }));

    // (a) overlap limits: v3 server default middleware and v3 client
    let counts_limited = matches!(role, Role::V3Server | Role::V3Client) && limit > 0;
    if counts_limited && o.max_running > limit as u32 {
        o.violations.push((
            format!("more publish handlers executing at once than max_receive ({} > {})", o.max_running, limit),
            format!("max_receive {limit}, max_receive_size {size_limit}"),
        ));
    }
    if role.is_server() && size_limit > 0 && o.max_bytes > size_limit as u64 + largest_pkt {
        o.violations.push((
            format!("bytes of concurrently handled publishes exceed max_receive_size by more than one packet ({} > {} + {})", o.max_bytes, size_limit, largest_pkt),
            format!("max_receive {limit}, max_receive_size {size_limit}"),
        ));
    }
    // (b) v5 receive maximum
    if enforce_rm {
        if o.exceeded_rm {
            let routed_client = !role.is_server() && !cfg.client_resources.is_empty();
            if !(disc_93 && (routed_client || stops.iter().any(|s| s.1 == StopClass::Protocol))) {
                o.violations.push((
                    "peer exceeded the advertised Receive Maximum but was not disconnected with 0x93".into(),
                    format!("Receive Maximum {limit}; stops {stops:?}; DISCONNECT 0x93 on wire: {disc_93}"),
                ));
            }
        } else if !o.peer_exceeded && (disc_93 || stops.iter().any(|s| s.2.contains("3.3.4"))) {
            o.violations.push((
                "peer stayed within the advertised Receive Maximum but was refused with 0x93".into(),
                format!("Receive Maximum {limit}; {} publishes sent; stops {stops:?}", o.sent),
            ));
        }
    }
    o.collisions = collisions;
    // collision publishes that were accepted after all (the SUBSCRIBE had finished when they were read)
    let dup_handled = app.count(|e| matches!(e, Ev::PubEnter { topic, .. } if topic == "l/dup"));
    o.sent += dup_handled;
    for _ in 0..dup_handled {
        payload_lens.push(1);
    }
    {
        // judged from the log: the publish handler ran for the colliding identifier before the
        // SUBSCRIBE handler holding it had finished
        let log = app.snapshot();
        for (s_enter, e) in &log {
            if let Ev::PubEnter { topic, pid: Some(p), .. } = e {
                if topic != "l/dup" {
                    continue;
                }
                let sub_call = log.iter().find_map(|(_, e2)| if let Ev::ProtoEnter { call, kind: "subscribe", pid: Some(q) } = e2 { (q == p).then_some(*call) } else { None });
                let sub_exit = sub_call.and_then(|c2| log.iter().find_map(|(s2, e2)| matches!(e2, Ev::ProtoExit { call, .. } if *call == c2).then_some(*s2)));
                if sub_exit.is_none_or(|x| *s_enter < x) {
                    o.violations.push(("PUBLISH with the identifier of a SUBSCRIBE that is still being handled reached the publish handler".into(), format!("id {p}")));
                }
            }
        }
    }
    // (c) nothing is left unhandled
    // every protocol packet (not PUBLISH) goes through a buffering service of 16 places; a burst
    // beyond that is the wedge listed as an open finding under C04 (DESIGN.md §10.2): a class of its own
    let proto_sent = app.peer_pkts.borrow().iter().filter(|(_, p)| !matches!(p, R::Publish { .. } | R::Connect { .. })).count();
    let burst = if proto_sent > 16 { " (more than 16 protocol packets sent, the connection stops reading)" } else { "" };
    let ctl_handled = app.count(|e| matches!(e, Ev::ProtoExit { .. })) ;
    let ctl_entered = app.count(|e| matches!(e, Ev::ProtoEnter { kind: "subscribe", .. }));
    if stops.is_empty() && !c.done() && ctl_entered != ctl_sent {
        o.violations.push((
            format!("control packets the peer sent were never handled although every handler completed ({ctl_entered} of {ctl_sent}){burst}"),
            format!("max_receive {limit}, max_receive_size {size_limit}, protocol handler results {ctl_handled}, unread bytes at the peer side {}", c.peer.unread_by_endpoint()),
        ));
    }
    if stops.is_empty() && !c.done() {
        if o.handled != o.sent {
            o.violations.push((
                format!("packets the peer sent were never handled although every handler completed ({} of {}){burst}", o.handled, o.sent),
                format!("max_receive {limit}, max_receive_size {size_limit}, unread bytes at the peer side {}", c.peer.unread_by_endpoint()),
            ));
        } else {
            // payload completeness of streamed publishes
            let mut pls: Vec<(u32, usize)> = app.events().iter().filter_map(|(_, e)| if let Ev::PubPayload { call, bytes } = e { Some((*call, bytes.len())) } else { None }).collect();
            // handlers may be invoked in another order than the packets were sent when the
            // receive limit was reached in between; every payload must arrive complete all the same
            let mut pls: Vec<usize> = pls.into_iter().map(|x| x.1).collect();
            pls.sort_unstable();
            let mut want = payload_lens.clone();
            want.sort_unstable();
            if pls != want {
                o.violations.push(("a handler did not receive its complete payload".into(), format!("sent sizes {payload_lens:?}, read sizes {pls:?}")));
            }
        }
    } else if !o.peer_exceeded && !stops.is_empty() {
        o.violations.push(("connection ended although the peer respected every limit".into(), format!("stops {stops:?}")));
    }
    o.sig = app.trace_signature();
    o.log = app.render(60);
    c.finish().await;
    o
}

pub fn run(opts: &Opts) -> i32 {
    let rep = Report::new(
        opts,
        "exploration",
        "seeded random bursts (1..3x limit publishes, QoS 0/1/2, payloads 0..500 bytes, some trickled so that the \
         payload streams) against gated handlers with random release order; max_receive in {0..4} x max_receive_size \
         in {0,64,65535}; v5: bursts that stay within / exceed the advertised Receive Maximum and long sequences of \
         completed QoS 1/2 exchanges; 4 roles. distinct = distinct boundary-event trace signatures",
    );
    let quick = opts.tier == Tier::Quick;
    let n = ((if quick { 30_000.0 } else { 2_000_000.0 }) * opts.scale) as u64;
    pool::par_for(n, None, |i| {
        let mut rng = Rng::for_case(opts.seed, "C12", i);
        let role = *rng.pick(&Role::ALL);
        let long = i % 5 == 0;
        let mut ch = RandomChoice::new(Rng::for_case(opts.seed, "C12-choices", i));
        let r = exec(async move { scenario(role, &mut rng, &mut ch, long).await });
        rep.eval();
        match &r {
            Run::Done(o, st) => {
                rep.distinct(o.sig);
                rep.count("publishes_sent", o.sent as u64);
                rep.count("publishes_handled", o.handled as u64);
                rep.count("publishes_trickled", o.streamed as u64);
                rep.count("publishes_refused_for_the_id_of_a_subscribe_in_progress", o.collisions as u64);
                rep.count("busy_wait_quiescences(info)", st.spins);
                if o.paused_reads_seen {
                    rep.count("scenarios_where_reading_paused", 1);
                }
                if o.exceeded_rm {
                    rep.count("scenarios_exceeding_receive_maximum", 1);
                }
                if long {
                    rep.count("long_completed_sequences", 1);
                }
                if o.limit > 0 && o.max_running == o.limit as u32 {
                    rep.count("scenarios_reaching_max_receive", 1);
                }
                rep.max("max_concurrent_handlers", o.max_running as u64);
                rep.observe("limits", &format!("{}:{}:{}", role.name(), o.limit, o.size_limit));
                if i < 3 {
                    rep.sample(3, || json!({"role": role.name(), "max_receive": o.limit, "max_receive_size": o.size_limit, "log": o.log}));
                }
                for (class, what) in &o.violations {
                    rep.violation(Violation {
                        signature: format!("{}: {}", role.name(), pool::abstract_numbers(class)),
                        what: format!("{class} — {what}"),
                        replay: json!({"role": role.name(), "seed": opts.seed, "index": i, "log": o.log}),
                    });
                }
            }
            Run::Panic(p, tail) => rep.violation(Violation { signature: format!("{}: panic at {} :: {}", role.name(), p.location.rsplit('/').next().unwrap_or("?").split(':').next().unwrap_or("?"), pool::abstract_numbers(&p.msg)), what: format!("panic: {} at {}", p.msg, p.location), replay: json!({"seed": opts.seed, "index": i, "log": tail}) }),
            Run::Livelock(tail) => rep.violation(Violation { signature: format!("{}: live-lock", role.name()), what: "step budget exhausted".into(), replay: json!({"seed": opts.seed, "index": i, "log": tail}) }),
            Run::Watchdog => rep.inconclusive("watchdog"),
        }
        r.after()
    });
    rep.assume("'eventually handled' is judged at final quiescence after every gate was released");
    rep.require("scenarios_where_reading_paused", 200);
    rep.require("scenarios_exceeding_receive_maximum", 100);
    rep.require("scenarios_reaching_max_receive", 500);
    rep.finish()
}
