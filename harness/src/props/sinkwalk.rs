//! Random / enumerated walks over sink users, a spec-conforming acknowledging peer, cancellations
//! and back-pressure toggles. Shared by C05 (window), C13 (no lost wake-ups), C06 and C14.
use std::collections::{HashMap, VecDeque};
use std::rc::Rc;

use serde_json::{Value, json};

use crate::app::{App, Ev, SinkRes, StopClass};
use crate::conn::{self, Conn, ConnCfg, Role};
use crate::explore::Choose;
use crate::refcodec::Packet as R;
use crate::rt;
use crate::sink::{Chan, Op, PubSpec, ReceiptCmd, Sink, next_op_id};

#[derive(Debug, Clone, Copy, PartialEq, Eq)]
pub enum CapSource {
    Config,
    Handshake,
    PeerReceiveMax,
}

#[derive(Debug, Clone)]
pub struct WalkCfg {
    pub role: Role,
    pub cap: u16,
    pub cap_source: CapSource,
    pub max_senders: usize,
    pub steps: usize,
    pub allow_cancel: bool,
    pub allow_backpressure: bool,
    pub allow_qos2: bool,
    pub allow_subscribe: bool,
    pub allow_loops: bool,
    pub allow_ready: bool,
    /// senders that must fail locally (id in use, over-long topic, over peer max packet size)
    pub allow_local_failures: bool,
    /// QoS 2 receipts are released by an explicit action (C14) instead of immediately
    pub manual_release: bool,
    /// the application's inbound service (publish service of servers, protocol service of
    /// clients) may be "not ready" for a while (`Service::ready` pending)
    pub allow_not_ready: bool,
    /// exactly-once sends with caller-chosen ids 1 and 2 among the senders (a send may then fail
    /// locally with "packet id in use"; the exchange that holds the id must not be touched)
    pub q2_explicit_ids: bool,
    /// woken-but-not-yet-polled hazards: after an acknowledgement the next action may follow
    /// without any scheduler round in between
    /// probability (percent) of `rounds(k)` instead of full quiescence after an action
    pub partial_progress_pct: u64,
    /// no bias duplicates in the action list (for exhaustive enumeration)
    pub enumerate: bool,
    /// kinds of senders allowed to start, in order (enumerate mode: started in exactly this order)
    pub script: Vec<SenderKind>,
}

impl WalkCfg {
    pub fn conn_cfg(&self) -> ConnCfg {
        let mut c = ConnCfg::new(self.role);
        c.max_send = 16;
        // where the limit comes from: servers take it from the configuration, from the handshake
        // answer or (v5) from the peer's Receive Maximum; a v3 client only has the configuration,
        // a v5 client only the CONNACK Receive Maximum
        match (self.role, self.cap_source) {
            (Role::V3Client, _) => c.max_send = self.cap,
            (Role::V5Client, _) => c.connack_props = vec![crate::refcodec::Prop::U16(0x21, self.cap)],
            (_, CapSource::Config) => c.max_send = self.cap,
            (_, CapSource::Handshake) => c.hs.max_send = Some(self.cap),
            (Role::V5Server, CapSource::PeerReceiveMax) => c.peer_receive_max = Some(self.cap),
            (_, CapSource::PeerReceiveMax) => c.max_send = self.cap,
        }
        if self.allow_backpressure {
            c.write_buf = Some((256, 64));
        }
        if self.allow_local_failures {
            // v5: the peer announces a Maximum Packet Size of 1000 bytes
            match self.role {
                Role::V5Server => c.peer_max_packet_size = Some(1000),
                Role::V5Client => c.connack_props.push(crate::refcodec::Prop::U32(0x27, 1000)),
                _ => {}
            }
        }
        c
    }
}

#[derive(Debug, Clone, PartialEq, Eq)]
pub enum Pending {
    Pub1(u16),
    Pub2(u16),
    Rel(u16),
    Sub(u16, usize),
    Unsub(u16, usize),
}

/// A peer that answers every packet it receives, correctly and in the order received.
pub struct PeerModel {
    pub ver5: bool,
    pub recv: VecDeque<Pending>,
    seen: usize,
    pub pubs_received: u64,
    pub final_acks_sent: u64,
    pub max_outstanding: u64,
    /// payload -> pid of QoS>0 publishes seen on the wire
    pub pid_of_payload: HashMap<Vec<u8>, u16>,
    pub acks_sent: Vec<(u64, String, u16)>,
    pub duplicate_live_ids: Vec<u16>,
    live_ids: Vec<u16>,
    pub zero_ids: usize,
}

impl PeerModel {
    pub fn new(ver5: bool) -> Self {
        PeerModel {
            ver5,
            recv: VecDeque::new(),
            seen: 0,
            pubs_received: 0,
            final_acks_sent: 0,
            max_outstanding: 0,
            pid_of_payload: HashMap::new(),
            acks_sent: Vec::new(),
            duplicate_live_ids: Vec::new(),
            live_ids: Vec::new(),
            zero_ids: 0,
        }
    }

    pub fn outstanding(&self) -> u64 {
        self.pubs_received - self.final_acks_sent
    }

    /// process packets the endpoint wrote since the last call
    pub fn absorb(&mut self, app: &App) {
        let log = app.events();
        for (_, ev) in log.iter().skip(self.seen) {
            if let Ev::Wire(p) = ev {
                let mut new_id = None;
                match p {
                    R::Publish { qos: 1, pid: Some(id), payload, .. } => {
                        self.recv.push_back(Pending::Pub1(*id));
                        self.pubs_received += 1;
                        self.pid_of_payload.insert(payload.clone(), *id);
                        new_id = Some(*id);
                    }
                    R::Publish { qos: 2, pid: Some(id), payload, .. } => {
                        self.recv.push_back(Pending::Pub2(*id));
                        self.pubs_received += 1;
                        self.pid_of_payload.insert(payload.clone(), *id);
                        new_id = Some(*id);
                    }
                    R::PubRel { pid, .. } => self.recv.push_back(Pending::Rel(*pid)),
                    R::Subscribe { pid, filters, .. } => {
                        self.recv.push_back(Pending::Sub(*pid, filters.len()));
                        new_id = Some(*pid);
                    }
                    R::Unsubscribe { pid, filters, .. } => {
                        self.recv.push_back(Pending::Unsub(*pid, filters.len()));
                        new_id = Some(*pid);
                    }
                    _ => {}
                }
                if let Some(id) = new_id {
                    if id == 0 {
                        self.zero_ids += 1;
                    }
                    if self.live_ids.contains(&id) {
                        self.duplicate_live_ids.push(id);
                    }
                    self.live_ids.push(id);
                }
                if self.outstanding() > self.max_outstanding {
                    self.max_outstanding = self.outstanding();
                }
            }
        }
        self.seen = log.len();
    }

    pub fn note_ack(&mut self, seq: u64, p: &R) {
        let pid = match p {
            R::PubAck { pid, .. } | R::PubRec { pid, .. } | R::PubComp { pid, .. } | R::SubAck { pid, .. } | R::UnsubAck { pid, .. } => *pid,
            _ => 0,
        };
        self.acks_sent.push((seq, p.name().to_string(), pid));
    }

    /// log position at which the peer sent `kind` for `pid` (first occurrence)
    pub fn ack_seq(&self, kind: &str, pid: u16) -> Option<u64> {
        self.acks_sent.iter().find(|(_, k, p)| k == kind && *p == pid).map(|x| x.0)
    }

    pub fn has_unacked(&self) -> bool {
        !self.recv.is_empty()
    }

    /// build the correct acknowledgement for the oldest unanswered packet
    pub fn next_ack(&mut self) -> Option<R> {
        let p = self.recv.pop_front()?;
        let code = if self.ver5 { Some(0) } else { None };
        Some(match p {
            Pending::Pub1(id) => {
                self.final_acks_sent += 1;
                self.live_ids.retain(|x| *x != id);
                R::PubAck { pid: id, code, props: None }
            }
            // MQTT 5: every third PUBREC carries the success code "no matching subscribers"
            // (0x10): the exchange goes on exactly as with 0x00
            Pending::Pub2(id) => R::PubRec { pid: id, code: if self.ver5 && id % 3 == 0 { Some(0x10) } else { code }, props: None },
            Pending::Rel(id) => {
                self.final_acks_sent += 1;
                self.live_ids.retain(|x| *x != id);
                R::PubComp { pid: id, code, props: None }
            }
            Pending::Sub(id, n) => {
                self.live_ids.retain(|x| *x != id);
                R::SubAck { pid: id, props: vec![], codes: vec![0; n] }
            }
            Pending::Unsub(id, n) => {
                self.live_ids.retain(|x| *x != id);
                R::UnsubAck { pid: id, props: vec![], codes: if self.ver5 { vec![0; n] } else { vec![] } }
            }
        })
    }
}

#[derive(Debug, Clone, Copy, PartialEq, Eq)]
pub enum SenderKind {
    /// QoS 1 with a caller-chosen packet id (collisions on purpose)
    Q1Pid(u16),
    /// streamed QoS 1 send (5 bytes) with a caller-chosen packet id that may be in use
    StreamPid(u16),
    /// topic longer than 65535 bytes: must fail locally
    BadTopic,
    /// v5: bigger than the peer's Maximum Packet Size: must fail locally
    TooBig,
    Q1,
    Q2,
    /// exactly-once send with a caller-chosen packet id (collisions with exchanges in progress on purpose)
    Q2Pid(u16),
    LoopQ1,
    ReadyThenQ1,
    Ready,
    Subscribe,
    Unsubscribe,
}

impl SenderKind {
    pub fn is_q2(self) -> bool {
        matches!(self, SenderKind::Q2 | SenderKind::Q2Pid(_))
    }
}

pub struct Sender {
    pub kind: SenderKind,
    pub op: Op,
    pub receipt: Option<Rc<Chan<ReceiptCmd>>>,
    pub receipt_decided: bool,
    pub cancelled: bool,
}

pub struct Violated {
    pub class: String,
    pub what: String,
}

pub struct WalkOutcome {
    pub violations: Vec<Violated>,
    pub trace: Vec<u32>,
    pub log_tail: Vec<String>,
    pub trace_sig: u64,
    pub stats: HashMap<&'static str, u64>,
    pub stopped: Option<(StopClass, String)>,
    pub max_outstanding: u64,
}

fn payload_for(op: u32, n: u32) -> Vec<u8> {
    let mut v = format!("op{op}-{n}-").into_bytes();
    v.resize(96, b'.');
    v
}

fn make_sender(app: &Rc<App>, sink: &Sink, kind: SenderKind, manual_release: bool) -> Sender {
    let id = next_op_id();
    let mut receipt = None;
    let fut: crate::sink::BoxFut<SinkRes> = match kind {
        SenderKind::Q1 => sink.send_qos1(&PubSpec::new("w/q1", payload_for(id, 0))),
        SenderKind::Q1Pid(p) => sink.send_qos1(&PubSpec::new("w/q1p", payload_for(id, 0)).pid(Some(p))),
        SenderKind::StreamPid(p) => {
            let cmds = Chan::new();
            cmds.push(crate::sink::StreamCmd::Chunk(b"12345".to_vec()));
            cmds.push(crate::sink::StreamCmd::DropHandle);
            let (ack, writer) = sink.stream_qos1(&PubSpec::new("w/st", vec![]).pid(Some(p)), 5, cmds, Rc::new(|_, _| {}));
            let _ = ntex_util::spawn(async move {
                let _ = writer.await;
            });
            ack
        }
        SenderKind::BadTopic => sink.send_qos1(&PubSpec::new(&"t".repeat(65_540), payload_for(id, 0))),
        SenderKind::TooBig => {
            let mut pl = payload_for(id, 0);
            pl.resize(2_000, b'#');
            sink.send_qos1(&PubSpec::new("w/big", pl))
        }
        SenderKind::Q2 | SenderKind::Q2Pid(_) => {
            let ch = Chan::new();
            if !manual_release {
                ch.push(ReceiptCmd::Release);
            }
            receipt = Some(ch.clone());
            let app2 = app.clone();
            let pid = if let SenderKind::Q2Pid(p) = kind { Some(p) } else { None };
            sink.send_qos2(
                &PubSpec::new("w/q2", payload_for(id, 0)).pid(pid),
                ch,
                Rc::new(move |phase, res| {
                    app2.log(Ev::SinkRet { op: id, n: if phase == "received" { 1 } else { 2 }, res });
                }),
            )
        }
        SenderKind::LoopQ1 => {
            let sink = sink.clone();
            let app2 = app.clone();
            Box::pin(async move {
                let mut last = SinkRes::Ok;
                for n in 1..=3u32 {
                    app2.log(Ev::SinkCall { op: id, n, what: "loop-q1".into() });
                    last = sink.send_qos1(&PubSpec::new("w/loop", payload_for(id, n))).await;
                    app2.log(Ev::SinkRet { op: id, n, res: last.clone() });
                    if !last.is_ok() {
                        break;
                    }
                }
                last
            })
        }
        SenderKind::ReadyThenQ1 => {
            let sink = sink.clone();
            let app2 = app.clone();
            Box::pin(async move {
                let r = sink.ready().await;
                app2.log(Ev::SinkRet { op: id, n: 1, res: r.clone() });
                if r != SinkRes::Ready(true) {
                    return r;
                }
                sink.send_qos1(&PubSpec::new("w/rdy", payload_for(id, 2))).await
            })
        }
        SenderKind::Ready => sink.ready(),
        SenderKind::Subscribe => sink.subscribe(None, &[("s/+", 1)]),
        SenderKind::Unsubscribe => sink.unsubscribe(None, &["s/+"]),
    };
    Sender { kind, op: Op::new(app, id, &format!("{kind:?}"), fut), receipt, receipt_decided: !manual_release, cancelled: false }
}

/// One walk. Monitors: C05 (peer-side outstanding <= cap after every observation) and C13
/// (at final quiescence, after the peer acknowledged everything, no live sender is blocked).
pub async fn walk(cfg: &WalkCfg, ch: &mut dyn Choose) -> WalkOutcome {
    let app = App::new("walk");
    let ccfg = cfg.conn_cfg();
    let mut c: Conn = conn::start(&ccfg, app.clone()).await;
    let mut out = WalkOutcome {
        violations: vec![],
        trace: vec![],
        log_tail: vec![],
        trace_sig: 0,
        stats: HashMap::new(),
        stopped: None,
        max_outstanding: 0,
    };
    if !c.has_sink() {
        out.violations.push(Violated { class: "harness: no sink after handshake".into(), what: String::new() });
        return out;
    }
    let sink = c.sink();
    let mut pm = PeerModel::new(cfg.role.is_v5());
    let mut senders: Vec<Sender> = Vec::new();
    let mut backpressure = false;
    let mut svc_waiting = false;
    let svc = if cfg.role.is_server() { crate::app::SVC_PUB } else { crate::app::SVC_PROTO };
    let cap = cfg.cap as u64;
    let mut kinds = vec![SenderKind::Q1];
    if cfg.allow_qos2 {
        kinds.push(SenderKind::Q2);
    }
    if cfg.q2_explicit_ids {
        kinds.push(SenderKind::Q2Pid(1));
        kinds.push(SenderKind::Q2Pid(2));
    }
    if cfg.allow_loops {
        kinds.push(SenderKind::LoopQ1);
        kinds.push(SenderKind::LoopQ1);
    }
    if cfg.allow_ready {
        kinds.push(SenderKind::ReadyThenQ1);
        kinds.push(SenderKind::Ready);
    }
    if cfg.allow_local_failures {
        kinds.push(SenderKind::Q1Pid(1));
        kinds.push(SenderKind::Q1Pid(2));
        kinds.push(SenderKind::Q1Pid(65535));
        if !cfg.allow_qos2 {
            // a PUBREL cannot be written while a streamed payload is owed; the combination of
            // exactly-once sends with streamed sends is outside of what C06/C14 quantify over
            kinds.push(SenderKind::StreamPid(1));
            kinds.push(SenderKind::StreamPid(2));
        }
        kinds.push(SenderKind::BadTopic);
        if cfg.role.is_v5() {
            kinds.push(SenderKind::TooBig);
        }
    }
    if cfg.allow_subscribe && !cfg.role.is_server() {
        kinds.push(SenderKind::Subscribe);
        kinds.push(SenderKind::Unsubscribe);
    }
    macro_rules! stat {
        ($k:expr) => {
            *out.stats.entry($k).or_insert(0) += 1
        };
    }
    macro_rules! observe {
        () => {{
            pm.absorb(&app);
            if pm.outstanding() > cap {
                out.violations.push(Violated {
                    class: format!("window exceeded: {} unacknowledged QoS>0 PUBLISH at the peer, limit {}", pm.outstanding(), cap),
                    what: format!("cap source {:?}", cfg.cap_source),
                });
            }
        }};
    }

    let mut after_ack = false;
    for _step in 0..cfg.steps {
        if app.stops().len() > 0 || c.done() {
            break;
        }
        // ---- enabled actions
        #[derive(Debug, Clone, Copy)]
        enum Act {
            Start,
            StartDeferred,
            Ack(usize),
            Cancel(usize),
            BpOn,
            BpOff,
            Release(usize),
            DropReceipt(usize),
            LateStart(usize),
            SvcWait,
            SvcReady,
            /// the peer answers the oldest packet - the PUBREC of sender i - and the application
            /// drops that send future a few scheduler rounds later (received, not yet polled)
            AckThenCancel(usize),
        }
        let mut acts: Vec<Act> = Vec::new();
        if cfg.enumerate {
            if senders.len() < cfg.script.len() {
                acts.push(Act::Start);
            }
            if pm.has_unacked() {
                acts.push(Act::Ack(1));
                if pm.recv.len() >= 2 {
                    acts.push(Act::Ack(pm.recv.len()));
                }
            }
        } else {
            if senders.len() < cfg.max_senders {
                acts.push(Act::Start);
                acts.push(Act::Start);
                if after_ack {
                    // hazard bias: a sender resumes right after an ack, before woken waiters run
                    acts.push(Act::Start);
                    acts.push(Act::Start);
                }
                acts.push(Act::StartDeferred);
            }
            if pm.has_unacked() && !backpressure {
                acts.push(Act::Ack(1));
                acts.push(Act::Ack(1));
                if pm.recv.len() >= 2 {
                    acts.push(Act::Ack(2));
                }
                if pm.recv.len() >= 3 {
                    acts.push(Act::Ack(pm.recv.len()));
                }
            }
        }
        for (i, s) in senders.iter().enumerate() {
            if cfg.allow_cancel && s.op.started() && !s.op.is_done() && !s.cancelled {
                acts.push(Act::Cancel(i));
            }
            if !s.op.started() && !s.cancelled {
                acts.push(Act::LateStart(i));
            }
            if cfg.manual_release && s.kind.is_q2() && !s.receipt_decided && !s.cancelled {
                // only meaningful once PUBREC was delivered (phase "received" logged)
                let received = app.count(|e| matches!(e, Ev::SinkRet { op, n: 1, .. } if *op == s.op.id)) > 0;
                if received {
                    acts.push(Act::Release(i));
                    acts.push(Act::DropReceipt(i));
                }
            }
        }
        if cfg.allow_cancel && !cfg.enumerate && !backpressure {
            if let Some(Pending::Pub2(pid)) = pm.recv.front() {
                if let Some(i) = senders.iter().position(|s| s.kind.is_q2() && s.op.started() && !s.op.is_done() && !s.cancelled && pm.pid_of_payload.get(&payload_for(s.op.id, 0)) == Some(pid)) {
                    acts.push(Act::AckThenCancel(i));
                    acts.push(Act::AckThenCancel(i));
                }
            }
        }
        if cfg.allow_backpressure {
            acts.push(if backpressure { Act::BpOff } else { Act::BpOn });
        }
        if cfg.allow_not_ready {
            acts.push(if svc_waiting { Act::SvcReady } else { Act::SvcWait });
        }
        if acts.is_empty() {
            break;
        }
        let a = acts[ch.pick(acts.len())];
        after_ack = false;
        match a {
            Act::Start | Act::StartDeferred => {
                let kind = if cfg.enumerate { cfg.script[senders.len()] } else { kinds[ch.pick(kinds.len())] };
                let mut s = make_sender(&app, &sink, kind, cfg.manual_release);
                if matches!(a, Act::Start) {
                    s.op.start();
                }
                senders.push(s);
                stat!("senders_started");
            }
            Act::LateStart(i) => {
                senders[i].op.start();
                stat!("late_starts");
            }
            Act::Ack(k) => {
                let mut bytes = Vec::new();
                for _ in 0..k {
                    if let Some(p) = pm.next_ack() {
                        let seq = app.log_peer(&p);
                        pm.note_ack(seq, &p);
                        bytes.extend_from_slice(&crate::refcodec::encode(c.peer.ver, &p).unwrap());
                    }
                }
                c.peer.write_part(&bytes);
                if k > 1 {
                    stat!("batched_acks");
                }
                stat!("ack_writes");
                after_ack = true;
            }
            Act::Cancel(i) => {
                let woken_unpolled = false;
                let _ = woken_unpolled;
                if senders[i].op.cancel() {
                    senders[i].cancelled = true;
                    stat!("cancellations");
                }
            }
            Act::BpOn => {
                c.peer.set_budget(0);
                backpressure = true;
                stat!("backpressure_on");
            }
            Act::BpOff => {
                c.peer.unlimited();
                backpressure = false;
                stat!("backpressure_off");
            }
            Act::AckThenCancel(i) => {
                if let Some(p) = pm.next_ack() {
                    let seq = app.log_peer(&p);
                    pm.note_ack(seq, &p);
                    c.peer.write_part(&crate::refcodec::encode(c.peer.ver, &p).unwrap());
                    stat!("ack_writes");
                }
                rt::rounds(ch.pick(5)).await;
                if senders[i].op.cancel() {
                    senders[i].cancelled = true;
                    stat!("cancellations");
                    stat!("cancellations_right_after_pubrec");
                }
            }
            Act::SvcWait => {
                app.set_ready(svc, crate::app::ReadyMode::Wait);
                svc_waiting = true;
                stat!("service_not_ready_episodes");
            }
            Act::SvcReady => {
                app.set_ready(svc, crate::app::ReadyMode::Ready);
                svc_waiting = false;
            }
            Act::Release(i) => {
                senders[i].receipt.as_ref().unwrap().push(ReceiptCmd::Release);
                senders[i].receipt_decided = true;
                stat!("releases");
            }
            Act::DropReceipt(i) => {
                senders[i].receipt.as_ref().unwrap().push(ReceiptCmd::Drop);
                senders[i].receipt_decided = true;
                stat!("receipt_drops");
            }
        }
        // ---- progress
        if cfg.partial_progress_pct > 0 && ch.chance(cfg.partial_progress_pct, 100) {
            let k = ch.pick(3);
            rt::rounds(k).await;
            stat!("partial_progress_steps");
            c.peer.drain();
        } else {
            c.settle().await;
        }
        observe!();
        if app.count(|e| matches!(e, Ev::CtlEnter { what, .. } if what == "wr(true)")) > 0 {
            out.stats.insert("wr_backpressure_seen", 1);
        }
    }

    // ---- drain: back-pressure off, the peer acknowledges everything it receives
    c.peer.unlimited();
    if cfg.allow_not_ready {
        // the peer resumes reading first, the service becomes ready afterwards
        c.settle().await;
        app.set_ready(svc, crate::app::ReadyMode::Ready);
    }
    for s in senders.iter_mut() {
        if !s.op.started() && !s.cancelled {
            s.op.start();
        }
        if !s.receipt_decided {
            if let Some(r) = &s.receipt {
                r.push(ReceiptCmd::Release);
                s.receipt_decided = true;
            }
        }
    }
    let mut rounds = 0;
    loop {
        c.settle().await;
        observe!();
        if !pm.has_unacked() || rounds > 400 {
            break;
        }
        while let Some(p) = pm.next_ack() {
            let seq = app.log_peer(&p);
            pm.note_ack(seq, &p);
            c.peer.write_part(&crate::refcodec::encode(c.peer.ver, &p).unwrap());
            // one ack per settle keeps "singly" delivery in the drain phase as well
            break;
        }
        rounds += 1;
    }
    // a final probe: after everything settled a fresh QoS 1 send must still work (a sink wedged by
    // an earlier failed send would refuse it)
    if cfg.allow_local_failures && app.stops().is_empty() && !c.done() {
        let id = next_op_id();
        let mut probe = Op::new(&app, id, "final-probe", sink.send_qos1(&PubSpec::new("w/probe", payload_for(id, 0))));
        probe.start();
        for _ in 0..4 {
            c.settle().await;
            pm.absorb(&app);
            while let Some(p) = pm.next_ack() {
                let seq = app.log_peer(&p);
                pm.note_ack(seq, &p);
                c.peer.write_part(&crate::refcodec::encode(c.peer.ver, &p).unwrap());
            }
        }
        c.settle().await;
        match probe.result() {
            Some(r) if r.is_ok() => *out.stats.entry("final_probes_ok").or_insert(0) += 1,
            other => out.violations.push(Violated {
                class: format!("a fresh send fails after earlier sends failed locally: {}", crate::pool::abstract_numbers(&format!("{other:?}"))),
                what: "final probe QoS 1 send on a healthy connection".into(),
            }),
        }
    }
    out.max_outstanding = pm.max_outstanding;
    let stops = app.stops();
    if let Some((_, cl, d)) = stops.first() {
        out.stopped = Some((cl.clone(), d.clone()));
        out.violations.push(Violated {
            class: format!("connection ended although the peer acknowledged every packet correctly and in order ({cl:?})"),
            what: d.clone(),
        });
    } else {
        // C13: nobody may still be blocked
        for s in &senders {
            if !s.cancelled && !s.op.is_done() {
                out.violations.push(Violated {
                    class: format!("sender {:?} still blocked at final quiescence (credit {}, limit {}, back-pressure off)", s.kind, sink.credit(), cap),
                    what: format!("op {} never completed although the peer acknowledged everything it received", s.op.id),
                });
            } else if let Some(r) = s.op.result() {
                let must_fail = matches!(s.kind, SenderKind::BadTopic | SenderKind::TooBig);
                // with caller-chosen ids in play an automatic id may legitimately collide with one of them
                let may_fail = (cfg.allow_local_failures
                    && (matches!(r, SinkRes::ErrIdInUse(_) | SinkRes::ErrStreamingCancelled) || matches!(&r, SinkRes::ErrEncode(e) if e == "ExpectPayload")))
                    || (cfg.q2_explicit_ids && matches!(r, SinkRes::ErrIdInUse(_)));
                if must_fail {
                    if matches!(r, SinkRes::ErrEncode(_) | SinkRes::ErrIdInUse(_)) {
                        *out.stats.entry("local_failures_as_expected").or_insert(0) += 1;
                    } else if !s.cancelled {
                        out.violations.push(Violated {
                            class: format!("send that cannot be encoded did not fail locally ({:?})", s.kind),
                            what: format!("op {} result {r:?}", s.op.id),
                        });
                    }
                } else if may_fail {
                    *out.stats.entry("id_in_use_refusals").or_insert(0) += 1;
                } else if !s.cancelled && !r.is_ok() && r != SinkRes::Dropped {
                    out.violations.push(Violated {
                        class: format!("sender {:?} failed on a healthy connection: {}", s.kind, crate::pool::abstract_numbers(&format!("{r:?}"))),
                        what: format!("op {} result {r:?}", s.op.id),
                    });
                }
            }
        }
        if !pm.duplicate_live_ids.is_empty() || pm.zero_ids > 0 {
            out.violations.push(Violated {
                class: "packet identifier reused while outstanding or zero".into(),
                what: format!("duplicates {:?} zero {}", pm.duplicate_live_ids, pm.zero_ids),
            });
        }
    }
    // ---- C06 / C14: completions must follow the peer's matching acknowledgement
    {
        let log = app.snapshot();
        let seq_of = |f: &dyn Fn(&Ev) -> bool| log.iter().find(|(_, e)| f(e)).map(|x| x.0);
        for s in &senders {
            let id = s.op.id;
            match s.kind {
                SenderKind::Q1 => {
                    if let (Some(pid), Some(done)) = (pm.pid_of_payload.get(&payload_for(id, 0)), seq_of(&|e| matches!(e, Ev::SinkRet { op, n: 0, res } if *op == id && res.is_ok()))) {
                        match pm.ack_seq("PUBACK", *pid) {
                            Some(a) if a < done => *out.stats.entry("completions_checked_against_acks").or_insert(0) += 1,
                            other => out.violations.push(Violated { class: "QoS 1 send completed before its PUBACK was sent by the peer".into(), what: format!("op {id} pid {pid}: completion at {done}, PUBACK at {other:?}") }),
                        }
                    }
                }
                SenderKind::Q2 | SenderKind::Q2Pid(_) => {
                    let Some(pid) = pm.pid_of_payload.get(&payload_for(id, 0)).copied() else { continue };
                    let got_receipt = seq_of(&|e| matches!(e, Ev::SinkRet { op, n: 1, .. } if *op == id));
                    if let Some(r) = got_receipt {
                        match pm.ack_seq("PUBREC", pid) {
                            Some(a) if a < r => *out.stats.entry("completions_checked_against_acks").or_insert(0) += 1,
                            other => out.violations.push(Violated { class: "QoS 2 send returned its receipt before its own PUBREC was sent by the peer".into(), what: format!("op {id} pid {pid}: receipt at {r}, PUBREC at {other:?}") }),
                        }
                        // exactly one PUBREL for this id (released or dropped), if the connection stayed healthy
                        let rels = log.iter().filter(|(_, e)| matches!(e, Ev::Wire(R::PubRel { pid: p, .. }) if *p == pid)).count();
                        if cfg.q2_explicit_ids {
                            // identifiers are reused by later exchanges: judged per identifier below
                        } else if stops.is_empty() && rels != 1 {
                            out.violations.push(Violated { class: format!("{rels} PUBREL packets written for one obtained receipt"), what: format!("op {id} pid {pid}") });
                        } else {
                            *out.stats.entry("receipts_with_exactly_one_pubrel").or_insert(0) += 1;
                        }
                    } else if s.cancelled && pm.ack_seq("PUBREC", pid).is_some() {
                        // the send future was dropped around the arrival of its PUBREC (before the
                        // application saw the receipt): the exchange is completed all the same
                        let rels = log.iter().filter(|(_, e)| matches!(e, Ev::Wire(R::PubRel { pid: p, .. }) if *p == pid)).count();
                        if cfg.q2_explicit_ids {
                        } else if stops.is_empty() && rels != 1 {
                            out.violations.push(Violated { class: format!("{rels} PUBREL packets written for an exactly-once send that was dropped after its PUBREC had arrived"), what: format!("op {id} pid {pid}") });
                        } else {
                            *out.stats.entry("dropped_sends_completed_with_one_pubrel").or_insert(0) += 1;
                        }
                    }
                    if let Some(done) = seq_of(&|e| matches!(e, Ev::SinkRet { op, n: 0, res: SinkRes::Ok } if *op == id)) {
                        match pm.ack_seq("PUBCOMP", pid) {
                            Some(a) if a < done => *out.stats.entry("releases_checked_against_pubcomp").or_insert(0) += 1,
                            other => out.violations.push(Violated { class: "release() completed before its own PUBCOMP was sent by the peer".into(), what: format!("op {id} pid {pid}: completion at {done}, PUBCOMP at {other:?}") }),
                        }
                    }
                }
                _ => {}
            }
        }
    }
    // with caller-chosen identifiers an identifier serves several exchanges one after the other:
    // per identifier, every exchange whose PUBREC the peer sent gets exactly one PUBREL
    if cfg.q2_explicit_ids && stops.is_empty() {
        let log = app.snapshot();
        let mut pids: Vec<u16> = log.iter().filter_map(|(_, e)| if let Ev::Wire(R::Publish { qos: 2, pid: Some(p), .. }) = e { Some(*p) } else { None }).collect();
        pids.sort_unstable();
        pids.dedup();
        for pid in pids {
            let recs = pm.acks_sent.iter().filter(|(_, k, p)| k == "PUBREC" && *p == pid).count();
            let rels = log.iter().filter(|(_, e)| matches!(e, Ev::Wire(R::PubRel { pid: p, .. }) if *p == pid)).count();
            if rels != recs {
                out.violations.push(Violated { class: format!("{rels} PUBREL packets written for {recs} exactly-once exchanges that reached PUBREC with one packet identifier"), what: format!("pid {pid}") });
            } else {
                *out.stats.entry("receipts_with_exactly_one_pubrel").or_insert(0) += recs as u64;
            }
        }
    }
    out.stats.insert("senders", senders.len() as u64);
    out.stats.insert("senders_completed", senders.iter().filter(|s| s.op.is_done() && !s.cancelled).count() as u64);
    out.trace_sig = app.trace_signature();
    out.log_tail = app.render(60);
    c.finish().await;
    out.trace = ch.trace();
    out
}

pub fn witness(cfg: &WalkCfg, o: &WalkOutcome, seed_info: Value) -> Value {
    json!({
        "walk": format!("{cfg:?}"),
        "choices": o.trace,
        "seed": seed_info,
        "log_tail": o.log_tail,
    })
}
