//! C17, part "after the peer has gone": a burst of aliased publishes that is still buffered when
//! the connection is closed, on a server configured to go on handling publishes up to some QoS
//! (`handle_qos_after_disconnect`). Publishes above that QoS are dropped, their alias bindings
//! are not: a later alias-only publish that is still handled must see the latest binding.
use serde_json::json;

use crate::app::{App, Ev, GateKind, Outcome};
use crate::conn::{self, ConnCfg, Role};
use crate::explore::{Run, exec};
use crate::pool;
use crate::refcodec::{Packet as R, Prop};
use crate::report::{Opts, Report, Violation};

#[derive(Debug, Clone, Copy, PartialEq, Eq)]
pub struct Pubk {
    /// 0 = t/a, 1 = t/b, 2 = alias only
    pub topic: u8,
    pub qos: u8,
}

#[derive(Debug, Clone)]
pub struct Case {
    pub after_qos: u8,
    pub pubs: Vec<Pubk>,
    /// the handshake answers only after the peer has closed (everything is handled "after")
    pub slow_handshake: bool,
}

pub async fn run_case(case: &Case) -> (Vec<(String, String)>, usize, usize, Vec<String>) {
    let app = App::new("c17a");
    let mut cfg = ConnCfg::new(Role::V5Server);
    cfg.max_qos = 2;
    cfg.max_topic_alias = 4;
    cfg.handle_qos_after_disconnect = Some(case.after_qos);
    cfg.hs.gated = case.slow_handshake;
    let mut c = conn::start_server_raw(&cfg, app.clone()).await;
    let mut vio = Vec::new();
    let what = format!("{case:?}");
    // CONNECT and the whole burst in one write, then the peer goes away
    let mut bytes = crate::refcodec::encode(c.peer.ver, &cfg.peer_connect()).unwrap();
    app.log_peer(&cfg.peer_connect());
    let mut pid = 10u16;
    for (i, p) in case.pubs.iter().enumerate() {
        pid += 1;
        let topic = match p.topic {
            0 => "t/a",
            1 => "t/b",
            _ => "",
        };
        let pkt = R::Publish { dup: false, qos: p.qos, retain: false, topic: topic.into(), pid: (p.qos > 0).then_some(pid), props: vec![Prop::U16(0x23, 1)], payload: vec![i as u8] };
        app.log_peer(&pkt);
        bytes.extend(crate::refcodec::encode(c.peer.ver, &pkt).unwrap());
    }
    c.peer.write_part(&bytes);
    if !case.slow_handshake {
        // the handshake completes, the burst is still unread when the peer closes
        crate::rt::rounds(3).await;
    }
    c.peer.close();
    c.settle().await;
    app.open_gate((GateKind::Handshake, 0), Outcome::Ok);
    c.settle().await;
    // ---- oracle: reference alias map over everything the peer sent; a publish that reached the
    // handler must carry the topic the map gives at its position
    let mut binding: Option<&str> = None;
    let mut expect: Vec<(u8, String)> = Vec::new(); // (payload marker, resolved topic) for publishes with a resolvable topic
    let mut broken = false;
    for (i, p) in case.pubs.iter().enumerate() {
        match p.topic {
            0 => binding = Some("t/a"),
            1 => binding = Some("t/b"),
            _ => {}
        }
        match binding {
            Some(t) if !broken => expect.push((i as u8, t.to_string())),
            _ => broken = true, // alias used before it was bound: protocol error, nothing after it counts
        }
    }
    let mut compared = 0usize;
    let mut resolved = 0usize;
    for (_, e) in app.events().iter() {
        if let Ev::PubPayload { call, bytes } = e {
            let Some(marker) = bytes.first() else { continue };
            let topic = app.events().iter().find_map(|(_, e2)| if let Ev::PubEnter { call: c2, topic, .. } = e2 { (c2 == call).then(|| topic.clone()) } else { None });
            let Some(topic) = topic else { continue };
            compared += 1;
            match expect.iter().find(|(m, _)| m == marker) {
                Some((_, want)) => {
                    if case.pubs[*marker as usize].topic == 2 {
                        resolved += 1;
                    }
                    if *want != topic {
                        vio.push(("handler received the wrong topic for an aliased publish handled after the peer had gone".into(), format!("publish #{marker}: handler saw {topic:?}, latest binding is {want:?} — {what}")));
                    }
                }
                None => vio.push(("publish with an unbound alias reached the handler".into(), format!("publish #{marker} topic {topic:?} — {what}"))),
            }
        }
    }
    let log = app.render(40);
    c.finish().await;
    (vio, compared, resolved, log)
}

pub fn run_part(_opts: &Opts, rep: &Report) {
    let mut cases = Vec::new();
    let kinds: Vec<Pubk> = (0..3u8).flat_map(|t| (0..3u8).map(move |q| Pubk { topic: t, qos: q })).collect();
    for after_qos in [0u8, 1] {
        for slow_handshake in [true, false] {
            for a in &kinds {
                for b in &kinds {
                    for c in &kinds {
                        cases.push(Case { after_qos, pubs: vec![*a, *b, *c], slow_handshake });
                    }
                }
            }
        }
    }
    pool::par_for(cases.len() as u64, None, |i| {
        let case = &cases[i as usize];
        let r = exec(run_case(case));
        rep.eval();
        match &r {
            Run::Done((v, compared, resolved, log), _) => {
                rep.count("after_disconnect_cases", 1);
                rep.count("after_disconnect_handler_invocations_compared", *compared as u64);
                rep.count("after_disconnect_publishes_resolved_through_an_alias", *resolved as u64);
                for (class, what) in v {
                    rep.violation(Violation { signature: format!("v5/server/after-disconnect: {class}"), what: format!("{class} — {what}"), replay: json!({"after_case": format!("{case:?}"), "log": log}) });
                }
            }
            Run::Panic(p, tail) => rep.violation(Violation { signature: format!("v5/server/after-disconnect: {}", p.signature()), what: format!("panic: {} at {} — {case:?}", p.msg, p.location), replay: json!({"after_case": format!("{case:?}"), "log": tail}) }),
            Run::Livelock(tail) => rep.violation(Violation { signature: "v5/server/after-disconnect: live-lock".into(), what: format!("never quiescent — {case:?}"), replay: json!({"after_case": format!("{case:?}"), "log": tail}) }),
            Run::Watchdog => rep.inconclusive("watchdog"),
        }
        r.after()
    });
    rep.require("after_disconnect_publishes_resolved_through_an_alias", 50);
}
