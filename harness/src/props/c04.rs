//! C04 — responses leave in the order their requests arrived.
//!
//! N overlapping requests (PUBLISH QoS 1/2, SUBSCRIBE, UNSUBSCRIBE, PINGREQ, AUTH, PUBREL) arrive in
//! one write, N writes or split mid-packet; each handler is pre-opened or gated; the explorer
//! enumerates (DFS, N <= 4/5) or samples every interleaving of "deliver next fragment" and
//! "release gate g" among the handlers that are *currently* entered, with optional write
//! back-pressure episodes. Oracle (`RefRespOrder`): the (type, id) sequence of responses parsed on
//! the peer side is, at every observation, a prefix of the request sequence filtered to
//! response-bearing requests, and equals it at the end.
use std::collections::VecDeque;

use serde_json::json;

use crate::app::{App, Ev, GateKind, Outcome, ProtoPlan, PubPlan, ReadMode, ProtoAnswer};
use crate::conn::{self, ConnCfg, Role};
use crate::explore::{Choose, Dfs, RandomChoice, Run, exec};
use crate::pool::{self, After, Rng};
use crate::refcodec::{self, Packet as R};
use crate::report::{Opts, Report, Tier, Violation};

#[derive(Debug, Clone, Copy, PartialEq, Eq)]
pub enum Req {
    /// QoS 0 PUBLISH: occupies a place in the response queue but produces no packet
    Pub0,
    Pub1,
    Pub2,
    Sub,
    Unsub,
    Ping,
    Auth,
    /// PUBREL for the most recent QoS 2 id whose PUBREC has been seen
    Rel,
    /// MQTT 5: the PUBREL sent last, once more (it may still be in the handler pipeline: both are
    /// answered with a PUBCOMP, the second one possibly "packet identifier not found")
    RelAgain,
}

#[derive(Debug, Clone, Copy, PartialEq, Eq)]
pub enum Shape {
    OneWrite,
    PerPacket,
    SplitMid,
}

#[derive(Debug, Clone)]
pub struct Case {
    pub role: Role,
    pub reqs: Vec<Req>,
    /// bit i = handler of request i completes immediately (no gate)
    pub ready_mask: u32,
    pub shape: Shape,
    pub backpressure: bool,
}

fn resp_key(p: &R) -> Option<(&'static str, u16)> {
    match p {
        R::PubAck { pid, .. } => Some(("PUBACK", *pid)),
        R::PubRec { pid, .. } => Some(("PUBREC", *pid)),
        R::PubComp { pid, .. } => Some(("PUBCOMP", *pid)),
        R::SubAck { pid, .. } => Some(("SUBACK", *pid)),
        R::UnsubAck { pid, .. } => Some(("UNSUBACK", *pid)),
        R::PingResp => Some(("PINGRESP", 0)),
        R::Auth { .. } => Some(("AUTH", 0)),
        _ => None,
    }
}

pub struct Outc {
    pub violations: Vec<(String, String)>,
    pub log: Vec<String>,
    pub sig: u64,
    pub trace: Vec<u32>,
    pub responses: usize,
    pub max_pending_gates: usize,
    pub stopped: bool,
    pub wr_signalled: bool,
}

pub async fn run_case(case: &Case, ch: &mut dyn Choose) -> Outc {
    let app = App::new("c04");
    let mut cfg = ConnCfg::new(case.role);
    cfg.max_qos = 2;
    cfg.max_receive = 64; // far above the overlap generated here
    cfg.max_receive_size = 0;
    if case.backpressure {
        cfg.write_buf = Some((64, 16));
    }
    if !case.role.is_server() {
        cfg.client_resources = vec![];
    }
    let v5 = case.role.is_v5();
    let mut c = conn::start(&cfg, app.clone()).await;
    let mut out = Outc { violations: vec![], log: vec![], sig: 0, trace: vec![], responses: 0, max_pending_gates: 0, stopped: false, wr_signalled: false };

    // plans: publish handlers and protocol handlers are taken in arrival order
    let mut expected: Vec<(&'static str, u16)> = Vec::new();
    let mut bytes_per_req: Vec<Vec<u8>> = Vec::new();
    let mut next_id: u16 = 10;
    let mut q2_ids: VecDeque<u16> = VecDeque::new();
    let mut last_rel: Option<u16> = None;
    for (i, r) in case.reqs.iter().enumerate() {
        let gated = (case.ready_mask >> (i % 32)) & 1 == 0; // (long streams have more than 32 requests)
        next_id += 1;
        let id = next_id;
        let code = if v5 { Some(0) } else { None };
        let pkt = match r {
            Req::Pub0 => {
                app.pub_plans.borrow_mut().push_back(PubPlan { read: ReadMode::Eager, gated, outcome: Outcome::Ok });
                R::Publish { dup: false, qos: 0, retain: false, topic: format!("t/{i}"), pid: None, props: vec![], payload: vec![i as u8; 3] }
            }
            Req::Pub1 | Req::Pub2 => {
                app.pub_plans.borrow_mut().push_back(PubPlan { read: ReadMode::Eager, gated, outcome: Outcome::Ok });
                let q = if *r == Req::Pub1 { 1 } else { 2 };
                if q == 2 {
                    q2_ids.push_back(id);
                }
                expected.push((if q == 1 { "PUBACK" } else { "PUBREC" }, id));
                R::Publish { dup: false, qos: q, retain: false, topic: format!("t/{i}"), pid: Some(id), props: vec![], payload: vec![i as u8; 3] }
            }
            Req::Sub => {
                app.proto_plans.borrow_mut().push_back(ProtoPlan { gated, answer: ProtoAnswer::Ack });
                expected.push(("SUBACK", id));
                R::Subscribe { pid: id, props: vec![], filters: vec![(format!("s/{i}"), 1)] }
            }
            Req::Unsub => {
                app.proto_plans.borrow_mut().push_back(ProtoPlan { gated, answer: ProtoAnswer::Ack });
                expected.push(("UNSUBACK", id));
                R::Unsubscribe { pid: id, props: vec![], filters: vec![format!("s/{i}")] }
            }
            Req::Ping => {
                app.proto_plans.borrow_mut().push_back(ProtoPlan { gated, answer: ProtoAnswer::Ack });
                expected.push(("PINGRESP", 0));
                R::PingReq
            }
            Req::Auth => {
                app.proto_plans.borrow_mut().push_back(ProtoPlan { gated, answer: ProtoAnswer::Ack });
                expected.push(("AUTH", 0));
                R::Auth { code: Some(0x19), props: Some(vec![crate::refcodec::Prop::Str(0x15, "m".into())]) }
            }
            Req::Rel => {
                let Some(id2) = q2_ids.pop_front() else { continue };
                app.proto_plans.borrow_mut().push_back(ProtoPlan { gated, answer: ProtoAnswer::Ack });
                expected.push(("PUBCOMP", id2));
                last_rel = Some(id2);
                R::PubRel { pid: id2, code, props: None }
            }
            Req::RelAgain => {
                let Some(id2) = last_rel.filter(|_| v5) else { continue };
                app.proto_plans.borrow_mut().push_back(ProtoPlan { gated: false, answer: ProtoAnswer::Ack });
                expected.push(("PUBCOMP", id2));
                R::PubRel { pid: id2, code, props: None }
            }
        };
        app.log(Ev::Note(format!("request #{i}: {}", crate::map::brief(&pkt))));
        bytes_per_req.push(refcodec::encode(c.peer.ver, &pkt).unwrap());
    }
    // fragments to deliver
    let mut frags: VecDeque<Vec<u8>> = VecDeque::new();
    match case.shape {
        Shape::OneWrite => frags.push_back(bytes_per_req.concat()),
        Shape::PerPacket => frags.extend(bytes_per_req.iter().cloned()),
        Shape::SplitMid => {
            let all = bytes_per_req.concat();
            // cut in the middle of every packet
            let mut cuts = Vec::new();
            let mut off = 0;
            for b in &bytes_per_req {
                cuts.push(off + b.len() / 2 + 1);
                off += b.len();
            }
            let mut prev = 0;
            for cut in cuts {
                if cut > prev && cut < all.len() {
                    frags.push_back(all[prev..cut].to_vec());
                    prev = cut;
                }
            }
            frags.push_back(all[prev..].to_vec());
        }
    }
    let mut bp_on = false;
    let mut bp_used = false;
    macro_rules! check_prefix {
        () => {{
            let got: Vec<(&'static str, u16)> = app.wire().iter().filter_map(|(_, p)| resp_key(p)).collect();
            out.responses = got.len();
            let n = got.len().min(expected.len());
            if got.len() > expected.len() || got[..n] != expected[..n] {
                out.violations.push((
                    "responses on the wire are not in request order".into(),
                    format!("expected order {:?}, wire has {:?}", expected, got),
                ));
            }
        }};
    }
    let mut steps = 0;
    loop {
        steps += 1;
        if steps > 200 || !app.stops().is_empty() {
            break;
        }
        let gates: Vec<(GateKind, u32)> = app.pending_gates().into_iter().filter(|g| matches!(g.0, GateKind::Pub | GateKind::Proto)).collect();
        out.max_pending_gates = out.max_pending_gates.max(gates.len());
        #[derive(Clone, Copy)]
        enum Act {
            Deliver,
            Release(usize),
            BpOn,
            BpOff,
        }
        let mut acts = Vec::new();
        if !frags.is_empty() {
            acts.push(Act::Deliver);
        }
        for i in 0..gates.len() {
            acts.push(Act::Release(i));
        }
        if case.backpressure {
            if !bp_on && !bp_used {
                acts.push(Act::BpOn);
            }
            if bp_on {
                acts.push(Act::BpOff);
            }
        }
        if acts.is_empty() {
            break;
        }
        match acts[ch.pick(acts.len())] {
            Act::Deliver => {
                let f = frags.pop_front().unwrap();
                c.peer.write_quiet(&f);
            }
            Act::Release(i) => {
                app.open_gate(gates[i], Outcome::Ok);
            }
            Act::BpOn => {
                c.peer.set_budget(0);
                // the application writes while the peer does not read: the write buffer passes its
                // high watermark and the connection task really enters its back-pressure state
                if c.has_sink() {
                    let sink = c.sink();
                    for k in 0..2u8 {
                        let _ = sink.send_qos0(&crate::sink::PubSpec::new("bp/fill", vec![k; 60]));
                    }
                }
                bp_on = true;
                bp_used = true;
            }
            Act::BpOff => {
                c.peer.unlimited();
                bp_on = false;
            }
        }
        c.settle().await;
        check_prefix!();
        if !out.violations.is_empty() {
            break;
        }
    }
    c.peer.unlimited();
    c.settle().await;
    // release whatever is still gated (budget ran out) and compare the final sequence
    for _ in 0..64 {
        if app.open_all(Outcome::Ok) == 0 {
            break;
        }
        c.settle().await;
    }
    check_prefix!();
    out.stopped = !app.stops().is_empty();
    if out.violations.is_empty() {
        if out.stopped {
            out.violations.push(("connection ended during a healthy exchange".into(), format!("{:?}", app.stops())));
        } else if out.responses != expected.len() {
            // protocol packets (everything but PUBLISH) go through a buffering service that holds
            // at most 16 requests; bursts beyond that are a class of their own (DESIGN.md §10.2)
            let protocol_packets = case.reqs.iter().filter(|r| !matches!(r, Req::Pub0 | Req::Pub1 | Req::Pub2)).count();
            out.violations.push((
                if protocol_packets > 16 {
                    "a response is missing at final quiescence (burst with more than 16 protocol packets, the connection stops reading)".to_string()
                } else {
                    "a response is missing at final quiescence".to_string()
                },
                format!("{} of {} responses on the wire; expected {:?}", out.responses, expected.len(), expected),
            ));
        }
    }
    out.wr_signalled = app.count(|e| matches!(e, Ev::CtlEnter { what, .. } if what == "wr(true)")) > 0;
    out.sig = app.trace_signature();
    out.log = app.render(60);
    c.finish().await;
    out.trace = ch.trace();
    out
}

fn kinds_for(role: Role) -> Vec<Req> {
    match role {
        Role::V3Server => vec![Req::Pub0, Req::Pub1, Req::Pub2, Req::Sub, Req::Unsub, Req::Ping],
        Role::V5Server => vec![Req::Pub0, Req::Pub1, Req::Pub2, Req::Sub, Req::Unsub, Req::Ping, Req::Auth],
        _ => vec![Req::Pub0, Req::Pub1, Req::Pub2],
    }
}

pub fn run(opts: &Opts) -> i32 {
    let rep = Report::new(
        opts,
        "exploration",
        "bounded exhaustive: for N <= 3 (quick) / 4 (thorough) requests drawn from {PUBLISH q1, PUBLISH q2, SUBSCRIBE, \
         UNSUBSCRIBE, PINGREQ, AUTH(v5)} (servers) or {PUBLISH q1, q2} (clients), every ready/gated mask, 3 arrival \
         shapes, and every interleaving (DFS) of fragment deliveries and releases of currently entered handlers; \
         plus seeded random long runs (up to 40 requests incl. PUBREL, window of gated handlers, back-pressure \
         episodes). distinct = distinct boundary-event trace signatures",
    );
    let quick = opts.tier == Tier::Quick;
    let max_n = if quick { 3 } else { 4 };
    // ---- exhaustive small cases
    let cases = exhaustive_cases(max_n);
    if let Some(p) = &opts.replay {
        return replay(opts, &cases, p);
    }
    rep.extra("exhaustive_cases", json!(cases.len()));
    let path_cap: u64 = if quick { 300 } else { 20_000 };
    pool::par_for(cases.len() as u64, None, |i| {
        let case = cases[i as usize].clone();
        let mut dfs = Dfs::new();
        let mut after = After::Continue;
        loop {
            let case2 = case.clone();
            let mut d = std::mem::take(&mut dfs);
            let r = exec(async move {
                let o = run_case(&case2, &mut d).await;
                (o, d)
            });
            rep.eval();
            match r {
                Run::Done((o, d), _) => {
                    dfs = d;
                    rep.distinct(o.sig);
                    rep.count("responses_order_checked", o.responses as u64);
                    rep.max("max_overlapping_gated_handlers", o.max_pending_gates as u64);
                    if i % 997 == 0 && dfs.paths == 0 {
                        rep.sample(6, || json!({"case": format!("{case:?}"), "choices": o.trace, "log": o.log}));
                    }
                    for (class, what) in &o.violations {
                        rep.violation(Violation {
                            signature: format!("{}: {}", case.role.name(), pool::abstract_numbers(class)),
                            what: format!("{class} — {what}"),
                            replay: json!({"stream": "exhaustive", "index": i, "case": format!("{case:?}"), "choices": o.trace, "log": o.log}),
                        });
                    }
                }
                Run::Panic(p, _ptail) => {
                    rep.violation(Violation { signature: format!("{}: {}", case.role.name(), p.signature()), what: format!("panic: {} at {}", p.msg, p.location), replay: json!({"case": format!("{case:?}")}) });
                    after = After::RetireThread;
                    break;
                }
                Run::Livelock(_tail) => {
                    rep.violation(Violation { signature: format!("{}: live-lock", case.role.name()), what: "step budget exhausted".into(), replay: json!({"case": format!("{case:?}")}) });
                    after = After::RetireThread;
                    break;
                }
                Run::Watchdog => {
                    rep.inconclusive("watchdog");
                    after = After::RetireThread;
                    break;
                }
            }
            if !dfs.advance() {
                rep.count("cases_enumerated_completely", 1);
                break;
            }
            if dfs.paths >= path_cap {
                rep.count("cases_cut_by_path_cap", 1);
                break;
            }
        }
        rep.count("dfs_paths", dfs.paths.max(1));
        after
    });

    // ---- random long runs
    let n = ((if quick { 6_000.0 } else { 400_000.0 }) * opts.scale) as u64;
    pool::par_for(n, None, |i| {
        let (case, rng) = long_case(opts.seed, i, quick);
        let mut ch = RandomChoice::new(rng);
        let case2 = case.clone();
        let r = exec(async move { run_case(&case2, &mut ch).await });
        rep.eval();
        match &r {
            Run::Done(o, _) => {
                rep.distinct(o.sig);
                rep.count("responses_order_checked", o.responses as u64);
                rep.count("long_runs", 1);
                if case.backpressure {
                    rep.count("runs_with_backpressure_episode", 1);
                }
                rep.count("runs_in_which_write_backpressure_was_signalled", o.wr_signalled as u64);
                rep.max("max_overlapping_gated_handlers", o.max_pending_gates as u64);
                for (class, what) in &o.violations {
                    rep.violation(Violation {
                        signature: format!("{}: {}", case.role.name(), pool::abstract_numbers(class)),
                        what: format!("{class} — {what}"),
                        replay: json!({"stream": "long", "case": format!("{case:?}"), "choices": o.trace, "log": o.log, "seed": opts.seed, "index": i}),
                    });
                }
            }
            Run::Panic(p, _ptail) => rep.violation(Violation { signature: format!("{}: {}", case.role.name(), p.signature()), what: format!("panic: {} at {}", p.msg, p.location), replay: json!({"case": format!("{case:?}"), "seed": opts.seed, "index": i}) }),
            Run::Livelock(tail) => rep.violation(Violation { signature: format!("{}: live-lock", case.role.name()), what: "step budget exhausted: the connection never became quiescent".into(), replay: json!({"stream": "long", "case": format!("{case:?}"), "seed": opts.seed, "index": i, "log": tail}) }),
            Run::Watchdog => rep.inconclusive("watchdog"),
        }
        r.after()
    });
    rep.assume("client roles: the type of the QoS 2 acknowledgement is C03's subject; only order and presence are judged here");
    rep.require("runs_in_which_write_backpressure_was_signalled", 200);
    rep.require("responses_order_checked", 10_000);
    rep.require("cases_enumerated_completely", 500);
    rep.finish()
}

fn long_case(seed: u64, i: u64, quick: bool) -> (Case, Rng) {
    let mut rng = Rng::for_case(seed, "C04-long", i);
    let role = *rng.pick(&Role::ALL);
    let mut kinds = kinds_for(role);
    kinds.push(Req::Rel);
    if role.is_v5() {
        kinds.push(Req::RelAgain);
    }
    let len = 4 + rng.usize(if quick { 16 } else { 36 });
    let reqs: Vec<Req> = (0..len).map(|_| *rng.pick(&kinds)).collect();
    let case = Case { role, reqs, ready_mask: rng.next() as u32, shape: *rng.pick(&[Shape::OneWrite, Shape::PerPacket, Shape::SplitMid]), backpressure: rng.chance(1, 3) };
    (case, rng)
}

fn exhaustive_cases(max_n: usize) -> Vec<Case> {
    let mut cases: Vec<Case> = Vec::new();
    for role in Role::ALL {
        let kinds = kinds_for(role);
        for n in 1..=max_n {
            let total = kinds.len().pow(n as u32);
            for code in 0..total {
                let mut reqs = Vec::new();
                let mut x = code;
                for _ in 0..n {
                    reqs.push(kinds[x % kinds.len()]);
                    x /= kinds.len();
                }
                if n >= 4 && role.is_server() && (code * 7 + n) % 5 != 0 {
                    continue;
                }
                for mask in 0..(1u32 << n) {
                    for shape in [Shape::OneWrite, Shape::PerPacket, Shape::SplitMid] {
                        if n >= 3 && shape == Shape::SplitMid && mask % 3 != 0 {
                            continue;
                        }
                        cases.push(Case { role, reqs: reqs.clone(), ready_mask: mask, shape, backpressure: false });
                    }
                }
            }
        }
    }
    cases
}

fn replay(opts: &Opts, cases: &[Case], path: &std::path::Path) -> i32 {
    let v: serde_json::Value = serde_json::from_str(&std::fs::read_to_string(path).expect("replay file")).expect("json");
    let r = &v["replay"];
    let idx = r["index"].as_u64().unwrap_or(0);
    let choices: Vec<u32> = r["choices"].as_array().map(|a| a.iter().filter_map(|x| x.as_u64().map(|x| x as u32)).collect()).unwrap_or_default();
    let quick = v["tier"].as_str() != Some("thorough");
    let seed = r["seed"].as_u64().unwrap_or(opts.seed);
    let case = if r["stream"].as_str() == Some("long") { long_case(seed, idx, quick).0 } else { cases[idx as usize].clone() };
    println!("replaying {case:?} choices {choices:?}");
    let long_rng = long_case(seed, idx, quick).1;
    let have_choices = r["choices"].is_array();
    let res = if have_choices {
        let mut ch = crate::explore::ReplayChoice::new(choices);
        exec(async move { run_case(&case, &mut ch).await })
    } else {
        let mut ch = RandomChoice::new(long_rng);
        exec(async move { run_case(&case, &mut ch).await })
    };
    match res {
        Run::Done(o, st) => {
            for l in &o.log {
                println!("{l}");
            }
            println!("polls {} violations {:?}", st.polls, o.violations);
            if o.violations.is_empty() {
                println!("replay: no violation");
                0
            } else {
                println!("VIOLATION property=C04 replay={}", path.display());
                1
            }
        }
        Run::Panic(p, _ptail) => {
            println!("panic {} at {}\nVIOLATION property=C04 replay={}", p.msg, p.location, path.display());
            1
        }
        Run::Livelock(tail) => {
            for l in &tail {
                println!("{l}");
            }
            println!("live-lock\nVIOLATION property=C04 replay={}", path.display());
            1
        }
        Run::Watchdog => 2,
    }
}
