//! C03 — each inbound PUBLISH is handled once and acknowledged as its QoS demands.
//!
//! Random histories of 1..12 accepted publishes (distinct ids, QoS 0/1/2, inline or delivered in
//! fragments so that the payload is streamed to the handler), interleaved with PUBREL for QoS 2
//! ids whose PUBREC was seen, PINGREQ and SUBSCRIBE; handler outcomes ok / error / v5 negative ack
//! / v5 explicit reason code, synchronous or gated, gates released in random order; the wire is
//! read before and after every release. Oracle `RefQos`: per message, over the merged log.
use std::collections::HashMap;

use serde_json::json;

use crate::app::{App, Ev, GateKind, Outcome, ProtoAnswer, ProtoPlan, PubPlan, ReadMode, StopClass};
use crate::conn::{self, ConnCfg, Role};
use crate::explore::{Choose, RandomChoice, Run, exec};
use crate::pool::{self, After, Rng};
use crate::refcodec::{self, Packet as R, Prop};
use crate::report::{Opts, Report, Tier, Violation};

#[derive(Debug, Clone)]
struct Msg {
    idx: usize,
    qos: u8,
    pid: Option<u16>,
    topic: String,
    dup: bool,
    retain: bool,
    props: Vec<Prop>,
    payload: Vec<u8>,
    read: ReadMode,
    gated: bool,
    outcome: Outcome,
    sent_seq: u64,
    rel_sent_seq: Option<u64>,
}

struct Outc {
    violations: Vec<(String, String)>,
    log: Vec<String>,
    sig: u64,
    trace: Vec<u32>,
    msgs: usize,
    streamed: usize,
    acks_checked: u64,
    payloads_checked: u64,
    failures_checked: u64,
}

async fn history(role: Role, ch: &mut dyn Choose, rng: &mut Rng) -> Outc {
    let app = App::new("c03");
    let mut cfg = ConnCfg::new(role);
    cfg.max_qos = 2;
    cfg.max_receive = 32;
    cfg.max_receive_size = 0;
    cfg.min_chunk_size = *rng.pick(&[0u32, 4, 64]);
    cfg.max_payload_buffer = *rng.pick(&[8usize, 1024, 32 * 1024]);
    cfg.max_topic_alias = 0;
    let use_resources = !role.is_server() && rng.bool();
    if use_resources {
        cfg.client_resources = vec!["t/a".into(), "t/b".into()];
    }
    let v5 = role.is_v5();
    let mut c = conn::start(&cfg, app.clone()).await;
    let mut o = Outc { violations: vec![], log: vec![], sig: 0, trace: vec![], msgs: 0, streamed: 0, acks_checked: 0, payloads_checked: 0, failures_checked: 0 };
    let n = 1 + ch.pick(if rng.chance(1, 4) { 12 } else { 5 });
    let mut msgs: Vec<Msg> = Vec::new();
    let mut next_pid = 1u16 + rng.below(1000) as u16;
    let code = if v5 { Some(0) } else { None };
    let mut failing_planned = false;

    macro_rules! release_some {
        () => {{
            let gates: Vec<(GateKind, u32)> = app.pending_gates().into_iter().filter(|g| g.0 == GateKind::Pub).collect();
            if !gates.is_empty() {
                let g = gates[ch.pick(gates.len())];
                // outcome of the message that owns this gate: its PubEnter call number
                let out = msgs.iter().find(|m| call_of(&app, m) == Some(g.1)).map(|m| m.outcome.clone()).unwrap_or(Outcome::Ok);
                c.settle().await; // read the wire right before the release
                app.open_gate(g, out);
                c.settle().await;
            }
        }};
    }

    for idx in 0..n {
        if !app.stops().is_empty() || c.done() {
            break;
        }
        // interleave other traffic
        match ch.pick(6) {
            0 => {
                if role.is_server() {
                    app.proto_plans.borrow_mut().push_back(ProtoPlan { gated: false, answer: ProtoAnswer::Ack });
                    c.peer.send(&R::PingReq);
                }
            }
            1 => {
                if role.is_server() {
                    app.proto_plans.borrow_mut().push_back(ProtoPlan { gated: false, answer: ProtoAnswer::Ack });
                    c.peer.send(&R::Subscribe { pid: 60_000 + idx as u16, props: vec![], filters: vec![("x/#".into(), 1)] });
                }
            }
            2 => {
                // PUBREL for a QoS 2 message whose PUBREC has been seen
                let wire = app.wire();
                if let Some(m) = msgs.iter_mut().find(|m| m.qos == 2 && m.rel_sent_seq.is_none() && wire.iter().any(|(_, p)| matches!(p, R::PubRec { pid, code, .. } if Some(*pid) == m.pid && code.unwrap_or(0) < 0x80))) {
                    app.proto_plans.borrow_mut().push_back(ProtoPlan { gated: false, answer: ProtoAnswer::Ack });
                    m.rel_sent_seq = Some(app.len() as u64);
                    c.peer.send(&R::PubRel { pid: m.pid.unwrap(), code, props: None });
                }
            }
            3 => release_some!(),
            _ => {}
        }
        // the publish
        let qos = ch.pick(3) as u8;
        let pid = if qos > 0 {
            next_pid += 1;
            Some(next_pid)
        } else {
            None
        };
        let plen = match rng.below(6) {
            0 => 0,
            1 => 1 + rng.usize(8),
            2 => 60 + rng.usize(80),
            3 => 300 + rng.usize(600),
            _ => 2 + rng.usize(30),
        };
        let mut payload = vec![idx as u8];
        payload.extend(rng.bytes(plen));
        let topic = if use_resources { ["t/a", "t/b"][rng.usize(2)].to_string() } else { format!("t/{}", ["a", "b", "c/d"][rng.usize(3)]) };
        let mut props = Vec::new();
        if v5 {
            if rng.chance(1, 3) {
                props.push(Prop::Str(0x03, "text/plain".into()));
            }
            if rng.chance(1, 3) {
                props.push(Prop::Pair(0x26, "k".into(), format!("v{idx}")));
            }
            if rng.chance(1, 4) {
                props.push(Prop::Bin(0x09, rng.bytes(5)));
            }
            if rng.chance(1, 5) {
                props.push(Prop::Byte(0x01, 1));
            }
        }
        // at most one failing handler per history (the connection ends there)
        let outcome = if !failing_planned && rng.chance(1, 6) {
            failing_planned = true;
            Outcome::Err
        } else if v5 && rng.chance(1, 5) {
            Outcome::Nack(*rng.pick(&[0x80u8, 0x83, 0x87, 0x97]))
        } else if v5 && rng.chance(1, 8) {
            Outcome::AckCode(0x10)
        } else {
            Outcome::Ok
        };
        // a QoS 0 message cannot carry a negative ack: on a server a handler error that the
        // application maps to a negative acknowledgement then ends the connection like any other
        // handler failure (at most one per history); elsewhere it is not generated
        let outcome = if qos == 0 && matches!(outcome, Outcome::Nack(_)) {
            if role.is_server() && !failing_planned {
                failing_planned = true;
                outcome
            } else {
                Outcome::Ok
            }
        } else {
            outcome
        };
        let read = match rng.below(6) {
            0 => ReadMode::Chunks,
            1 if plen < 40 => ReadMode::Abandon,
            // the handler touches the payload only after everything has arrived
            2 => ReadMode::LateAll,
            _ => ReadMode::Eager,
        };
        let gated = ch.chance(1, 2);
        app.pub_plans.borrow_mut().push_back(PubPlan { read: read.clone(), gated, outcome: outcome.clone() });
        let pkt = R::Publish { dup: rng.chance(1, 5) && qos > 0, qos, retain: rng.chance(1, 4), topic: topic.clone(), pid, props: props.clone(), payload: payload.clone() };
        let (dup, retain) = if let R::Publish { dup, retain, .. } = &pkt { (*dup, *retain) } else { (false, false) };
        let bytes = refcodec::encode(c.peer.ver, &pkt).unwrap();
        let sent_seq = app.log_peer(&pkt);
        // delivery: whole, or in fragments (=> streamed payload)
        if ch.chance(1, 2) && bytes.len() > 8 {
            o.streamed += 1;
            let mut off = 0;
            while off < bytes.len() {
                let k = (1 + rng.usize(bytes.len() / 2 + 1)).min(bytes.len() - off);
                c.peer.write_part(&bytes[off..off + k]);
                off += k;
                if ch.chance(2, 3) {
                    c.settle().await;
                }
            }
        } else {
            c.peer.write_part(&bytes);
        }
        msgs.push(Msg { idx, qos, pid, topic, dup, retain, props, payload, read, gated, outcome, sent_seq, rel_sent_seq: None });
        if ch.chance(1, 2) {
            c.settle().await;
        }
        // handlers that read late: the whole packet has been written by now
        if ch.chance(1, 2) {
            c.settle().await;
            for g in app.pending_gates().into_iter().filter(|g| g.0 == GateKind::PubRead) {
                app.open_gate(g, Outcome::Ok);
            }
        }
        if ch.chance(1, 3) {
            release_some!();
        }
    }
    c.settle().await;
    for g in app.pending_gates().into_iter().filter(|g| g.0 == GateKind::PubRead) {
        app.open_gate(g, Outcome::Ok);
    }
    c.settle().await;
    // release everything in random order, reading the wire around each release
    for _ in 0..64 {
        let gates: Vec<(GateKind, u32)> = app.pending_gates().into_iter().filter(|g| g.0 == GateKind::Pub).collect();
        if gates.is_empty() {
            break;
        }
        release_some!();
    }
    // PUBREL for remaining QoS 2 messages
    if app.stops().is_empty() {
        let wire = app.wire();
        let pending: Vec<usize> = msgs.iter().enumerate().filter(|(_, m)| m.qos == 2 && m.rel_sent_seq.is_none() && wire.iter().any(|(_, p)| matches!(p, R::PubRec { pid, code, .. } if Some(*pid) == m.pid && code.unwrap_or(0) < 0x80))).map(|x| x.0).collect();
        for i in pending {
            app.proto_plans.borrow_mut().push_back(ProtoPlan { gated: false, answer: ProtoAnswer::Ack });
            msgs[i].rel_sent_seq = Some(app.len() as u64);
            c.peer.send(&R::PubRel { pid: msgs[i].pid.unwrap(), code, props: None });
            c.settle().await;
        }
    }
    c.settle().await;
    o.msgs = msgs.len();

    // -------------------------------------------------------------------- RefQos
    let log = app.snapshot();
    let stops = app.stops();
    // client roles started through resource handlers have no instrumented control service: the
    // end of the connection is then visible only as completion of the connection task
    let done_seq = log.iter().find_map(|(s, e)| matches!(e, Ev::ConnDone(_)).then_some(*s));
    let has_control_log = role.is_server() || !use_resources;
    let stop_seq = stops.first().map(|s| s.0).or(done_seq).unwrap_or(u64::MAX);
    let mut enters: HashMap<usize, Vec<(u64, u32)>> = HashMap::new(); // msg idx -> (seq, call)
    for (seq, ev) in &log {
        if let Ev::PubEnter { call, .. } = ev {
            // identify the message by the payload marker: first payload byte == idx. The handler
            // logs the payload later; match by order of PubEnter among accepted messages instead
            let k = enters.values().map(|v| v.len()).sum::<usize>();
            let _ = k;
            let _ = (seq, call);
        }
    }
    // PubEnter events come in arrival order; match the i-th PubEnter with the i-th message sent
    let pub_enters: Vec<(u64, u32, &Ev)> = log.iter().filter_map(|(s, e)| if let Ev::PubEnter { call, .. } = e { Some((*s, *call, e)) } else { None }).collect();
    for (i, m) in msgs.iter().enumerate() {
        let Some((enter_seq, call, ev)) = pub_enters.get(i).copied() else {
            if m.sent_seq < stop_seq && stop_seq == u64::MAX {
                o.violations.push(("accepted PUBLISH never reached the publish handler".into(), format!("message #{} {m:?}", m.idx)));
            }
            continue;
        };
        enters.entry(i).or_default().push((enter_seq, call));
        if let Ev::PubEnter { topic, qos, dup, retain, pid, props, .. } = ev {
            if *topic != m.topic || *qos != m.qos || *dup != m.dup || *retain != m.retain || *pid != m.pid || crate::map::normalize(v5, &R::Publish { dup: false, qos: 0, retain: false, topic: String::new(), pid: None, props: props.clone(), payload: vec![] }) != crate::map::normalize(v5, &R::Publish { dup: false, qos: 0, retain: false, topic: String::new(), pid: None, props: m.props.clone(), payload: vec![] }) {
                o.violations.push(("handler saw different topic / flags / properties than were sent".into(), format!("sent {m:?}, handler saw {ev:?}")));
            }
        }
        // payload
        if m.read != ReadMode::Abandon {
            if let Some(bytes) = log.iter().find_map(|(_, e)| if let Ev::PubPayload { call: c2, bytes } = e { (*c2 == call).then_some(bytes) } else { None }) {
                o.payloads_checked += 1;
                if *bytes != m.payload {
                    o.violations.push(("handler read different payload bytes than were sent".into(), format!("message #{}: sent {} bytes, read {} bytes", m.idx, m.payload.len(), bytes.len())));
                }
            }
        }
        let exit = log.iter().find_map(|(s, e)| if let Ev::PubExit { call: c2, outcome } = e { (*c2 == call).then_some((*s, outcome.clone())) } else { None });
        let Some(id) = m.pid else {
            // QoS 0: nothing to acknowledge; a failing handler (plain error, or on a server an error
            // mapped to a negative acknowledgement that cannot be sent) ends the connection
            if let Some((_, Outcome::Err | Outcome::Nack(_))) = &exit {
                o.failures_checked += 1;
                if stop_seq == u64::MAX {
                    o.violations.push(("failure of a QoS 0 handler did not end the connection".into(), format!("message #{} outcome {:?}; stops {stops:?}", m.idx, exit.as_ref().map(|x| &x.1))));
                }
            }
            continue;
        };
        // acks of this message on the wire
        let acks: Vec<(u64, &R)> = log.iter().filter_map(|(s, e)| if let Ev::Wire(p) = e { Some((*s, p)) } else { None }).filter(|(_, p)| matches!(p, R::PubAck { pid, .. } | R::PubRec { pid, .. } | R::PubComp { pid, .. } if *pid == id)).collect();
        let n_ack = acks.iter().filter(|(_, p)| matches!(p, R::PubAck { .. })).count();
        let n_rec = acks.iter().filter(|(_, p)| matches!(p, R::PubRec { .. })).count();
        let n_comp = acks.iter().filter(|(_, p)| matches!(p, R::PubComp { .. })).count();
        let first_ack_seq = acks.iter().filter(|(_, p)| !matches!(p, R::PubComp { .. })).map(|x| x.0).min();
        // no acknowledgement before the handler completed
        if let Some(a) = first_ack_seq {
            match &exit {
                Some((x, _)) if *x < a => {}
                _ => o.violations.push(("acknowledgement written before the handler completed".into(), format!("message #{} id {id}: ack at {a}, handler exit {:?}", m.idx, exit.as_ref().map(|x| x.0)))),
            }
        }
        let reason_of = |p: &R| match p {
            R::PubAck { code, .. } | R::PubRec { code, .. } => code.unwrap_or(0),
            _ => 0,
        };
        match exit {
            None => {
                // handler never finished (connection ended first): no ack at all
                if n_ack + n_rec > 0 {
                    o.violations.push(("message acknowledged although its handler never completed".into(), format!("message #{} id {id}", m.idx)));
                }
            }
            Some((_, Outcome::Err)) => {
                o.failures_checked += 1;
                if n_ack + n_rec > 0 {
                    o.violations.push(("failing handler yielded an acknowledgement".into(), format!("message #{} id {id}: {:?}", m.idx, acks.iter().map(|x| crate::map::brief(x.1)).collect::<Vec<_>>())));
                }
                // which reason the control service is given is C07's subject; here: the connection ends
                let _ = has_control_log;
                if stop_seq == u64::MAX {
                    o.violations.push(("handler failure did not end the connection".into(), format!("stops {stops:?}")));
                }
            }
            Some((exit_seq, outc)) => {
                // the ack may legitimately be missing if the connection ended (another handler failed) first
                let conn_ended_first = stop_seq < u64::MAX && first_ack_seq.is_none();
                let want_code = match outc {
                    Outcome::Nack(c) | Outcome::AckCode(c) => c,
                    _ => 0,
                };
                if m.qos == 1 {
                    if n_rec + n_comp > 0 || n_ack > 1 || (n_ack == 0 && !conn_ended_first) {
                        o.violations.push((format!("QoS 1 message not acknowledged with exactly one PUBACK ({n_ack} PUBACK, {n_rec} PUBREC, {n_comp} PUBCOMP)"), format!("message #{} id {id}, handler exit at {exit_seq}", m.idx)));
                    }
                } else {
                    if n_ack > 0 || n_rec > 1 || (n_rec == 0 && !conn_ended_first) {
                        o.violations.push((format!("QoS 2 message not acknowledged with exactly one PUBREC ({n_ack} PUBACK, {n_rec} PUBREC)"), format!("message #{} id {id}, handler exit at {exit_seq}", m.idx)));
                    }
                    match m.rel_sent_seq {
                        None => {
                            if n_comp > 0 {
                                o.violations.push(("PUBCOMP written without a PUBREL".into(), format!("message #{} id {id}", m.idx)));
                            }
                        }
                        Some(rs) => {
                            let comp_seq = acks.iter().find(|(_, p)| matches!(p, R::PubComp { .. })).map(|x| x.0);
                            if n_comp > 1 || (n_comp == 0 && stop_seq == u64::MAX) || comp_seq.is_some_and(|cs| cs < rs) {
                                o.violations.push((format!("QoS 2 exchange not completed with exactly one PUBCOMP after PUBREL ({n_comp} PUBCOMP)"), format!("message #{} id {id}: PUBREL at {rs}, PUBCOMP at {comp_seq:?}", m.idx)));
                            }
                        }
                    }
                }
                if v5 {
                    if let Some((_, p)) = acks.iter().find(|(_, p)| !matches!(p, R::PubComp { .. })) {
                        if reason_of(p) != want_code {
                            o.violations.push(("acknowledgement carries a different reason code than the application chose".into(), format!("message #{} id {id}: wanted {want_code:#04x}, wire {}", m.idx, crate::map::brief(p))));
                        }
                    }
                }
                o.acks_checked += 1;
            }
        }
    }
    // all traffic in these histories is valid: only a failing handler may end the connection
    let ended = !stops.is_empty() || done_seq.is_some();
    // (a negative acknowledgement for a QoS 0 message cannot be sent: that handler failed, too)
    let qos0_calls: Vec<u32> = log.iter().filter_map(|(_, e)| if let Ev::PubEnter { call, qos: 0, .. } = e { Some(*call) } else { None }).collect();
    let a_handler_failed = log.iter().any(|(_, e)| {
        matches!(e, Ev::PubExit { outcome: Outcome::Err, .. })
            || (!v5 && matches!(e, Ev::PubExit { outcome: Outcome::Nack(_), .. }))
            || matches!(e, Ev::PubExit { call, outcome: Outcome::Nack(_) } if qos0_calls.contains(call))
    });
    if ended && !a_handler_failed {
        o.violations.push((
            "connection ended although the peer only sent valid packets and no handler failed".into(),
            format!("stops {stops:?}; last packets from the peer: {:?}", log.iter().rev().filter_map(|(_, e)| if let Ev::PeerSent(x) = e { Some(x.clone()) } else { None }).take(2).collect::<Vec<_>>()),
        ));
    }
    // handled exactly once: no more handler entries than messages
    if pub_enters.len() > msgs.len() {
        o.violations.push(("more publish-handler invocations than PUBLISH packets".into(), format!("{} invocations for {} messages", pub_enters.len(), msgs.len())));
    }
    // QoS 0: total number of publish acks equals the number of QoS>0 messages at most
    let total_acks = log.iter().filter(|(_, e)| matches!(e, Ev::Wire(R::PubAck { .. } | R::PubRec { .. }))).count();
    let qos_gt0 = msgs.iter().filter(|m| m.qos > 0).count();
    if total_acks > qos_gt0 {
        o.violations.push(("more publish acknowledgements than QoS>0 messages (a QoS 0 message was acknowledged?)".into(), format!("{total_acks} acks for {qos_gt0} QoS>0 messages")));
    }
    o.sig = app.trace_signature();
    o.log = app.render(70);
    c.finish().await;
    o.trace = ch.trace();
    o
}

fn call_of(app: &App, m: &Msg) -> Option<u32> {
    // i-th PubEnter belongs to the i-th message
    app.events().iter().filter_map(|(_, e)| if let Ev::PubEnter { call, .. } = e { Some(*call) } else { None }).nth(m.idx)
}

pub fn run(opts: &Opts) -> i32 {
    let rep = Report::new(
        opts,
        "exploration",
        "seeded random histories of 1..12 accepted publishes (QoS 0/1/2, distinct ids, whole or fragmented delivery => \
         streamed payloads, varied min-chunk / payload-buffer settings) interleaved with PUBREL, PINGREQ, SUBSCRIBE; \
         handler outcome ok / error / v5 negative ack / v5 explicit code, immediate or gated with random release \
         order; 4 roles (clients through the protocol service and through resource handlers). Oracle RefQos per \
         message over the merged wire + handler log. distinct = distinct boundary-event trace signatures",
    );
    let quick = opts.tier == Tier::Quick;
    let n = ((if quick { 30_000.0 } else { 2_500_000.0 }) * opts.scale) as u64;
    pool::par_for(n, None, |i| {
        let mut rng = Rng::for_case(opts.seed, "C03", i);
        let role = *rng.pick(&Role::ALL);
        let mut ch = RandomChoice::new(Rng::for_case(opts.seed, "C03-choices", i));
        let r = exec(async move { history(role, &mut ch, &mut rng).await });
        rep.eval();
        match &r {
            Run::Done(o, st) => {
                rep.distinct(o.sig);
                rep.count("messages", o.msgs as u64);
                rep.count("messages_delivered_in_fragments", o.streamed as u64);
                rep.count("acks_checked", o.acks_checked);
                rep.count("payloads_compared", o.payloads_checked);
                rep.count("handler_failures_checked", o.failures_checked);
                rep.count("busy_wait_quiescences(info)", st.spins);
                rep.observe("roles", role.name());
                if i < 3 {
                    rep.sample(3, || json!({"role": role.name(), "log": o.log}));
                }
                for (class, what) in &o.violations {
                    rep.violation(Violation {
                        signature: format!("{}: {}", role.name(), pool::abstract_numbers(class)),
                        what: format!("{class} — {what}"),
                        replay: json!({"role": role.name(), "seed": opts.seed, "index": i, "log": o.log}),
                    });
                }
            }
            Run::Panic(p, _ptail) => rep.violation(Violation { signature: format!("{}: {}", role.name(), p.signature()), what: format!("panic: {} at {}", p.msg, p.location), replay: json!({"seed": opts.seed, "index": i}) }),
            Run::Livelock(tail) => rep.violation(Violation { signature: format!("{}: live-lock", role.name()), what: "step budget exhausted".into(), replay: json!({"seed": opts.seed, "index": i, "log": tail}) }),
            Run::Watchdog => rep.inconclusive("watchdog"),
        }
        r.after()
    });
    rep.assume("generators stay inside 'accepted': distinct ids among unfinished exchanges, QoS <= max, no wildcard topics, within receive limits");
    rep.require("acks_checked", 5_000);
    rep.require("payloads_compared", 5_000);
    rep.require("handler_failures_checked", 200);
    rep.require("messages_delivered_in_fragments", 2_000);
    rep.finish()
}
