//! C08 — everything written to the wire is a sequence of complete well-formed packets.
//!
//! Random interleavings of sink operations — QoS 0/1/2 sends, streamed sends with arbitrary
//! chunking (exact, short-then-dropped, over-delivery, dropped at once), subscribe/unsubscribe,
//! sends built to fail (over-long topic, QoS 0 with a packet id, over the peer's maximum packet
//! size, packet id in use, any send during streaming) — with inbound requests whose responses
//! are produced while a payload is being streamed, a correctly acknowledging peer, a small write
//! buffer (partial flushes) and close / error endings. Oracle `RefStream`: the complete peer-side
//! byte stream parses, with the reference stream decoder, as a concatenation of complete packets
//! (a truncated last packet only if the endpoint aborted the connection); a send that returned an
//! error did not change the stream; the payload of every completed streamed PUBLISH equals the
//! bytes the application wrote.
use std::collections::HashMap;
use std::rc::Rc;

use serde_json::json;

use super::sinkwalk::PeerModel;
use crate::app::{App, Ev, ProtoAnswer, ProtoPlan, SinkRes};
use crate::conn::{self, ConnCfg, Role};
use crate::explore::{Choose, RandomChoice, Run, exec};
use crate::pool::{self, After, Rng};
use crate::refcodec::Packet as R;
use crate::report::{Opts, Report, Tier, Violation};
use crate::sink::{Chan, Op, PubSpec, ReceiptCmd, StreamCmd, next_op_id};

struct Stream {
    op: u32,
    declared: usize,
    cmds: Rc<Chan<StreamCmd>>,
    written: Vec<u8>,
    writer: Op,
    ack: Option<Op>,
    finished: bool,
    handle_dropped: bool,
    overdelivered: bool,
}

struct Outc {
    violations: Vec<(String, String)>,
    log: Vec<String>,
    sig: u64,
    packets: usize,
    bytes: usize,
    failing_ops_checked: u64,
    streams_completed: u64,
    streams_aborted: u64,
    responses_during_stream: u64,
    truncated_tail_after_abort: u64,
}

fn marker(op: u32, n: usize) -> Vec<u8> {
    let mut v = format!("<op{op}>").into_bytes();
    while v.len() < n {
        v.push(b'a' + (v.len() % 26) as u8);
    }
    v.truncate(n.max(0));
    v
}

async fn scenario(role: Role, rng: &mut Rng, ch: &mut dyn Choose) -> Outc {
    let app = App::new("c08");
    let mut cfg = ConnCfg::new(role);
    // mostly a comfortable send window; a narrow one makes sends (also streamed ones) wait for it
    cfg.max_send = *rng.pick(&[8u16, 8, 2, 1]);
    cfg.max_qos = 2;
    cfg.write_buf = Some((*rng.pick(&[128usize, 512, 16 * 1024]), 64));
    match role {
        Role::V5Server => cfg.peer_max_packet_size = Some(600),
        Role::V5Client => cfg.connack_props = vec![crate::refcodec::Prop::U16(0x21, cfg.max_send), crate::refcodec::Prop::U32(0x27, 600)],
        _ => {}
    }
    let v5 = role.is_v5();
    // MQTT 5: handler acknowledgements carry diagnostics of which some do not fit into the peer's
    // Maximum Packet Size (600 here): a property that is too large followed by ones that fit
    if v5 && rng.chance(1, 2) {
        let big = *rng.pick(&[30usize, 580, 700]);
        let mut ups = vec![("big".to_string(), "x".repeat(big)), ("a".to_string(), "b".to_string())];
        if rng.bool() {
            ups.reverse();
        }
        let reason = rng.bool().then(|| "r".repeat(*rng.pick(&[3usize, 590])));
        *app.ack_decor.borrow_mut() = Some((reason, ups));
    }
    let mut c = conn::start(&cfg, app.clone()).await;
    let mut o = Outc { violations: vec![], log: vec![], sig: 0, packets: 0, bytes: 0, failing_ops_checked: 0, streams_completed: 0, streams_aborted: 0, responses_during_stream: 0, truncated_tail_after_abort: 0 };
    if !c.has_sink() {
        return o;
    }
    let sink = c.sink();
    // non-blocking sends need the publish-ack callback (documented precondition of the API)
    let with_cb = rng.bool();
    if with_cb {
        sink.set_ack_cb(&app);
    }
    let mut pm = PeerModel::new(v5);
    let mut ops: Vec<Op> = Vec::new();
    let mut stream: Option<Stream> = None;
    let mut completed_streams: Vec<(u32, Vec<u8>)> = Vec::new();
    let mut aborted = false;
    let steps = 6 + rng.usize(20);
    let mut inbound_pid = 300u16;

    for _ in 0..steps {
        if !app.stops().is_empty() || c.done() {
            break;
        }
        let streaming = stream.as_ref().is_some_and(|s| !s.finished && !s.handle_dropped && !s.overdelivered);
        let a = ch.pick(12);
        match a {
            // ---- plain sends (fail with ExpectPayload while a payload is owed)
            0 | 1 => {
                let id = next_op_id();
                let q = ch.pick(4);
                let spec = PubSpec::new("w/p", marker(id, 10 + rng.usize(150)));
                if q == 3 && !with_cb {
                    // (no callback registered: nothing to do in this step)
                } else if q == 3 {
                    // non-blocking QoS 1 send (its result is an immediate Ok / Err)
                    c.settle().await;
                    let before = c.peer.raw.len();
                    if let Some(r) = sink.send_qos1_noblock(&spec) {
                        app.log(Ev::SinkCall { op: id, n: 0, what: "q1-noblock".into() });
                        app.log(Ev::SinkRet { op: id, n: 0, res: r.clone() });
                        c.settle().await;
                        if !r.is_ok() {
                            o.failing_ops_checked += 1;
                            if c.peer.raw.len() != before && app.stops().is_empty() {
                                o.violations.push(("a send that returned an error changed the byte stream".into(), format!("non-blocking QoS 1 send -> {r:?}; {} bytes appeared", c.peer.raw.len() - before)));
                            }
                        }
                    }
                } else if q == 0 {
                    c.settle().await;
                    let before = c.peer.raw.len();
                    let r = sink.send_qos0(&spec);
                    app.log(Ev::SinkRet { op: id, n: 0, res: r.clone() });
                    c.settle().await;
                    if !r.is_ok() {
                        o.failing_ops_checked += 1;
                        if c.peer.raw.len() != before && app.stops().is_empty() {
                            o.violations.push(("a send that returned an error changed the byte stream".into(), format!("QoS 0 send -> {r:?}; {} bytes appeared", c.peer.raw.len() - before)));
                        }
                    }
                } else if q == 1 {
                    let mut op = Op::new(&app, id, "q1", sink.send_qos1(&spec));
                    op.start();
                    ops.push(op);
                } else {
                    let chn = Chan::new();
                    chn.push(ReceiptCmd::Release);
                    let app2 = app.clone();
                    let mut op = Op::new(&app, id, "q2", sink.send_qos2(&spec, chn, Rc::new(move |_, res| {
                        app2.log(Ev::SinkRet { op: id, n: 1, res });
                    })));
                    op.start();
                    ops.push(op);
                }
            }
            // ---- sends built to fail locally
            2 => {
                let id = next_op_id();
                c.settle().await;
                let before = c.peer.raw.len();
                let (what, res): (&str, SinkRes) = match ch.pick(4) {
                    0 => ("qos0-with-packet-id", sink.send_qos0(&PubSpec::new("w/bad", marker(id, 12)).pid(Some(9)))),
                    1 => ("over-long-topic", sink.send_qos0(&PubSpec::new(&"t".repeat(65_540), marker(id, 5)))),
                    2 if v5 => ("over-peer-max-packet-size", sink.send_qos0(&PubSpec::new("w/big", marker(id, 900)))),
                    _ => {
                        let mut spec = PubSpec::new("w/bad", marker(id, 8));
                        spec.content_type = Some("c".repeat(65_540));
                        ("over-long-property-or-topic", if v5 { sink.send_qos0(&spec) } else { sink.send_qos0(&PubSpec::new(&"u".repeat(70_000), marker(id, 3))) })
                    }
                };
                app.log(Ev::SinkCall { op: id, n: 0, what: what.into() });
                app.log(Ev::SinkRet { op: id, n: 0, res: res.clone() });
                c.settle().await;
                o.failing_ops_checked += 1;
                if res.is_ok() {
                    o.violations.push((format!("send that cannot be encoded returned Ok ({what})"), String::new()));
                } else if c.peer.raw.len() != before && app.stops().is_empty() {
                    o.violations.push((
                        format!("a send that returned an error changed the byte stream ({what})"),
                        format!("{res:?}; {} bytes appeared: {}", c.peer.raw.len() - before, pool::hex_short(&c.peer.raw[before..])),
                    ));
                }
            }
            // ---- failing awaited sends (id in use, over-long topic on QoS 1)
            3 => {
                let id = next_op_id();
                let spec = if ch.chance(1, 2) { PubSpec::new("w/dup", marker(id, 20)).pid(Some(1 + rng.below(3) as u16)) } else { PubSpec::new(&"v".repeat(65_600), marker(id, 4)) };
                let mut op = Op::new(&app, id, "q1-maybe-failing", sink.send_qos1(&spec));
                op.start();
                ops.push(op);
            }
            // ---- start a streamed send
            4 | 5 if stream.as_ref().is_none_or(|s| s.finished || s.handle_dropped || s.overdelivered) => {
                if let Some(s) = stream.take() {
                    if s.finished {
                        completed_streams.push((s.op, s.written.clone()));
                    }
                    if let Some(a) = s.ack {
                        ops.push(a);
                    }
                    ops.push(s.writer);
                }
                let id = next_op_id();
                let declared = 1 + rng.usize(300);
                let cmds = Chan::new();
                let app2 = app.clone();
                let res_cb: Rc<dyn Fn(usize, SinkRes)> = Rc::new(move |n, r| {
                    app2.log(Ev::SinkRet { op: id, n: n as u32 + 1000, res: r });
                });
                // (the topic names the operation: a streamed send that reports "cancelled before
                // it was started" must not have put its PUBLISH header on the wire)
                let spec = PubSpec::new(&format!("w/stream/{id}"), vec![]);
                if ch.chance(1, 3) {
                    match sink.stream_qos0(&spec, declared as u32, cmds.clone(), res_cb) {
                        Ok(w) => {
                            let mut writer = Op::new(&app, id, "stream-q0-writer", w);
                            writer.start();
                            stream = Some(Stream { op: id, declared, cmds, written: vec![], writer, ack: None, finished: false, handle_dropped: false, overdelivered: false });
                        }
                        Err(r) => {
                            app.log(Ev::SinkRet { op: id, n: 0, res: r });
                        }
                    }
                } else {
                    let (ack, w) = sink.stream_qos1(&spec, declared as u32, cmds.clone(), res_cb);
                    let mut ack = Op::new(&app, id, "stream-q1-ack", ack);
                    ack.start();
                    let mut writer = Op::new(&app, next_op_id(), "stream-q1-writer", w);
                    writer.start();
                    stream = Some(Stream { op: id, declared, cmds, written: vec![], writer, ack: Some(ack), finished: false, handle_dropped: false, overdelivered: false });
                }
            }
            // ---- feed the stream
            6 | 7 | 8 if streaming => {
                let s = stream.as_mut().unwrap();
                let left = s.declared - s.written.len();
                match ch.pick(8) {
                    0 => {
                        // drop the handle with payload still owed
                        s.cmds.push(StreamCmd::DropHandle);
                        s.handle_dropped = true;
                        if left > 0 {
                            aborted = true;
                            o.streams_aborted += 1;
                        }
                    }
                    1 => {
                        // over-delivery
                        let chunk = marker(s.op, left + 1 + rng.usize(5));
                        s.cmds.push(StreamCmd::Chunk(chunk));
                        s.overdelivered = true;
                        aborted = true;
                        o.streams_aborted += 1;
                    }
                    _ => {
                        let n = if ch.chance(1, 3) { left } else { 1 + rng.usize(left) };
                        let mut chunk = vec![0u8; n];
                        for (i, b) in chunk.iter_mut().enumerate() {
                            *b = b'A' + ((s.written.len() + i) % 26) as u8;
                        }
                        s.written.extend_from_slice(&chunk);
                        s.cmds.push(StreamCmd::Chunk(chunk));
                        if s.written.len() == s.declared {
                            s.finished = true;
                            o.streams_completed += 1;
                        }
                    }
                }
            }
            // ---- inbound request whose response is produced now (possibly mid-stream)
            9 if role.is_server() => {
                app.proto_plans.borrow_mut().push_back(ProtoPlan { gated: false, answer: ProtoAnswer::Ack });
                match ch.pick(4) {
                    0 => {
                        c.peer.send(&R::PingReq);
                    }
                    1 => {
                        inbound_pid += 1;
                        c.peer.send(&R::Subscribe { pid: inbound_pid, props: vec![], filters: vec![("z/#".into(), 0)] });
                    }
                    2 => {
                        inbound_pid += 1;
                        c.peer.send(&R::Unsubscribe { pid: inbound_pid, props: vec![], filters: vec!["z/#".into()] });
                    }
                    _ => {
                        inbound_pid += 1;
                        c.peer.send(&R::Publish { dup: false, qos: 1, retain: false, topic: "in".into(), pid: Some(inbound_pid), props: vec![], payload: vec![1, 2, 3] });
                    }
                }
                if streaming {
                    o.responses_during_stream += 1;
                }
            }
            9 => {
                // client roles: an inbound QoS 1 publish is answered with PUBACK
                inbound_pid += 1;
                c.peer.send(&R::Publish { dup: false, qos: 1, retain: false, topic: "in".into(), pid: Some(inbound_pid), props: vec![], payload: vec![1, 2, 3] });
                if streaming {
                    o.responses_during_stream += 1;
                }
            }
            // ---- peer acknowledges
            10 => {
                pm.absorb(&app);
                if let Some(p) = pm.next_ack() {
                    c.peer.send(&p);
                }
            }
            _ => {
                if !role.is_server() && ch.chance(1, 2) {
                    let id = next_op_id();
                    let mut op = Op::new(&app, id, "subscribe", sink.subscribe(None, &[("s/#", 1)]));
                    op.start();
                    ops.push(op);
                }
            }
        }
        if ch.chance(2, 3) {
            c.settle().await;
            pm.absorb(&app);
        }
    }
    c.settle().await;
    pm.absorb(&app);
    // ---- ending
    match ch.pick(4) {
        0 => sink.close(),
        1 => sink.force_close(),
        2 => c.peer.close(),
        _ => {}
    }
    c.settle().await;
    if let Some(s) = stream.take() {
        if s.finished {
            completed_streams.push((s.op, s.written.clone()));
        }
        s.cmds.push(StreamCmd::DropHandle);
    }
    c.finish().await;

    // -------------------------------------------------------------------- RefStream
    o.bytes = c.peer.raw.len();
    o.packets = c.peer.packets_read;
    if let Some(g) = &c.peer.garbage {
        o.violations.push((
            "the byte stream written by the endpoint does not parse as MQTT packets".into(),
            format!("reference stream decoder: {g}; {} packets parsed before, stream tail {}", o.packets, pool::hex_short(&c.peer.raw[c.peer.raw.len().saturating_sub(80)..])),
        ));
    } else if c.peer.partial_tail() > 0 {
        // a truncated last packet is tolerated only when the endpoint aborted the connection
        if aborted || app.count(|e| matches!(e, Ev::CtlEnter { stop: Some(_), .. })) > 0 {
            o.truncated_tail_after_abort += 1;
        } else {
            o.violations.push(("the byte stream ends with an incomplete packet although the connection was not aborted".into(), format!("{} trailing bytes", c.peer.partial_tail())));
        }
    }
    // payload of completed streams
    // (every stream has a topic of its own, `w/stream/<op>`: its PUBLISH is identified exactly; a
    // stream that was cut by the ending before it was flushed has no complete packet to judge)
    for (op, written) in &completed_streams {
        if c.peer.garbage.is_some() {
            continue;
        }
        let own = format!("w/stream/{op}");
        if let Some(payload) = app.wire().iter().find_map(|(_, p)| if let R::Publish { topic, payload, .. } = p { (*topic == own).then(|| payload.clone()) } else { None }) {
            if payload != *written {
                o.violations.push(("payload of a streamed PUBLISH differs from the bytes the application wrote".into(), format!("stream op {op}, {} bytes", written.len())));
            }
        }
    }
    // a streamed send that was cancelled before it started has written nothing
    for op in &ops {
        if op.what == "stream-q1-ack" && matches!(op.result(), Some(SinkRes::ErrStreamingCancelled)) {
            o.failing_ops_checked += 1;
            // the topic as it stands in a PUBLISH header: length prefix + name (exact, "w/stream/1"
            // is not a prefix match of "w/stream/12")
            let name = format!("w/stream/{}", op.id).into_bytes();
            let mut m = vec![0u8, name.len() as u8];
            m.extend_from_slice(&name);
            if c.peer.raw.windows(m.len()).any(|w| w == m.as_slice()) {
                o.violations.push(("a streamed send that reported 'cancelled' left its PUBLISH header on the wire".into(), format!("{} -> {:?}", op.what, op.result())));
            }
        }
    }
    // a send that returned a local error (identifier in use, encoder error) leaves nothing behind:
    // its payload starts with a marker that is unique to the operation
    for op in &ops {
        // (exactly-once sends are left out: their result may be the error of the release phase,
        // after the PUBLISH was written and acknowledged with PUBREC)
        if op.what.starts_with("q1") && matches!(op.result(), Some(SinkRes::ErrIdInUse(_)) | Some(SinkRes::ErrEncode(_))) {
            o.failing_ops_checked += 1;
            let m = format!("<op{}>", op.id).into_bytes();
            if c.peer.raw.windows(m.len()).any(|w| w == m.as_slice()) {
                o.violations.push(("an awaited send that returned an error left its packet on the wire".into(), format!("{} -> {:?}", op.what, op.result())));
            }
        }
    }
    o.sig = app.trace_signature();
    o.log = app.render(70);
    o
}

pub fn run(opts: &Opts) -> i32 {
    let rep = Report::new(
        opts,
        "exploration",
        "seeded random interleavings of sink operations (QoS 0/1/2 sends, streamed QoS 0/1 sends fed chunk by chunk with \
         exact / short+drop / over-delivery / immediate drop, locally failing sends of 5 kinds, subscribe), inbound \
         requests answered mid-stream, a correctly acknowledging peer, write buffers of 128 / 512 / 16384 bytes and \
         four endings (close, force_close, peer close, none), 4 roles. distinct = distinct boundary-event trace signatures",
    );
    let quick = opts.tier == Tier::Quick;
    let n = ((if quick { 30_000.0 } else { 2_000_000.0 }) * opts.scale) as u64;
    pool::par_for(n, None, |i| {
        let mut rng = Rng::for_case(opts.seed, "C08", i);
        let role = *rng.pick(&Role::ALL);
        let mut ch = RandomChoice::new(Rng::for_case(opts.seed, "C08-choices", i));
        let r = exec(async move { scenario(role, &mut rng, &mut ch).await });
        rep.eval();
        match &r {
            Run::Done(o, st) => {
                rep.distinct(o.sig);
                rep.count("packets_parsed_by_reference_decoder", o.packets as u64);
                rep.count("bytes_captured", o.bytes as u64);
                rep.count("failing_sends_checked", o.failing_ops_checked);
                rep.count("streams_completed", o.streams_completed);
                rep.count("streams_aborted", o.streams_aborted);
                rep.count("responses_produced_while_streaming", o.responses_during_stream);
                rep.count("truncated_tail_after_abort(allowed)", o.truncated_tail_after_abort);
                rep.count("busy_wait_quiescences(info)", st.spins);
                if i < 3 {
                    rep.sample(3, || json!({"role": role.name(), "log": o.log}));
                }
                for (class, what) in &o.violations {
                    rep.violation(Violation {
                        signature: format!("{}: {}", role.name(), pool::abstract_numbers(class)),
                        what: format!("{class} — {what}"),
                        replay: json!({"role": role.name(), "seed": opts.seed, "index": i, "log": o.log}),
                    });
                }
            }
            Run::Panic(p, tail) => rep.violation(Violation { signature: format!("{}: {}", role.name(), p.signature()), what: format!("panic: {} at {}", p.msg, p.location), replay: json!({"seed": opts.seed, "index": i, "log": tail}) }),
            Run::Livelock(tail) => rep.violation(Violation { signature: format!("{}: live-lock", role.name()), what: "step budget exhausted".into(), replay: json!({"seed": opts.seed, "index": i, "log": tail}) }),
            Run::Watchdog => rep.inconclusive("watchdog"),
        }
        r.after()
    });
    rep.assume("reference stream decoder (self-tested) judges well-formedness");
    rep.require("packets_parsed_by_reference_decoder", 50_000);
    rep.require("failing_sends_checked", 2_000);
    rep.require("streams_completed", 500);
    rep.require("streams_aborted", 500);
    rep.require("responses_produced_while_streaming", 200);
    rep.finish()
}
