use crate::report::Opts;

mod c01;
mod c02;
mod c03;
mod c04;
mod c06;
mod c08;
mod c09;
mod c09_conn;
mod c10;
mod c10_conn;
mod c11;
mod c11_after;
mod c12;
mod c13_stream;
mod c14;
mod c07;
mod c15;
mod c16;
mod c17;
mod c14_close;
mod c17_after;
mod c18;
mod c18_conn;
mod c19;
mod c20;
mod sinkwalk;
mod walkprops;
mod smoke;

/// properties whose scenario-independent core rule exists as a universal monitor
/// (harness/src/universal.rs): their checks also run that monitor over the workloads of the other
/// connection-level checks ("cross mode")
const CROSS_TARGETS: &[&str] = &["C03", "C04", "C05", "C07", "C08", "C11", "C12", "C14", "C15", "C19"];

fn conn_part(opts: &Opts, f: fn(&Opts, &crate::report::Report)) -> i32 {
    let rep = crate::report::Report::new(opts, "exploration", "cross workload");
    f(opts, &rep);
    rep.finish()
}

/// workloads of the connection-level checks, in a fixed order (the order defines the numbering of
/// the parallel loops a replay file refers to)
fn cross_sources() -> Vec<(&'static str, Box<dyn Fn(&Opts) -> i32>)> {
    vec![
        ("C03", Box::new(c03::run)),
        ("C04", Box::new(c04::run)),
        ("C05", Box::new(|o: &Opts| walkprops::run(o, "C05"))),
        ("C06", Box::new(c06::run)),
        ("C07", Box::new(c07::run)),
        ("C08", Box::new(c08::run)),
        ("C09", Box::new(|o: &Opts| conn_part(o, c09_conn::run_part))),
        ("C10", Box::new(|o: &Opts| conn_part(o, c10_conn::run_part))),
        ("C11", Box::new(c11::run)),
        ("C12", Box::new(c12::run)),
        ("C13", Box::new(|o: &Opts| walkprops::run(o, "C13"))),
        ("C14", Box::new(c14::run)),
        ("C15", Box::new(c15::run)),
        ("C16", Box::new(c16::run)),
        ("C17", Box::new(c17::run)),
        ("C18", Box::new(|o: &Opts| conn_part(o, c18_conn::run_part))),
        ("C19", Box::new(c19::run)),
    ]
}

fn cross_enabled(opts: &Opts) -> bool {
    CROSS_TARGETS.contains(&opts.prop.as_str())
        && opts.cross.is_none()
        && std::env::var("VERIF_NO_CROSS").as_deref() != Ok("1")
        && std::env::var("VERIF_SANITIZER").is_err()
}

pub fn run(opts: &Opts) -> i32 {
    if cross_enabled(opts) {
        // the other checks' workloads first, judged only by this property's universal monitor
        let factor = match opts.tier {
            crate::report::Tier::Quick => 0.25,
            crate::report::Tier::Thorough => 4.0,
        };
        let only: Option<Vec<String>> = std::env::var("VERIF_CROSS_ONLY").ok().map(|s| s.split(',').map(str::to_string).collect());
        for (name, f) in cross_sources() {
            if name == opts.prop || only.as_ref().is_some_and(|o| !o.iter().any(|x| x == name)) {
                continue;
            }
            let o2 = Opts {
                prop: opts.prop.clone(),
                tier: crate::report::Tier::Quick,
                seed: opts.seed,
                replay: None,
                hooks: opts.hooks,
                build: opts.build.clone(),
                scale: opts.scale * factor,
                extra: vec![],
                cross: Some(name.to_string()),
            };
            let _ = f(&o2);
        }
    }
    run_own(opts)
}

fn run_own(opts: &Opts) -> i32 {
    match opts.prop.as_str() {
        "C01" => c01::run(opts),
        "C02" => c02::run(opts),
        "C03" => c03::run(opts),
        "C04" => c04::run(opts),
        "C05" => walkprops::run(opts, "C05"),
        "C06" => c06::run(opts),
        "C08" => c08::run(opts),
        "C09" => c09::run(opts),
        "C11" => c11::run(opts),
        "C12" => c12::run(opts),
        "C13" => walkprops::run(opts, "C13"),
        "C10" => c10::run(opts),
        "C14" => c14::run(opts),
        "C07" => c07::run(opts),
        "C15" => c15::run(opts),
        "C16" => c16::run(opts),
        "C17" => c17::run(opts),
        "C18" => c18::run(opts),
        "C19" => c19::run(opts),
        "C20" => c20::run(opts),
        "noop" => 0,
        "smoke" => smoke::run(opts),
        "leak" => smoke::leak(opts),
        other => {
            println!("INCONCLUSIVE: no check registered for {other}");
            2
        }
    }
}
