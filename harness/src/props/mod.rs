use crate::report::Opts;

mod c01;
mod c02;
mod c03;
mod c04;
mod c06;
mod c08;
mod c09;
mod c09_conn;
mod c10;
mod c10_conn;
mod c11;
mod c12;
mod c13_stream;
mod c14;
mod c07;
mod c15;
mod c16;
mod c17;
mod c18;
mod c18_conn;
mod c19;
mod c20;
mod sinkwalk;
mod walkprops;
mod smoke;

pub fn run(opts: &Opts) -> i32 {
    match opts.prop.as_str() {
        "C01" => c01::run(opts),
        "C02" => c02::run(opts),
        "C03" => c03::run(opts),
        "C04" => c04::run(opts),
        "C05" => walkprops::run(opts, "C05"),
        "C06" => c06::run(opts),
        "C08" => c08::run(opts),
        "C09" => c09::run(opts),
        "C11" => c11::run(opts),
        "C12" => c12::run(opts),
        "C13" => walkprops::run(opts, "C13"),
        "C10" => c10::run(opts),
        "C14" => c14::run(opts),
        "C07" => c07::run(opts),
        "C15" => c15::run(opts),
        "C16" => c16::run(opts),
        "C17" => c17::run(opts),
        "C18" => c18::run(opts),
        "C19" => c19::run(opts),
        "C20" => c20::run(opts),
        "noop" => 0,
        "smoke" => smoke::run(opts),
        "leak" => smoke::leak(opts),
        other => {
            println!("INCONCLUSIVE: no check registered for {other}");
            2
        }
    }
}
